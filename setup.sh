#!/bin/sh
# Offline setup: nothing is built ahead of time (Python is imported from /repo's working tree,
# TLC parses spec/ on every run). Sanity-check that the interpreter, acnportal and TLC are usable and
# that every specification parses (a module that does not parse is reported here; the check that
# needs it would fail as a machinery failure, exit 2, never as a violation).
cd "$(dirname "$0")" || exit 1
mkdir -p evidence replays
/venv/bin/python -c "import acnportal, numpy, pandas" || exit 1
[ -f /opt/veriftools/tla/tla2tools.jar ] && java -version >/dev/null 2>&1 || { echo "TLC not runnable"; exit 1; }
bad=0
tmp=$(mktemp)
for f in spec/MC_*.tla spec/*Trace.tla; do
  [ -f "$f" ] || continue
  ( cd spec && java -cp /opt/veriftools/tla/tla2tools.jar:/opt/veriftools/tla/CommunityModules-deps.jar tla2sany.SANY "$(basename "$f")" >"$tmp" 2>&1 )
  if grep -q "Could not parse\|\*\*\* Errors\|Fatal errors\|Semantic errors" "$tmp"; then echo "SANY: $f does not parse"; grep -A6 "rrors" "$tmp" | head -12; bad=$((bad+1)); fi
done
rm -f "$tmp"
echo "setup: specifications that do not parse: $bad"
exit 0
