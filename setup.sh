#!/bin/sh
# Offline setup: nothing is built ahead of time (Python is imported from /repo's working tree,
# TLC parses spec/ on every run). Only sanity-check that every specification parses.
cd "$(dirname "$0")" || exit 1
mkdir -p evidence replays
st=0
for f in spec/MC_*.tla spec/*Trace.tla; do
  [ -f "$f" ] || continue
  ( cd spec && java -cp /opt/veriftools/tla/tla2tools.jar:/opt/veriftools/tla/CommunityModules-deps.jar tla2sany.SANY "$(basename "$f")" >/tmp/verif-sany.$$ 2>&1 ) || { cat /tmp/verif-sany.$$; st=1; }
  if grep -q "Could not parse\|\*\*\* Errors\|Fatal errors" /tmp/verif-sany.$$; then cat /tmp/verif-sany.$$; st=1; fi
done
rm -f /tmp/verif-sany.$$
/venv/bin/python -c "import acnportal, jsonschema" 2>/dev/null || /venv/bin/python -c "import acnportal"
exit $st
