------------------------------ MODULE Rampdown ------------------------------
(***************************************************************************)
(* The stateful upper-bound estimator of the sorting-based schedulers,      *)
(* acnportal/algorithms/upper_bound_estimator.py::SimpleRampdown, in the     *)
(* closed loop in which SortedSchedulingAlgo / RoundRobin use it (property   *)
(* C07, clause "never exceeds ... when an estimator is used, the estimator's *)
(* bound for that session (or the uninterrupted-charging minimum pilot, if   *)
(* that is larger)").  SortedAlgo.tla takes the bound as an input            *)
(* (ses[s].est); this module says where the bound comes from and how it is   *)
(* carried from one scheduler invocation to the next.                        *)
(*                                                                         *)
(* Abstract state of the estimator: the table `ub` (SimpleRampdown.          *)
(* upper_bounds), a function from the ids of the sessions it has ever been   *)
(* handed to their bound.  Entries of departed sessions stay.                *)
(*                                                                         *)
(* One period of the loop (Simulator.run with max_recompute = 1):            *)
(*   Arrive / Depart      plug-in and unplug events of the period            *)
(*   Estimate(S)          ONE call get_maximum_rates(S) - inside             *)
(*                        schedule(): run_preprocessing ->                   *)
(*                        apply_upper_bound_estimate, before the sort        *)
(*   Schedule             the rest of run_preprocessing (bounds [lo, hi]     *)
(*                        per listed session) and the algorithm's grant      *)
(*   Apply                update_pilots: the pilots are applied, the EVs     *)
(*                        draw their actual rates; the period ends           *)
(* What the estimator sees of the world is what Interface reports in the     *)
(* next period (acnportal/acnsim/interface.py):                              *)
(*   last_applied_pilot_signals  {session id -> pilot of period t-1} for the *)
(*        ACTIVE EVs (plugged in, not fully charged) with arrival <= t-1,    *)
(*        and only if t-1 > 0 (the dictionary is empty in periods 0 and 1);  *)
(*   last_actual_charging_rate   {session id -> rate} for every active EV.   *)
(*                                                                         *)
(* Units: current in 1e-2 A.  Session ids and station ids are strings from   *)
(* disjoint sets.                                                           *)
(***************************************************************************)
EXTENDS RampdownDefs, Sequences, TLC, Json

CONSTANTS
    Stations,    \* set of station ids
    SessIds,     \* set of session ids (disjoint from Stations)
    StationOf,   \* [SessIds -> Stations]; sessions of one station follow each other without overlap
    MaxPilot,    \* [Stations -> Nat]  Interface.max_pilot_signal(station)
    MinPilot,    \* [Stations -> Nat]  InfrastructureInfo.min_pilot (0 for a continuous-from-zero EVSE)
    UpThr, DownThr, UpInc,   \* SimpleRampdown(up_threshold, down_threshold, up_increment)
    Unint,       \* uninterrupted_charging of the scheduler
    Closed,      \* TRUE: the pilot a session observes is the pilot it was granted (Simulator);
                 \* FALSE: any pilot of PLat (an interface to something else than the simulator)
    PLat,        \* pilots an open environment applies
    GLat,        \* further grant values tried between lo and hi
    Drops,       \* actual rate = pilot - d for d \in Drops (>= 0), or 0
    MaxT,        \* periods 0 .. MaxT-1 (a behaviour ends with the schedule of period MaxT-1)
    MaxOn,       \* at most this many sessions plugged in at the same time
    Rec

ASSUME SessIds \cap Stations = {}
ASSUME UpThr >= 0 /\ DownThr >= 0 /\ UpInc >= 0

VARIABLES
    t,       \* current period (Simulator.iteration)
    stage,   \* "events" | "call" (estimator about to be called) | "sched" | "apply" | "emitted"
    ph,      \* [SessIds -> "future" | "on" (plugged in, active) | "full" (plugged in, fully charged) | "gone"]
    old,     \* [SessIds -> BOOLEAN]  plugged in during the last applied period (arrival <= t-1)
    lastP,   \* [SessIds -> Nat]  pilot applied to the session's station in the last period
    lastR,   \* [SessIds -> Nat]  EV.current_charging_rate
    ub,      \* the estimator's table: function from a subset of SessIds
    passed,  \* the sessions listed in the current / last call
    grant,   \* [SessIds -> Nat] pilots granted by the current / last invocation (0 if not listed)
    hist
vars == <<t, stage, ph, old, lastP, lastR, ub, passed, grant, hist>>

Zero == [s \in SessIds |-> 0]
Mx(s) == MaxPilot[StationOf[s]]
Mn(s) == MinPilot[StationOf[s]]
Plugged == {s \in SessIds : ph[s] \in {"on", "full"}}
Active == {s \in SessIds : ph[s] = "on"}

\* Interface.last_applied_pilot_signals / last_actual_charging_rate in period t
ObsDom == IF t - 1 > 0 THEN {s \in Active : old[s]} ELSE {}
ObsP == [s \in ObsDom |-> lastP[s]]
ObsR == [s \in Active |-> lastR[s]]

\* all functions f on D with f[x] \in S[x]
RECURSIVE Prod(_, _)
Prod(S, D) == IF D = {} THEN {<<>>}
              ELSE LET x == CHOOSE y \in D : TRUE
                   IN {(x :> v) @@ f : v \in S[x], f \in Prod(S, D \ {x})}
Total(f) == [s \in SessIds |-> IF s \in DOMAIN f THEN f[s] ELSE 0]

Log(r) == IF Rec THEN Append(hist, r) ELSE hist
AsSeq(f) == LET RECURSIVE R(_)
                R(D) == IF D = {} THEN <<>> ELSE LET x == CHOOSE y \in D : TRUE IN <<[s |-> x, v |-> f[x]]>> \o R(D \ {x})
            IN R(DOMAIN f)

Init ==
    /\ t = 0 /\ stage = "events"
    /\ ph = [s \in SessIds |-> "future"] /\ old = [s \in SessIds |-> FALSE]
    /\ lastP = Zero /\ lastR = Zero
    /\ ub = <<>> /\ passed = {} /\ grant = Zero /\ hist = <<>>

-----------------------------------------------------------------------------
\* events of the period
Arrive(s) ==
    /\ stage = "events" /\ ph[s] = "future"
    /\ \A o \in Plugged : StationOf[o] # StationOf[s]
    /\ Cardinality(Plugged) < MaxOn
    /\ ph' = [ph EXCEPT ![s] = "on"]
    /\ UNCHANGED <<t, stage, old, lastP, lastR, ub, passed, grant, hist>>

Depart(s) ==
    /\ stage = "events" /\ s \in Plugged /\ old[s]
    /\ ph' = [ph EXCEPT ![s] = "gone"]
    /\ old' = [old EXCEPT ![s] = FALSE]
    /\ lastP' = [lastP EXCEPT ![s] = 0] /\ lastR' = [lastR EXCEPT ![s] = 0]
    /\ UNCHANGED <<t, stage, ub, passed, grant, hist>>

Invoke ==       \* all events of the period are processed; the scheduler runs
    /\ stage = "events"
    /\ stage' = "call"
    /\ UNCHANGED <<t, ph, old, lastP, lastR, ub, passed, grant, hist>>

-----------------------------------------------------------------------------
\* SimpleRampdown.get_maximum_rates(S)
Cur(s) == IF s \in DOMAIN ub THEN ub[s] ELSE Mx(s)      \* first sight: the station's maximum pilot
NewBound(s) == IF s \in DOMAIN ObsP
               THEN RampP(Cur(s), ObsP[s], ObsR[s], Mx(s), UpThr, DownThr, UpInc)
               ELSE Cur(s)
Estimate(S) ==
    /\ stage = "call" /\ S \subseteq Plugged
    /\ ub' = [s \in DOMAIN ub \cup S |-> IF s \in S THEN NewBound(s) ELSE ub[s]]
    /\ passed' = S
    /\ stage' = "sched"
    /\ hist' = Log([t |-> t, passed |-> S,
                    obs |-> AsSeq([s \in ObsDom |-> <<ObsP[s], ObsR[s]>>]),
                    rates |-> AsSeq(ObsR), tab |-> AsSeq(ub')])
    /\ UNCHANGED <<t, ph, old, lastP, lastR, grant>>
DoEstimate == \E S \in SUBSET Plugged : Estimate(S)

\* the rest of run_preprocessing and the algorithm: a grant within [lo, hi], or 0
Bounds(s, R) == LoHi(Mx(s), Mn(s), IF s \in DOMAIN ub THEN ub[s] ELSE -1, Unint, s \in R)
GrantSet(s, R) == LET b == Bounds(s, R) IN {0, b[1], b[2]} \cup {x \in GLat : b[1] <= x /\ x <= b[2]}
Schedule ==
    /\ stage = "sched"
    \* (a minimum rate of 0 is never refused: adding 0 to a feasible vector of minimum rates keeps it feasible)
    /\ \E R \in (IF Unint THEN SUBSET {s \in passed : Mn(s) > 0} ELSE {{}}) :
       \E g \in Prod([s \in passed |-> {x \in GrantSet(s, R) : x = 0 \/ x >= Bounds(s, R)[1]}], passed) :
          /\ grant' = Total(g)
          /\ hist' = Log([refused |-> R, lohi |-> AsSeq([s \in passed |-> Bounds(s, R)]), grant |-> AsSeq(g)])
    /\ stage' = "apply"
    /\ UNCHANGED <<t, ph, old, lastP, lastR, ub, passed>>

\* update_pilots + the batteries' answer; some EVs become fully charged
RateSet(p) == {p - d : d \in {d \in Drops : p - d >= 0}} \cup {0}
PilotSet(s) == IF Closed THEN {grant[s]} ELSE {x \in PLat : x <= Mx(s)} \cup {grant[s]}
Apply ==
    /\ stage = "apply" /\ t < MaxT - 1
    /\ \E pr \in Prod([s \in Active |-> UNION {{<<p, r>> : r \in RateSet(p)} : p \in PilotSet(s)}], Active) :
       \E F \in {X \in SUBSET {s \in Active : pr[s][2] > 0} : Cardinality(X) <= 1} :
          /\ lastP' = [s \in SessIds |-> IF s \in Active THEN pr[s][1] ELSE 0]
          /\ lastR' = [s \in SessIds |-> IF s \in Active THEN pr[s][2] ELSE 0]
          /\ ph' = [s \in SessIds |-> IF s \in F THEN "full" ELSE ph[s]]
          /\ hist' = Log([applied |-> AsSeq([s \in Active |-> pr[s]]), full |-> F])
    /\ old' = [s \in SessIds |-> s \in Plugged]
    /\ t' = t + 1 /\ stage' = "events"
    /\ UNCHANGED <<ub, passed, grant>>

Finish ==       \* the last invocation (period MaxT-1) has been made
    /\ stage = "apply" /\ t = MaxT - 1
    /\ IF Rec THEN PrintT(<<"BHV", ToJson([up |-> UpThr, dn |-> DownThr, inc |-> UpInc, unint |-> Unint, closed |-> Closed,
                                           st |-> AsSeq([x \in Stations |-> <<MaxPilot[x], MinPilot[x]>>]),
                                           ses |-> AsSeq([s \in SessIds |-> StationOf[s]]), steps |-> hist])>>)
       ELSE TRUE
    /\ stage' = "emitted"
    /\ UNCHANGED <<t, ph, old, lastP, lastR, ub, passed, grant, hist>>

Terminated == stage = "emitted" /\ UNCHANGED vars

DoArrive == \E s \in SessIds : Arrive(s)
DoDepart == \E s \in SessIds : Depart(s)
Next == DoArrive \/ DoDepart \/ Invoke \/ DoEstimate \/ Schedule \/ Apply \/ Finish \/ Terminated
Spec == Init /\ [][Next]_vars

-----------------------------------------------------------------------------
\* Invariants
TypeOK ==
    /\ DOMAIN ub \subseteq SessIds
    /\ passed \subseteq SessIds
    /\ \A s \in SessIds : lastR[s] <= lastP[s] /\ lastR[s] >= 0 /\ grant[s] >= 0

BoundsInRange == \A s \in DOMAIN ub : 0 <= ub[s] /\ ub[s] <= Mx(s)

\* the table is keyed by session id, never by station id; who has been listed has an entry
KeyedBySession ==
    /\ DOMAIN ub \cap Stations = {}
    /\ DOMAIN ub \subseteq {s \in SessIds : ph[s] # "future"}
    /\ stage \in {"sched", "apply"} => passed \subseteq DOMAIN ub

\* with a positive increment the estimator never pins a session at 0: it can always resume
NeverStarved == \A s \in DOMAIN ub : ub[s] >= Min2(UpInc, Mx(s))

\* C07: the pilot granted in this invocation never exceeds the bound the estimator returned IN this
\* invocation (the table after Estimate), or the minimum pilot under uninterrupted charging;
\* sessions that were not listed get nothing
C07Clause ==
    stage = "apply" =>
        \A s \in SessIds : IF s \in passed THEN WithinBound(grant[s], ub[s], Mn(s), Unint, 0) /\ grant[s] <= Mx(s)
                           ELSE grant[s] = 0

\* the interval form of the rule degenerates to the rule itself
CandsExact ==
    stage = "call" =>
        \A s \in DOMAIN ObsP :
            RampCands(Cur(s), ObsP[s], ObsR[s], Mx(s), UpThr, DownThr, UpInc, 0) = {NewBound(s)}

\* Interface: a pilot observation exists only for an active session that was plugged in during
\* the previous period, and never in periods 0 and 1; the rate dictionary covers the pilot dictionary
ObsShape ==
    /\ DOMAIN ObsP \subseteq DOMAIN ObsR
    /\ t <= 1 => DOMAIN ObsP = {}
    /\ \A s \in DOMAIN ObsP : ph[s] = "on" /\ old[s] /\ ObsR[s] <= ObsP[s]
    /\ (Closed /\ stage \in {"events", "call", "sched"}) => \A s \in DOMAIN ObsP : ObsP[s] = grant[s]

-----------------------------------------------------------------------------
\* Action properties (each over one step; the estimator's step is the one from "call" to "sched")
IsCall == stage = "call" /\ stage' = "sched"

EntriesStay == [][DOMAIN ub \subseteq DOMAIN ub']_vars

\* an entry changes only in a call that lists the session AND has an observation for it
ChangeOnlyListedObserved ==
    [][\A s \in DOMAIN ub : ub'[s] # ub[s] => IsCall /\ s \in passed' /\ s \in DOMAIN ObsP]_vars

\* an entry is created only by a call that lists the session; without an observation it is the
\* maximum pilot of the session's station
CreatedWhenListed ==
    [][\A s \in DOMAIN ub' \ DOMAIN ub :
          /\ IsCall /\ s \in passed'
          /\ s \notin DOMAIN ObsP => ub'[s] = MaxPilot[StationOf[s]]]_vars

\* the three cases of the rule, for every listed session with an observation (u: entry before, or max pilot)
DownRule ==
    [][IsCall => \A s \in passed' \cap DOMAIN ObsP :
          ObsP[s] - ObsR[s] > DownThr => ub'[s] = Min2(ObsR[s] + UpInc, Mx(s))]_vars
UpRule ==
    [][IsCall => \A s \in passed' \cap DOMAIN ObsP :
          (ObsP[s] - ObsR[s] <= DownThr /\ Cur(s) - ObsR[s] < UpThr) => ub'[s] = Min2(Cur(s) + UpInc, Mx(s))]_vars
HoldRule ==
    [][IsCall => \A s \in passed' \cap DOMAIN ObsP :
          (ObsP[s] - ObsR[s] <= DownThr /\ Cur(s) - ObsR[s] >= UpThr) => ub'[s] = Cur(s)]_vars

\* an EV that draws exactly the pilot it was given, at its bound, gets UpInc more - until the station's maximum
RisesByIncrement ==
    [][(IsCall /\ UpThr > 0) => \A s \in passed' \cap DOMAIN ObsP :
          (ObsR[s] = ObsP[s] /\ ObsP[s] = Cur(s)) => ub'[s] = Min2(Cur(s) + UpInc, Mx(s))]_vars

\* in the closed loop a ramp-down really lowers the limit the session had in the last period
\* (its bound or, under uninterrupted charging, the minimum pilot) provided the increment does not exceed the threshold
RampDownLowers ==
    [][(IsCall /\ Closed /\ UpInc <= DownThr) => \A s \in passed' \cap DOMAIN ObsP :
          ObsP[s] - ObsR[s] > DownThr => ub'[s] < Max2(Cur(s), IF Unint THEN Mn(s) ELSE 0)]_vars

\* nothing but the estimator's call touches the table
OnlyCallWrites == [][~IsCall => ub' = ub]_vars
=============================================================================
