-------------------------- MODULE MC_StochasticNet --------------------------
(***************************************************************************)
(* Model-checking wrapper of StochasticNet: constants as definitions.       *)
(* V = 208 V, T = 5 min, max pilot 16 A: one period delivers at most        *)
(* 16 * 208 * 5 = 16640 W*min, so the requests below are satisfied after    *)
(* exactly 1, 2 periods or never within the horizon - always by a margin of  *)
(* >= 8320 W*min from the "fully charged" threshold (60 W*min): decisive.    *)
(***************************************************************************)
EXTENDS StochasticNet
ReqTwo   == {16640, 149760}
ReqThree == {16640, 33280, 149760}
PilotMax == {16}
PilotMenu == {0, 8, 16}
EarlyBoth == {FALSE, TRUE}
EarlyOn == {TRUE}
=============================================================================
