----------------------------- MODULE MC_Control -----------------------------
(* TLC constants for Control.tla: bounded exploration (Apalache discharges the inductive invariant for all integers). *)
EXTENDS Control
MRSmall == 0..4
Bound == t <= 7
=============================================================================
