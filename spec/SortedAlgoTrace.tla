--------------------------- MODULE SortedAlgoTrace ---------------------------
(***************************************************************************)
(* Code -> spec validation for SortedAlgo.tla (binding C of DESIGN.md).     *)
(*                                                                         *)
(* Every line of SortedAlgo_trace.ndjson is one invocation of a real        *)
(* scheduler (algorithm.run() on a real Interface / Simulator /             *)
(* ChargingNetwork): the input it saw - infrastructure, sessions, options - *)
(* and the schedule it returned, rounded to the unit 1e-5 A (`obs`).        *)
(* TLC re-executes the invocation with the very actions of SortedAlgo.tla:  *)
(* finite-rate grants, round-robin results and the uncontrolled baseline    *)
(* must EQUAL the observation; a continuous greedy grant is taken from the  *)
(* observation and judged by ContVerdict (the definite-violation form of    *)
(* GreedyContAccept, evaluated with exact feasibility and a rounding slack).*)
(* Finish prints one verdict per line (TRC): end state, reason, whether all *)
(* threshold decisions were decisive, and the C07 predicates that the       *)
(* observed schedule fails.  Thousands of invocations are validated by one  *)
(* TLC run; lines come from lattice cases and from closed-loop simulations. *)
(***************************************************************************)
EXTENDS SortedAlgo

Lines == ndJsonDeserialize("SortedAlgo_trace.ndjson")

ASSUME \A k \in 1..Len(Lines) :
          /\ Lines[k].opt.tid = k
          /\ Len(Lines[k].obs) = Len(Lines[k].net.st) /\ Len(Lines[k].ses) = Len(Lines[k].net.st)
          /\ \A j \in 1..Len(Lines[k].net.con) : Lines[k].net.con[j].lim <= 100 * U

TraceInit ==
    \E k \in 1..Len(Lines) :
        /\ net = Lines[k].net /\ ses = Lines[k].ses /\ opt = Lines[k].opt /\ obs = Lines[k].obs
        /\ InitRest(Lines[k].net)

TraceSpec == TraceInit /\ [][Next]_vars

\* every invocation reaches a verdict (no line is silently dropped)
Progress == pc \in {"pre", "min", "sort", "serve", "done", "error", "reject", "emitted"}
=============================================================================
