--------------------------- MODULE EventQueueTrace ---------------------------
(***************************************************************************)
(* Batch validation of executions of the REAL acnportal EventQueue against *)
(* EventQueue.tla (code -> spec direction of the round trip, DESIGN 2.1 C).*)
(*                                                                         *)
(* Input: EventQueue_batch.ndjson in the working directory, one trace per  *)
(* line:  {"tid": k, "ev": [line, line, ...]}  (tid = 1, 2, ... = line     *)
(* number).  A line is one public call made by the harness on a real       *)
(* queue with its arguments and the value the implementation returned:     *)
(*   {"op":"add",        "exc":0, "ev":{"id","ts","kind"}}                  *)
(*   {"op":"add_many",   "exc":0, "evs":[{"id","ts","kind"},...]}           *)
(*   {"op":"get_event",  "exc":0, "ev":{...}}            returned event     *)
(*   {"op":"get_current","exc":0, "t":t, "evs":[...]}    returned list      *)
(*   {"op":"len",        "exc":0, "n":n}                                    *)
(*   {"op":"empty",      "exc":0, "b":true|false}                           *)
(*   {"op":"last_ts",    "exc":0, "none":true|false, "ts":n}                *)
(*   {"op":"round_trip", "exc":0, "evs":[...]}   content of the restored    *)
(*                                               queue (its .queue array)   *)
(* "exc":1 marks a call that raised; no action of the specification        *)
(* matches it.  Returned events are identified by the harness (object      *)
(* identity; session id of the EV and timestamp after a JSON round trip);  *)
(* ts and kind are read from the returned object.  id 0 = not an event     *)
(* the harness ever put in.                                                *)
(*                                                                         *)
(* Every trace is a separate behaviour: Init chooses tid, each step        *)
(* matches the next line with the specification's action for that call,    *)
(* the logged result resolving the specification's nondeterminism.  The    *)
(* length of the matched prefix (and the specification state reached) is   *)
(* kept in TLC register tid (run with -workers 1); the POSTCONDITION       *)
(* prints one verdict per trace.  TLC itself always ends with "no error":  *)
(* a rejected trace is a verdict, not a failure of the run.                *)
(***************************************************************************)
EXTENDS EventQueue

\* constants of EventQueue for trace checking: no bounds on calls / events, no history
TrTs == 0..1000000
TrKinds == {"Unplug", "Plugin", "Recompute", "Urgent", "Base"}
TrNone == {}

Batch == ndJsonDeserialize("EventQueue_batch.ndjson")
NT == Len(Batch)

VARIABLES tid, l        \* trace, number of its lines matched so far
tvars == <<pending, nextId, nops, out, added, rets, hist, fin, tid, l>>

Lines == Batch[tid].ev
Line == Lines[l + 1]
Arg(e) == [ts |-> e.ts, kind |-> e.kind]

TrInit ==
    /\ Init
    /\ tid \in 1..NT
    /\ l = 0
    /\ TLCSet(tid, [l |-> 0, pending |-> {}])

TrAdd ==
    /\ Line.op = "add"
    /\ Line.ev.id = nextId
    /\ Add(Line.ev.ts, Line.ev.kind)

TrAddMany ==
    /\ Line.op = "add_many"
    /\ LET b == [i \in 1..Len(Line.evs) |-> Arg(Line.evs[i])] IN
        /\ Stamped(b, nextId) = Line.evs
        /\ AddMany(b)

TrAddManyFail ==
    /\ Line.op = "add_many_fail"
    /\ LET b == [i \in 1..Len(Line.evs) |-> Arg(Line.evs[i])] IN
        \* Line.evs: the k events the source produced before failing (+ one placeholder for the failing position);
        \* Line.kept: those of them the queue holds afterwards
        /\ Stamped(SubSeq(b, 1, Line.k), nextId) = SubSeq(Line.evs, 1, Line.k)
        /\ AddManyKept(b, Line.k, SeqRange(Line.kept))

TrGetEvent ==
    /\ Line.op = "get_event"
    /\ Line.ev \in pending
    /\ GetEvent(Line.ev)

TrGetCurrent ==
    /\ Line.op = "get_current"
    /\ GetCurrent(Line.t, Line.evs)

TrLen ==
    /\ Line.op = "len"
    /\ QLen
    /\ out'.n = Line.n

TrEmpty ==
    /\ Line.op = "empty"
    /\ QEmpty
    /\ out'.b = Line.b

TrLastTs ==
    /\ Line.op = "last_ts"
    /\ QLastTs
    /\ out'.none = Line.none
    /\ ~Line.none => out'.ts = Line.ts

TrRoundTrip ==
    /\ Line.op = "round_trip"
    /\ RoundTrip
    /\ Len(Line.evs) = Cardinality(out'.evs)
    /\ SeqRange(Line.evs) = out'.evs

TrNext ==
    /\ l < Len(Lines)
    /\ Line.exc = 0
    /\ \/ TrAdd \/ TrAddMany \/ TrAddManyFail \/ TrGetEvent \/ TrGetCurrent
       \/ TrLen \/ TrEmpty \/ TrLastTs \/ TrRoundTrip
    /\ l' = l + 1
    /\ tid' = tid
    /\ TLCSet(tid, [l |-> l', pending |-> pending'])

TrSpec == TrInit /\ [][TrNext]_tvars

\* One verdict per trace: matched prefix, length, and (if rejected) the specification state in
\* which the next line could not be matched.
Verdicts ==
    \A t \in 1..NT :
        LET r == TLCGet(t)
            n == Len(Batch[t].ev)
        IN PrintT(<<"VRD", ToJson([tid |-> Batch[t].tid, l |-> r.l, n |-> n,
                                   pending |-> IF r.l = n THEN {} ELSE r.pending])>>)
=============================================================================
