--------------------------- MODULE SitesApalache ---------------------------
(***************************************************************************)
(* The integer implication behind Sites!FeasibleWithinRatings /            *)
(* Sites!SecondaryAloneSuffices, for Apalache (SMT, unbounded integers).    *)
(*                                                                         *)
(* a, b, c: totals of the groups AB, BC, CA behind one delta-wye            *)
(* transformer [A]; cap: its capacity [kW].  The secondary line limit is    *)
(* 25*cap/9 A and, for non-negative totals,                                 *)
(*    |I_a|^2 = a^2 + c^2 + a*c,  |I_b|^2 = b^2 + a^2 + a*b,                *)
(*    |I_c|^2 = c^2 + b^2 + b*c                                             *)
(* (the identity 4|I|^2 = 3(p-r)^2 + (p-2q+r)^2 of Sites.tla with one        *)
(* negative coefficient).  Power through the windings at 120 V:             *)
(* 120*sqrt3*(a+b+c) <= 1000*cap  <=>  27 (a+b+c)^2 <= 625 cap^2.           *)
(*                                                                         *)
(* TLC decides this on lattices (MC_Sites); here every state satisfying     *)
(* Init is a case, and the invariant is checked for executions of length 0  *)
(*   apalache-mc check --length=0 --inv=SecondaryBoundsPower                *)
(* i.e. for ALL non-negative integers at once - if the solver manages the   *)
(* non-linear arithmetic.  The outcome is recorded in the evidence of the   *)
(* thorough tier and not relied upon.                                      *)
(* Paper proof: adding the three limits, 81*(2(a^2+b^2+c^2) + ab+bc+ca)     *)
(* <= 3*625 cap^2, and (a+b+c)^2 <= 2(a^2+b^2+c^2) + ab+bc+ca because        *)
(* ab+bc+ca <= a^2+b^2+c^2; hence 81 (a+b+c)^2 <= 3*625 cap^2.              *)
(***************************************************************************)
EXTENDS Integers

VARIABLES
    \* @type: Int;
    a,
    \* @type: Int;
    b,
    \* @type: Int;
    c,
    \* @type: Int;
    cap

Init ==
    /\ a \in Nat
    /\ b \in Nat
    /\ c \in Nat
    /\ cap \in Nat

Next == UNCHANGED <<a, b, c, cap>>

SecondaryLimits ==
    /\ 81 * (a * a + c * c + a * c) <= 625 * cap * cap
    /\ 81 * (b * b + a * a + a * b) <= 625 * cap * cap
    /\ 81 * (c * c + b * b + b * c) <= 625 * cap * cap

SecondaryBoundsPower == SecondaryLimits => 27 * (a + b + c) * (a + b + c) <= 625 * cap * cap

\* for comparison: the literal reading with the rounded 208 V does not follow (cap = 300, a = b = c = 481)
Literal208 == SecondaryLimits => 208 * (a + b + c) <= 1000 * cap
=============================================================================
