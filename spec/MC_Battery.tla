----------------------------- MODULE MC_Battery -----------------------------
EXTENDS Battery
(***************************************************************************)
(* Lattices.  CAP = 2^16 * 5^4 fine units; U = CAP/64 is the lattice step  *)
(* of pilots, maximum powers and noise draws (U is a multiple of 2K for    *)
(* K <= 512, so one micro-step at constant power is a whole number).       *)
(*   max power * T / capacity    1/64 ... 2   (7 kW, 5 min, 60 kWh is 1/103;*)
(*                                             7 kW, 60 min, 7 kWh is 1)    *)
(*   1 - transition_soc          1, 1/2, 1/5 (the default 0.8), 1/20, 7/10  *)
(*   initial charge              empty, half, just below / at / just above  *)
(*                               0.8, nearly full (1 - 2^-16 * 25/2), full  *)
(*   pilot * V * T / capacity    0, 1/64 ... 2                              *)
(*   noise draw * T / capacity   -1, -1/32, 0, 1/32, 1                      *)
(***************************************************************************)
CapUnits == 40960000
U == 640000

MsAll   == {<<1, 64>>, <<1, 16>>, <<1, 4>>, <<1, 2>>, <<1, 1>>, <<2, 1>>}
MsSmall == {<<1, 16>>, <<1, 2>>, <<2, 1>>}
TausAll   == {<<1, 1>>, <<1, 2>>, <<1, 5>>, <<1, 20>>, <<7, 10>>, <<1, 8>>}     \* <<1, 8>>: transition_soc 0.875 (not a whole percent)
TausSmall == {<<1, 1>>, <<1, 5>>, <<1, 20>>, <<1, 8>>}
InitsAll   == {0, 32 * U, 44 * U, 51 * U, 51 * U + 2560, 60 * U, 63 * U, 64 * U - 512, 64 * U}
InitsMid   == {0, 44 * U, 51 * U + 2560, 63 * U, 64 * U}
InitsSmall == {0, 48 * U, 63 * U}

TwoStage(kinds, ms, taus, inits, noisy) ==
    {[kind |-> k, init |-> i, mn |-> m[1], md |-> m[2], tn |-> t[1], td |-> t[2], noisy |-> n] :
        k \in kinds, m \in ms, t \in taus, i \in inits, n \in noisy}
Ideal(ms, inits) ==
    {[kind |-> "ideal", init |-> i, mn |-> m[1], md |-> m[2], tn |-> 1, td |-> 1, noisy |-> FALSE] :
        m \in ms, i \in inits}
Both == {FALSE, TRUE}
Quiet == {FALSE}

\* ideal + stepwise: cheap transitions, rich lattice
BatsExact      == Ideal(MsAll, InitsAll) \cup TwoStage({"stepwise"}, MsAll, TausAll, InitsAll, Both)
BatsExactMid   == Ideal(MsAll, InitsMid) \cup TwoStage({"stepwise"}, MsAll, TausSmall, InitsMid, Both)
BatsExactQuiet    == Ideal(MsAll, InitsAll) \cup TwoStage({"stepwise"}, MsAll, TausAll, InitsAll, Quiet)
BatsExactMidQuiet == Ideal(MsAll, InitsMid) \cup TwoStage({"stepwise"}, MsSmall, TausAll, InitsMid, Quiet)
\* continuous: every transition integrates the law over K micro-steps, up to four times
BatsCont       == TwoStage({"continuous"}, MsAll, TausAll, InitsAll, Both)
BatsContMid    == TwoStage({"continuous"}, MsAll, TausSmall, InitsMid, Both)
BatsContSmall  == TwoStage({"continuous"}, MsSmall, TausSmall, InitsSmall, Both)
BatsContQuiet      == TwoStage({"continuous"}, MsAll, TausAll, InitsAll, Quiet)
BatsContMidQuiet   == TwoStage({"continuous"}, MsAll, TausSmall, InitsMid, Quiet)
BatsContSmallQuiet == TwoStage({"continuous"}, MsSmall, TausSmall, InitsSmall, Quiet)
BatsAll      == BatsExact \cup BatsCont
BatsAllQuiet == BatsExactQuiet \cup BatsContQuiet
BatsMid      == BatsExactMid \cup BatsContMid
BatsMidQuiet == BatsExactMidQuiet \cup BatsContMidQuiet

PilotsAll   == {0, U, 4 * U, 16 * U, 32 * U, 64 * U, 128 * U}
PilotsSmall == {0, U, 16 * U, 128 * U}
NoisesAll   == {-64 * U, -2 * U, 0, 2 * U, 64 * U}      \* "-big, -small, 0, small, big"
NoisesSmall == {-64 * U, 0, 2 * U}
NoNoise == {0}
\* pilots of about 1e-6 of the capacity per period (with K = 32: multiples of 64 fine units; half a period of the
\* smallest delivers 7.8e-7 of the capacity): a positive pilot delivers a positive amount, however small
PilotsTiny == {0, 64, 128, 4 * U}

View == <<bat, lo, hi, eLo, eHi, dLo, dHi, pE, mE, dec, tab, base, nops, last>>   \* everything but the history
=============================================================================
