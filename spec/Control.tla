------------------------------ MODULE Control ------------------------------
(***************************************************************************)
(* The control skeleton of Simulator.run() - the part of AcnSim.tla that   *)
(* decides WHEN the scheduling algorithm is invoked - abstracted from       *)
(* stations, sessions and energies so that property C05's first sentence    *)
(*                                                                         *)
(*   "the algorithm is invoked in a period iff an event occurred in that   *)
(*    period or max_recompute periods have elapsed since its last          *)
(*    invocation (or it has never run), at most once per period and only   *)
(*    after that period's events have been applied"                        *)
(*                                                                         *)
(* can be decided for EVERY horizon, EVERY max_recompute and EVERY event   *)
(* pattern (unbounded integers), by an inductive invariant discharged with *)
(* Apalache (Init => IndInv, IndInv /\ Next => IndInv'), in addition to    *)
(* TLC's bounded exploration of AcnSim.tla.  The actions are the same       *)
(* critical sections of the code, with the same guards and the same        *)
(* updates of the two private flags:                                       *)
(*                                                                         *)
(*   Loop     while not queue.empty() or _resolve: pop the due events      *)
(*   Proc     _process_event: _resolve = True; Plugin/Unplug also set      *)
(*            _last_schedule_update = event.timestamp (Recompute does not) *)
(*   Decide   if _resolve or (max_recompute is not None and                *)
(*               (_last_schedule_update is None or                          *)
(*                iteration - _last_schedule_update >= max_recompute))     *)
(*   SchedReturn + Update   _last_schedule_update = iteration;             *)
(*                          _resolve = False                               *)
(*   SchedRaise / Resume    the exception leaves run(); run() is called    *)
(*                          again (the popped events are NOT popped again) *)
(*   Apply    iteration += 1                                               *)
(*                                                                         *)
(* The event queue is abstracted to what the control flow reads: whether   *)
(* events are due now (chosen by the environment at Loop; events are due   *)
(* at their own period because the loop visits every period while the      *)
(* queue is non-empty) and whether events remain afterwards.               *)
(* Conformance: this module is a projection of AcnSim.tla; the harness     *)
(* checks with TLC that every AcnSim behaviour projects onto a Control     *)
(* behaviour (same pc/t/resolve/lastUpd sequence), and AcnSim itself is    *)
(* bound to the code by replay and trace validation.                       *)
(***************************************************************************)
EXTENDS Integers

VARIABLES
    \* @type: Int;
    MR,         \* max_recompute; 0 stands for None (fixed when the simulator is built: action Start)
    \* @type: Str;
    pc,         \* "Setup" "Loop" "Proc" "Decide" "Sched" "Update" "Apply" "Stopped" "Done"
    \* @type: Int;
    t,          \* _iteration
    \* @type: Bool;
    resolve,    \* _resolve
    \* @type: Int;
    lastUpd,    \* _last_schedule_update, -1 = None
    \* @type: Bool;
    pend,       \* the queue is non-empty (after the pops made so far)
    \* @type: Bool;
    due,        \* events popped for this period and not yet processed
    \* ghosts: what the property talks about
    \* @type: Bool;
    evThis,     \* an event occurred in period t
    \* @type: Bool;
    invNow,     \* the scheduler has been invoked successfully in period t
    \* @type: Int;
    lastInv,    \* last period < t with a successful invocation (-1: never)
    \* @type: Bool;
    ok          \* in every completed period: invoked <=> required, at most once

MRDom == Nat      \* every max_recompute (TLC overrides this with a finite set)

vars == <<MR, pc, t, resolve, lastUpd, pend, due, evThis, invNow, lastInv, ok>>

Init ==
    /\ pc = "Setup" /\ MR = 0 /\ t = 0 /\ resolve = FALSE /\ lastUpd = -1
    /\ pend = FALSE /\ due = FALSE
    /\ evThis = FALSE /\ invNow = FALSE /\ lastInv = -1 /\ ok = TRUE

\* Simulator(network, scheduler, events, start, max_recompute = mr): the queue is filled (or not)
Start ==
    /\ pc = "Setup" /\ pc' = "Loop"
    /\ MR' \in MRDom
    /\ \E p \in BOOLEAN : pend' = p
    /\ UNCHANGED <<t, resolve, lastUpd, due, evThis, invNow, lastInv, ok>>

\* while not self.event_queue.empty() or self._resolve:  current_events = get_current_events(iteration)
Loop ==
    /\ pc = "Loop"
    /\ IF ~pend /\ ~resolve
       THEN /\ pc' = "Done" /\ UNCHANGED <<pend, due, evThis>>
       ELSE /\ pc' = "Proc"
            /\ IF pend
               THEN \* the environment decides whether events are due in this period and, if so,
                    \* whether any remain afterwards; if none is due the queue stays non-empty
                    \E d \in BOOLEAN : \E p \in BOOLEAN :
                        /\ due' = d
                        /\ pend' = IF d THEN p ELSE TRUE
                        /\ evThis' = (evThis \/ d)
               ELSE /\ due' = FALSE /\ UNCHANGED <<pend, evThis>>
    /\ UNCHANGED <<MR, t, resolve, lastUpd, invNow, lastInv, ok>>

\* for e in current_events: _process_event(e) - one event per step.  hard: the event is a Plugin or
\* an Unplug (they set _last_schedule_update; a Plugin also pushes its Unplug, so the queue may become
\* non-empty again); more: further events of the batch remain.
Proc ==
    /\ pc = "Proc" /\ due /\ pc' = "Proc"
    /\ resolve' = TRUE
    /\ \E hard \in BOOLEAN : \E p \in BOOLEAN : \E more \in BOOLEAN :
        /\ lastUpd' = IF hard THEN t ELSE lastUpd
        /\ pend' = (pend \/ (hard /\ p))
        /\ due' = more
    /\ UNCHANGED <<MR, t, evThis, invNow, lastInv, ok>>

ProcEnd ==
    /\ pc = "Proc" /\ ~due /\ pc' = "Decide"
    /\ UNCHANGED <<MR, t, resolve, lastUpd, pend, due, evThis, invNow, lastInv, ok>>

MustSchedule == resolve \/ (MR # 0 /\ (lastUpd = -1 \/ t - lastUpd >= MR))

Decide ==
    /\ pc = "Decide"
    /\ pc' = IF MustSchedule THEN "Sched" ELSE "Apply"
    /\ UNCHANGED <<MR, t, resolve, lastUpd, pend, due, evThis, invNow, lastInv, ok>>

\* scheduler.run() returns a schedule
SchedReturn ==
    /\ pc = "Sched" /\ pc' = "Update"
    /\ UNCHANGED <<MR, t, resolve, lastUpd, pend, due, evThis, invNow, lastInv, ok>>

\* _update_schedules(new_schedule) accepted; _last_schedule_update = iteration; _resolve = False.
\* This completes the invocation.
Update ==
    /\ pc = "Update" /\ pc' = "Apply"
    /\ lastUpd' = t /\ resolve' = FALSE
    /\ ok' = (ok /\ ~invNow)            \* at most once per period
    /\ invNow' = TRUE
    /\ UNCHANGED <<MR, t, pend, due, evThis, lastInv>>

\* scheduler.run() raises, or _update_schedules rejects the schedule: the exception leaves run()
\* with nothing changed
SchedRaise ==
    /\ pc = "Sched" /\ pc' = "Stopped"
    /\ UNCHANGED <<MR, t, resolve, lastUpd, pend, due, evThis, invNow, lastInv, ok>>
Reject ==
    /\ pc = "Update" /\ pc' = "Stopped"
    /\ UNCHANGED <<MR, t, resolve, lastUpd, pend, due, evThis, invNow, lastInv, ok>>

\* run() is called again (the popped events are not popped again)
Resume ==
    /\ pc = "Stopped" /\ pc' = "Loop"
    /\ UNCHANGED <<MR, t, resolve, lastUpd, pend, due, evThis, invNow, lastInv, ok>>

\* what the property requires of period t, from the events and the invocation history only
Required == evThis \/ (MR # 0 /\ (lastInv = -1 \/ t - lastInv >= MR))

\* pilots applied, rates stored; iteration += 1
Apply ==
    /\ pc = "Apply" /\ pc' = "Loop"
    /\ ok' = (ok /\ (invNow <=> Required))
    /\ lastInv' = IF invNow THEN t ELSE lastInv
    /\ t' = t + 1 /\ evThis' = FALSE /\ invNow' = FALSE
    /\ UNCHANGED <<MR, resolve, lastUpd, pend, due>>

Next == Start \/ Loop \/ Proc \/ ProcEnd \/ Decide \/ SchedReturn \/ Update \/ SchedRaise \/ Reject
        \/ Resume \/ Apply
Spec == Init /\ [][Next]_vars

-----------------------------------------------------------------------------
\* C05, first sentence
InvokeIff == ok
\* the run can only end when no recompute is pending (C09: an interrupted last period is resumed)
DoneClean == pc = "Done" => ~resolve /\ ~pend /\ ~due

\* The inductive invariant.  It says how the two private flags encode the history:
\*  - _last_schedule_update is the last period with a completed invocation, except that a
\*    Plugin/Unplug of the current period has already moved it to t (with _resolve set);
\*  - _resolve is set exactly when an event of this period still awaits its invocation.
PCs == {"Setup", "Loop", "Proc", "Decide", "Sched", "Update", "Apply", "Stopped", "Done"}
TypeOK ==
    /\ pc \in PCs
    /\ t >= 0 /\ MR >= 0
    /\ lastUpd >= -1 /\ lastUpd <= t
    /\ lastInv >= -1 /\ lastInv < t

IndInv ==
    /\ TypeOK
    /\ ok
    /\ pc = "Setup" => (t = 0 /\ ~resolve /\ lastUpd = -1 /\ ~pend /\ ~due /\ ~evThis /\ ~invNow /\ lastInv = -1)
    /\ due => (pc = "Proc" /\ evThis)
    \* a completed invocation is followed by Apply at once
    /\ invNow => (pc = "Apply" /\ ~resolve /\ lastUpd = t /\ Required)
    \* a recompute is pending <=> an event of this period has been processed and not yet scheduled for
    /\ resolve => (evThis /\ ~invNow)
    /\ (evThis /\ ~due /\ ~invNow) => resolve
    \* the flag's value
    /\ ~invNow => (lastUpd = lastInv \/ (lastUpd = t /\ resolve))
    \* position in the period
    /\ (pc = "Apply" /\ ~invNow) => (~resolve /\ ~Required /\ ~MustSchedule)
    /\ pc \in {"Sched", "Update", "Stopped"} => (MustSchedule /\ ~invNow)
    /\ pc = "Done" => (~resolve /\ ~pend /\ ~invNow)

\* Apalache: the inductive step starts in ANY state satisfying IndInv
IndInit ==
    /\ pc \in PCs /\ MR \in Int /\ t \in Int /\ resolve \in BOOLEAN /\ lastUpd \in Int
    /\ pend \in BOOLEAN /\ due \in BOOLEAN /\ evThis \in BOOLEAN /\ invNow \in BOOLEAN
    /\ lastInv \in Int /\ ok \in BOOLEAN
    /\ IndInv
=============================================================================
