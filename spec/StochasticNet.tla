--------------------------- MODULE StochasticNet ---------------------------
(***************************************************************************)
(* Non-deterministic space assignment                                      *)
(* (acnportal/contrib/acnsim/network/stochastic_network.py:                *)
(* StochasticNetwork) as it is driven by Simulator.run                      *)
(* (acnportal/acnsim/simulator.py).  The simulator part mirrors AcnSim.tla  *)
(* (Loop / Proc / Apply), simplified to what decides property C19:          *)
(*                                                                         *)
(*   Loop            the while-test and get_current_events(iteration)      *)
(*   PluginStoch     _process_event(Plugin): network.plugin(ev) when a      *)
(*                   station is free - ANY free station (random.choice)    *)
(*   PluginWait      ... when none is free: append to waiting_queue         *)
(*   UnplugWaiting   _process_event(Unplug) of a session still waiting:     *)
(*                   dropped from the queue, counted as never charged       *)
(*   UnplugConnected ... of a connected session: the station is vacated and *)
(*                   the head of the queue (if any) is admitted into it     *)
(*   UnplugGone      ... of a session that already left early: no effect    *)
(*   ProcEnd         all events of the period are processed                 *)
(*   Apply           scheduler + update_pilots: every connected EV charges  *)
(*   EarlyDeparture  post_charging_update (early_departure on): a fully     *)
(*                   charged EV leaves while somebody waits; head admitted  *)
(*   PostEnd         post_charging_update returns; iteration += 1           *)
(*                                                                         *)
(* Which event of several with equal (timestamp, precedence) is processed   *)
(* first is not determined by the code (heap order): the spec explores      *)
(* every order.  Which free station an arriving EV gets is random: the spec *)
(* explores every choice.                                                   *)
(*                                                                         *)
(* Units: time in periods, T = period length in minutes, pilots in A, V in  *)
(* volt, energies in W*min (1 kWh = 60000 W*min; "fully charged" means      *)
(* remaining demand <= 1e-3 kWh = 60 W*min).                                *)
(***************************************************************************)
EXTENDS Integers, Sequences, FiniteSets, TLC, Json

CONSTANTS
    NS,         \* number of stations, ids 1..NS (registration order)
    V, T,       \* station voltage [V], period [min]
    Pilots,     \* pilots [A] a scripted scheduler may apply to all stations in a period;
                \*   the largest one is the stations' max_rate
    Slack,      \* rounding slack [W*min] of energies (0 here; 1 for logged floats in traces)
    MaxSess,    \* scenario: at most this many sessions
    MinSess,    \*   and at least this many (steers -simulate towards crowded scenarios)
    MaxArr,     \*   arrivals in 0..MaxArr
    MaxDur,     \*   stay durations in 1..MaxDur
    ReqSet,     \*   requested energies [W*min]
    EarlySet,   \*   values of early_departure a scenario may use
    PostOrder,  \* "station": fully charged EVs leave early in station registration order (what
                \*   the code does, used when behaviours are generated for replay);
                \* "any": in any order (all properties hold for any order; used for checking
                \*   and for validating traces of the code)
    Rec         \* BOOLEAN: keep the history variable (behaviour generation)

ASSUME NS \in Nat \ {0} /\ T \in Nat \ {0} /\ Pilots \subseteq Nat /\ Pilots # {}

VARIABLES
    pc,         \* Setup Loop Proc Apply Post Done Emitted: position in Simulator.run
    sess,       \* scenario: sequence of [arr, dep, req]; session ids are 1..Len(sess)
    early,      \* scenario: StochasticNetwork.early_departure
    queue,      \* EventQueue: set of pending [kind, ts, id]
    t,          \* Simulator._iteration
    batch,      \* events popped for this period, not yet processed
    occ,        \* occ[s] = session connected at station s (EVSE._ev), 0 = vacant
    waiting,    \* StochasticNetwork.waiting_queue (keys in order)
    evE,        \* EV._energy_delivered per session
    swaps,      \* StochasticNetwork.swaps: admissions from the queue
    never,      \* StochasticNetwork.never_charged
    earlyN,     \* StochasticNetwork.early_unplug
    postTodo,   \* post_charging_update: fully charged EVs still to be looked at
    \* ---- ghost variables (no counterpart in the code; the harness derives `gone`) ----
    gone,       \* sessions that have departed
    arrSeq,     \* sessions in the order their Plugin events were processed
    everConn,   \* sessions that have ever been connected to a station
    everWaited, \* sessions that have ever been in the waiting queue
    goneAt,     \* period in which a session departed (-1 = not yet)
    hist        \* observation log for replay

scn   == <<sess, early>>
net   == <<occ, waiting, swaps, never, earlyN>>
ghost == <<gone, arrSeq, everConn, everWaited, goneAt>>
vars  == <<pc, scn, queue, t, batch, net, evE, postTodo, ghost, hist>>

-----------------------------------------------------------------------------
Min2(a, b) == IF a <= b THEN a ELSE b
Stations == 1..NS
N == Len(sess)
FullThr == 60                       \* 1e-3 kWh
PMax == CHOOSE p \in Pilots : \A q \in Pilots : q <= p

Prec(kind) == IF kind = "Unplug" THEN 0 ELSE 10
EKey(e) == e.ts * 100 + Prec(e.kind)

Range(q) == {q[k] : k \in DOMAIN q}
Free == {s \in Stations : occ[s] = 0}                       \* available_evses()
Connected(i) == \E s \in Stations : occ[s] = i
StationOf(i) == CHOOSE s \in Stations : occ[s] = i
InQueue(i) == i \in Range(waiting)
Remove(q, i) == SelectSeq(q, LAMBDA x : x # i)
Full(E, i) == sess[i].req - E[i] <= FullThr                 \* EV.fully_charged

PluginEv(i) == [kind |-> "Plugin", ts |-> sess[i].arr, id |-> i]
UnplugEv(i) == [kind |-> "Unplug", ts |-> sess[i].dep, id |-> i]
\* e may be processed next: nothing in the batch precedes it
Next1(e) == e \in batch /\ \A f \in batch : EKey(e) <= EKey(f)

Log(r) == IF Rec THEN Append(hist, r) ELSE hist
\* what the harness observes of the network after a call (post-state)
Obs == [occ |-> occ', w |-> waiting', swaps |-> swaps', never |-> never', early |-> earlyN']

\* state of a network/simulator that has just been built around the scenario
Blank ==
    /\ t = 0 /\ batch = {}
    /\ occ = [s \in Stations |-> 0] /\ waiting = <<>>
    /\ evE = [i \in 1..MaxSess |-> 0]
    /\ swaps = 0 /\ never = 0 /\ earlyN = 0 /\ postTodo = {}
    /\ gone = {} /\ arrSeq = <<>> /\ everConn = {} /\ everWaited = {} /\ goneAt = [i \in 1..MaxSess |-> -1]

Init ==
    /\ pc = "Setup" /\ sess = <<>> /\ early = FALSE /\ queue = {} /\ Blank /\ hist = <<>>

\* ---- scenario construction (as in AcnSim.tla) -------------------------------
SessVals == [arr : 0..MaxArr, dur : 1..MaxDur, req : ReqSet]
SKey(v) == (v.arr * 100 + (v.dep - v.arr)) * 1000000 + v.req

AddSession(v) ==
    /\ pc = "Setup" /\ Len(sess) < MaxSess
    /\ LET new == [arr |-> v.arr, dep |-> v.arr + v.dur, req |-> v.req]
       IN /\ Len(sess) > 0 => SKey(sess[Len(sess)]) <= SKey(new)    \* canonical order; twins allowed
          /\ sess' = Append(sess, new)
    /\ UNCHANGED <<pc, early, queue, t, batch, net, evE, postTodo, ghost, hist>>

Start(e) ==
    /\ pc = "Setup" /\ Len(sess) >= MinSess /\ Len(sess) > 0 /\ e \in EarlySet
    /\ early' = e
    /\ queue' = {PluginEv(i) : i \in 1..N}
    /\ pc' = "Loop"
    /\ hist' = Log([a |-> "start", sess |-> sess, early |-> e, ns |-> NS, v |-> V, T |-> T,
                    pmax |-> PMax])
    /\ UNCHANGED <<sess, t, batch, net, evE, postTodo, ghost>>

\* ---- Simulator.run ---------------------------------------------------------
\* while not event_queue.empty(): current_events = get_current_events(iteration)
\* (_resolve is always False at the loop test here: every period with an event also
\*  runs the scheduler, which clears it.)
Loop ==
    /\ pc = "Loop"
    /\ IF queue = {}
       THEN /\ pc' = "Done" /\ UNCHANGED <<batch, queue>>
       ELSE LET due == {e \in queue : e.ts <= t}
            IN /\ batch' = due /\ queue' = queue \ due /\ pc' = "Proc"
    /\ UNCHANGED <<scn, t, net, evE, postTodo, ghost, hist>>

\* _process_event(Plugin): network.plugin(ev) with a free station: random.choice(free) = s;
\* the simulator then schedules the Unplug event at ev.departure.
PluginStoch(i, s) ==
    /\ pc = "Proc" /\ i \in 1..N /\ Next1(PluginEv(i))
    /\ s \in Free
    /\ occ' = [occ EXCEPT ![s] = i]
    /\ everConn' = everConn \cup {i}
    /\ arrSeq' = Append(arrSeq, i)
    /\ batch' = batch \ {PluginEv(i)} /\ queue' = queue \cup {UnplugEv(i)}
    /\ UNCHANGED <<waiting, swaps, never, earlyN>>
    /\ hist' = Log([a |-> "plugin", id |-> i, st |-> s, t |-> t, free |-> Free] @@ Obs)
    /\ UNCHANGED <<pc, scn, t, evE, postTodo, gone, everWaited, goneAt>>

\* ... with no free station: the EV joins the end of the waiting queue (station id None)
PluginWait(i) ==
    /\ pc = "Proc" /\ i \in 1..N /\ Next1(PluginEv(i))
    /\ Free = {}
    /\ waiting' = Append(waiting, i)
    /\ everWaited' = everWaited \cup {i}
    /\ arrSeq' = Append(arrSeq, i)
    /\ batch' = batch \ {PluginEv(i)} /\ queue' = queue \cup {UnplugEv(i)}
    /\ UNCHANGED <<occ, swaps, never, earlyN>>
    /\ hist' = Log([a |-> "plugin", id |-> i, st |-> 0, t |-> t, free |-> {}] @@ Obs)
    /\ UNCHANGED <<pc, scn, t, evE, postTodo, gone, everConn, goneAt>>

\* _process_event(Unplug) -> network.unplug(ev.station_id, ev.session_id), three cases.
\* (1) the session is still waiting: it leaves from the queue and is counted as never charged
UnplugWaiting(i) ==
    /\ pc = "Proc" /\ i \in 1..N /\ Next1(UnplugEv(i))
    /\ InQueue(i)
    /\ waiting' = Remove(waiting, i)
    /\ never' = never + 1
    /\ gone' = gone \cup {i} /\ goneAt' = [goneAt EXCEPT ![i] = t]
    /\ batch' = batch \ {UnplugEv(i)}
    /\ UNCHANGED <<occ, swaps, earlyN>>
    /\ hist' = Log([a |-> "unplug", id |-> i, case |-> "waiting", t |-> t] @@ Obs)
    /\ UNCHANGED <<pc, scn, queue, t, evE, postTodo, arrSeq, everConn, everWaited>>

\* Vacating station s: the head of the queue, if any, takes exactly that station.
Vacate(s) ==
    IF waiting = <<>>
    THEN /\ occ' = [occ EXCEPT ![s] = 0]
         /\ UNCHANGED <<waiting, swaps, everConn>>
    ELSE /\ occ' = [occ EXCEPT ![s] = Head(waiting)]
         /\ waiting' = Tail(waiting)
         /\ swaps' = swaps + 1
         /\ everConn' = everConn \cup {Head(waiting)}

\* (2) the session is connected: its station is vacated (and handed to the head of the queue)
UnplugConnected(i) ==
    /\ pc = "Proc" /\ i \in 1..N /\ Next1(UnplugEv(i))
    /\ Connected(i)
    /\ Vacate(StationOf(i))
    /\ gone' = gone \cup {i} /\ goneAt' = [goneAt EXCEPT ![i] = t]
    /\ batch' = batch \ {UnplugEv(i)}
    /\ UNCHANGED <<never, earlyN>>
    /\ hist' = Log([a |-> "unplug", id |-> i, case |-> "connected", t |-> t] @@ Obs)
    /\ UNCHANGED <<pc, scn, queue, t, evE, postTodo, arrSeq, everWaited>>

\* (3) the session left early: the stale Unplug event changes nothing - in particular it
\*     does not disturb whoever now uses the station the session once had
UnplugGone(i) ==
    /\ pc = "Proc" /\ i \in 1..N /\ Next1(UnplugEv(i))
    /\ i \in gone
    /\ batch' = batch \ {UnplugEv(i)}
    /\ UNCHANGED net
    /\ hist' = Log([a |-> "unplug", id |-> i, case |-> "gone", t |-> t] @@ Obs)
    /\ UNCHANGED <<pc, scn, queue, t, evE, postTodo, ghost>>

ProcEnd ==
    /\ pc = "Proc" /\ batch = {} /\ pc' = "Apply"
    /\ UNCHANGED <<scn, queue, t, batch, net, evE, postTodo, ghost, hist>>

\* scheduler.run + _update_schedules + network.update_pilots: every connected EV charges.
\* EE = the cumulative energies afterwards.  Whatever the scheduler and the battery do, a
\* period delivers between 0 and PMax*V*T to a connected EV and nothing to anybody else.
\* post_charging_update then starts: with early_departure on it lists the fully charged EVs.
ApplyWith(EE) ==
    /\ pc = "Apply"
    /\ \A i \in 1..MaxSess :
          IF i <= N /\ Connected(i)
          THEN evE[i] <= EE[i] /\ EE[i] <= evE[i] + PMax * V * T + Slack
          ELSE EE[i] = evE[i]
    /\ evE' = EE
    /\ postTodo' = IF early THEN {i \in 1..N : Connected(i) /\ Full(EE, i)} ELSE {}
    /\ pc' = "Post"
    /\ UNCHANGED <<scn, queue, t, batch, net, ghost>>

\* scripted scheduler "pilot p on every station", ideal batteries with capacity = request
IdealE(p) == [i \in 1..MaxSess |->
                 IF i <= N /\ Connected(i)
                 THEN evE[i] + Min2(p * V * T, sess[i].req - evE[i]) ELSE evE[i]]
Apply(p) ==
    /\ p \in Pilots
    /\ ApplyWith(IdealE(p))
    /\ hist' = Log([a |-> "apply", t |-> t, p |-> p, evE |-> evE', todo |-> postTodo'])

\* post_charging_update: for ev in fully_charged_evs: if len(waiting_queue) > 0: unplug(ev)
FirstTodo(i) == \A j \in postTodo : StationOf(i) <= StationOf(j)
EarlyDeparture(i) ==
    /\ pc = "Post" /\ i \in postTodo
    /\ PostOrder = "station" => FirstTodo(i)
    /\ waiting # <<>>
    /\ Vacate(StationOf(i))
    /\ earlyN' = earlyN + 1
    /\ gone' = gone \cup {i} /\ goneAt' = [goneAt EXCEPT ![i] = t]
    /\ postTodo' = postTodo \ {i}
    /\ UNCHANGED never
    /\ hist' = Log([a |-> "early", id |-> i, t |-> t] @@ Obs)
    /\ UNCHANGED <<pc, scn, queue, t, batch, evE, arrSeq, everWaited>>

\* nothing (more) to do in post_charging_update; iteration += 1
PostEnd ==
    /\ pc = "Post" /\ (postTodo = {} \/ waiting = <<>>)
    /\ postTodo' = {} /\ t' = t + 1 /\ pc' = "Loop"
    /\ UNCHANGED net
    /\ hist' = Log([a |-> "post", t |-> t] @@ Obs)
    /\ UNCHANGED <<scn, queue, batch, evE, ghost>>

\* The behaviour is complete: hand it to the replay harness.
Finish ==
    /\ pc = "Done"
    /\ IF Rec
       THEN PrintT(<<"BHV", ToJson(Append(hist,
               [a |-> "done", t |-> t, occ |-> occ, w |-> waiting, swaps |-> swaps, never |-> never,
                early |-> earlyN, evE |-> evE, gone |-> gone, order |-> arrSeq]))>>)
       ELSE TRUE
    /\ pc' = "Emitted"
    /\ UNCHANGED <<scn, queue, t, batch, net, evE, postTodo, ghost, hist>>

Terminated == pc = "Emitted" /\ UNCHANGED vars

\* named so that -coverage reports them
DoAddSession == \E v \in SessVals : AddSession(v)
DoStart == \E e \in EarlySet : Start(e)
DoPluginStoch == \E i \in 1..N, s \in Stations : PluginStoch(i, s)
DoPluginWait == \E i \in 1..N : PluginWait(i)
DoUnplugWaiting == \E i \in 1..N : UnplugWaiting(i)
DoUnplugConnected == \E i \in 1..N : UnplugConnected(i)
DoUnplugGone == \E i \in 1..N : UnplugGone(i)
DoApply == \E p \in Pilots : Apply(p)
DoEarlyDeparture == \E i \in 1..N : EarlyDeparture(i)

Step ==
    \/ DoAddSession \/ DoStart
    \/ Loop
    \/ DoPluginStoch \/ DoPluginWait
    \/ DoUnplugWaiting \/ DoUnplugConnected \/ DoUnplugGone
    \/ ProcEnd \/ DoApply \/ DoEarlyDeparture \/ PostEnd \/ Finish
Next == Step \/ Terminated

Spec == Init /\ [][Next]_vars
FairSpec == Spec /\ WF_vars(Step)        \* the simulator keeps executing

-----------------------------------------------------------------------------
\* ============================ properties (C19) ==============================
Arrived == Range(arrSeq)

TypeOK ==
    /\ pc \in {"Setup", "Loop", "Proc", "Apply", "Post", "Done", "Emitted"}
    /\ \A s \in Stations : occ[s] \in 0..N
    /\ Range(waiting) \subseteq 1..N /\ gone \subseteq 1..N
    /\ swaps \in Nat /\ never \in Nat /\ earlyN \in Nat

\* number of places session i is in: stations + positions in the queue + "departed"
Places(i) == Cardinality({s \in Stations : occ[s] = i})
             + Cardinality({k \in DOMAIN waiting : waiting[k] = i})
             + (IF i \in gone THEN 1 ELSE 0)
\* each arrived EV is in exactly one place; an EV that has not arrived is nowhere
ExactlyOnePlace == \A i \in 1..N : Places(i) = (IF i \in Arrived THEN 1 ELSE 0)
\* a station holds one EV (occ is a function), and it is a session of the scenario that is
\* present: arrived, not departed, not also waiting
NoTwoInOneStation ==
    \A s \in Stations : occ[s] # 0 =>
        /\ occ[s] \in Arrived /\ occ[s] \notin gone /\ ~InQueue(occ[s])
        /\ \A r \in Stations : r # s => occ[r] # occ[s]
\* nobody waits while a station is free
NoWaitWhileFree == waiting # <<>> => Free = {}
\* the queue is ordered by arrival (order in which the Plugin events were handled)
Pos(i) == CHOOSE k \in DOMAIN arrSeq : arrSeq[k] = i
QueueInArrivalOrder ==
    \A a, b \in DOMAIN waiting : a < b => Pos(waiting[a]) < Pos(waiting[b])
\* first come first served: whoever moves from the queue into a station was the head of the
\* queue (hence, by QueueInArrivalOrder, the longest-waiting EV), the others keep their order,
\* and new arrivals queue up at the end
FIFOStep ==
    /\ \A i \in Range(waiting) :
          (\E s \in Stations : occ'[s] = i) => i = Head(waiting) /\ waiting' = Tail(waiting)
    /\ \A a, b \in DOMAIN waiting : \A c, d \in DOMAIN waiting' :
          (a < b /\ waiting[a] = waiting'[d] /\ waiting[b] = waiting'[c]) => d < c
    /\ \A c, d \in DOMAIN waiting' :
          (waiting'[c] \notin Range(waiting) /\ waiting'[d] \in Range(waiting)) => d < c
\* whenever a station is vacated while somebody waits, the head of the queue gets that station
AdmitStep ==
    \A s \in Stations : (occ[s] # 0 /\ occ'[s] # occ[s] /\ waiting # <<>>) => occ'[s] = Head(waiting)
FIFOAdmission == [][FIFOStep /\ AdmitStep]_vars
\* never_charged = sessions that departed without ever having had a station, i.e. whose Unplug
\* event found them still waiting.  (Corner case, decided as the sequential event semantics of
\* the simulator decides it: if A and B depart in the same period, A connected and B at the head of
\* the queue, and A's Unplug happens to be handled first, B is admitted for an instant, then
\* unplugged - that counts as a swap, not as never charged.  TLC explores both orders.)
NeverChargedCounted == never = Cardinality(gone \ everConn)
\* swaps = admissions from the queue; early_unplug = departures before the scheduled one
SwapsCounted == swaps = Cardinality(everWaited \cap everConn)
EarlyCounted == earlyN = Cardinality({i \in gone : goneAt[i] < sess[i].dep})
NoEarlyWhenOff == ~early => earlyN = 0
\* nobody overstays: a session not yet departed is before its departure period when charging
NoOverstay == pc \in {"Apply", "Post"} => \A i \in Arrived \ gone : t < sess[i].dep
\* a departed session leaves at its departure period, or earlier if early departure is on
DepartureTime == \A i \in gone : goneAt[i] = sess[i].dep \/ (early /\ goneAt[i] < sess[i].dep /\ goneAt[i] >= sess[i].arr)
\* after post_charging_update nobody waits behind a satisfied EV
\* (a session that asks for nothing is satisfied the moment it is admitted: if that happens inside post_charging_update,
\* whose list of satisfied EVs was made before, it stays for one period)
EarlyEffective ==
    (pc = "Loop" /\ early /\ waiting # <<>>) =>
        \A s \in Stations : occ[s] # 0 => (~Full(evE, occ[s]) \/ sess[occ[s]].req <= 60)
\* every session is gone by the end of the run
AllGoneAtEnd ==
    pc \in {"Done", "Emitted"} =>
        /\ gone = 1..N /\ Arrived = 1..N
        /\ \A s \in Stations : occ[s] = 0
        /\ waiting = <<>> /\ queue = {} /\ batch = {}
Termination == <>(pc = "Emitted")
=============================================================================
