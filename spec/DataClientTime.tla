--------------------------- MODULE DataClientTime ---------------------------
(***************************************************************************)
(* Time conversion of the ACN-Data client (acnportal/acndata/utils.py:     *)
(* http_date, parse_http_date, parse_dates) as exact integer arithmetic.   *)
(* This module has no variables: it is the library of operators and the    *)
(* theorems about them.  DataClientTimeCases.tla evaluates the theorems    *)
(* on a lattice of (zone, instant) cases and on a day-by-day walk through   *)
(* the calendar; DataClient.tla uses the operators for the documents the   *)
(* server sends and the time window of get_sessions_by_time.               *)
(*                                                                         *)
(* Units: an INSTANT is an integer number of seconds since                 *)
(* 1970-01-01T00:00:00Z (TLC integers are 32 bit: instants are kept inside *)
(* 1971..2037, max 2 145 916 799 + 19 800 < 2^31).  A DAY NUMBER is days   *)
(* since 1970-01-01.  An OFFSET is seconds east of UTC.  A TEXT is an      *)
(* RFC-1123 date string as the API sends it: "Sun, 06 Nov 1994 08:49:37    *)
(* GMT" (29 characters, English names, always GMT).                        *)
(*                                                                         *)
(* Zones modelled (the rules are transcriptions of the IANA tz database as *)
(* pytz ships it; the conformance step compares them with pytz):            *)
(*   UTC                  fixed 0                                          *)
(*   Asia/Kolkata         fixed +5:30                                      *)
(*   America/Los_Angeles  -8:00, US rules: 1987-2006 first Sunday of April *)
(*                        .. last Sunday of October; 2007- second Sunday   *)
(*                        of March .. first Sunday of November; switch at  *)
(*                        02:00 local wall-clock time                      *)
(*   Europe/London        0:00, EU rules (1996-): last Sunday of March ..  *)
(*                        last Sunday of October; switch at 01:00 UTC      *)
(***************************************************************************)
EXTENDS Integers, Sequences, TLC

DAY == 86400

-----------------------------------------------------------------------------
(* Proleptic Gregorian calendar *)

IsLeap(y) == (y % 4 = 0 /\ y % 100 # 0) \/ y % 400 = 0

DaysInMonth(y, m) ==
    CASE m \in {1, 3, 5, 7, 8, 10, 12} -> 31
      [] m \in {4, 6, 9, 11} -> 30
      [] m = 2 -> IF IsLeap(y) THEN 29 ELSE 28

\* civil date -> day number, closed form ("days_from_civil": years start in March so that the
\* leap day is the last day of the year; an era is 400 years = 146097 days)
DaysFromCivil(y, m, d) ==
    LET yy == IF m <= 2 THEN y - 1 ELSE y
        era == yy \div 400
        yoe == yy - era * 400
        mp == IF m > 2 THEN m - 3 ELSE m + 9
        doy == (153 * mp + 2) \div 5 + d - 1
        doe == yoe * 365 + yoe \div 4 - yoe \div 100 + doy
    IN era * 146097 + doe - 719468

\* day number -> civil date, closed form (inverse of the above)
CivilFromDays(n) ==
    LET z == n + 719468
        era == z \div 146097
        doe == z - era * 146097
        yoe == (doe - doe \div 1460 + doe \div 36524 - doe \div 146096) \div 365
        doy == doe - (365 * yoe + yoe \div 4 - yoe \div 100)
        mp == (5 * doy + 2) \div 153
        d == doy - (153 * mp + 2) \div 5 + 1
        m == IF mp < 10 THEN mp + 3 ELSE mp - 9
        y == yoe + era * 400
    IN [y |-> IF m <= 2 THEN y + 1 ELSE y, m |-> m, d |-> d]

\* An independent definition by counting (used only to cross-check the closed forms):
\* whole years since 1970, leap days among them, whole months of the year, days.
LeapsBefore(y) == (y - 1) \div 4 - (y - 1) \div 100 + (y - 1) \div 400     \* leap years in 1..y-1
RECURSIVE DaysBeforeMonth(_, _)
DaysBeforeMonth(y, m) == IF m = 1 THEN 0 ELSE DaysBeforeMonth(y, m - 1) + DaysInMonth(y, m - 1)
DaysFromCivilByCounting(y, m, d) ==
    365 * (y - 1970) + (LeapsBefore(y) - LeapsBefore(1970)) + DaysBeforeMonth(y, m) + d - 1

\* weekday, 0 = Sunday .. 6 = Saturday; 1970-01-01 was a Thursday
Weekday(n) == (n + 4) % 7
\* independent formula (Sakamoto) for the cross-check
SakamotoT == <<0, 3, 2, 5, 0, 3, 5, 1, 4, 6, 2, 4>>
WeekdayOfCivil(y, m, d) ==
    LET yy == IF m < 3 THEN y - 1 ELSE y
    IN (yy + yy \div 4 - yy \div 100 + yy \div 400 + SakamotoT[m] + d) % 7

\* tz-database day rules: "Sun>=k" and "lastSun" of a month, as day numbers
SundayOnOrAfter(y, m, k) == LET n == DaysFromCivil(y, m, k) IN n + ((7 - Weekday(n)) % 7)
LastSunday(y, m) == SundayOnOrAfter(y, m, DaysInMonth(y, m) - 6)

-----------------------------------------------------------------------------
(* Zones *)

ZoneNames == {"UTC", "America/Los_Angeles", "Europe/London", "Asia/Kolkata"}

\* std: standard offset (s); rule: which daylight-saving rules apply; from: first year for which
\* the rules below are the zone's rules (cases before it are outside the model)
Zone(z) ==
    CASE z = "UTC"                 -> [std |-> 0,      rule |-> "none", from |-> 1971]
      [] z = "Asia/Kolkata"        -> [std |-> 19800,  rule |-> "none", from |-> 1971]
      [] z = "America/Los_Angeles" -> [std |-> -28800, rule |-> "US",   from |-> 1987]
      [] z = "Europe/London"       -> [std |-> 0,      rule |-> "EU",   from |-> 1996]

YearOf(t) == CivilFromDays(t \div DAY).y         \* UTC year; no transition is within a day of New Year

\* The instant at which daylight saving time starts / ends in year y.
\* US: at 02:00 wall clock, i.e. 02:00 standard time in spring and 02:00 daylight time in autumn.
\* EU: at 01:00 UTC in all member zones.
DstStart(z, y) ==
    LET Z == Zone(z) IN
    CASE Z.rule = "US" -> (IF y >= 2007 THEN SundayOnOrAfter(y, 3, 8) ELSE SundayOnOrAfter(y, 4, 1)) * DAY
                          + 7200 - Z.std
      [] Z.rule = "EU" -> LastSunday(y, 3) * DAY + 3600
DstEnd(z, y) ==
    LET Z == Zone(z) IN
    CASE Z.rule = "US" -> (IF y >= 2007 THEN SundayOnOrAfter(y, 11, 1) ELSE LastSunday(y, 10)) * DAY
                          + 7200 - (Z.std + 3600)
      [] Z.rule = "EU" -> LastSunday(y, 10) * DAY + 3600

IsDst(z, t) == Zone(z).rule # "none" /\ DstStart(z, YearOf(t)) <= t /\ t < DstEnd(z, YearOf(t))
Offset(z, t) == Zone(z).std + (IF IsDst(z, t) THEN 3600 ELSE 0)

InModel(z, t) == t >= 0 /\ YearOf(t) >= Zone(z).from /\ YearOf(t) <= 2037

\* Wall-clock reading in zone z at instant t: what `dt.astimezone(tz)` must show.
\* lsec is the reading as seconds (local day number * 86400 + second of day).
LocalSeconds(z, t) == t + Offset(z, t)
ToLocal(z, t) ==
    LET off == Offset(z, t)
        ls == t + off
        c == CivilFromDays(ls \div DAY)
        sod == ls % DAY
    IN [y |-> c.y, m |-> c.m, d |-> c.d, h |-> sod \div 3600, mi |-> (sod % 3600) \div 60, s |-> sod % 60,
        off |-> off, wd |-> Weekday(ls \div DAY), dst |-> IF IsDst(z, t) THEN 1 ELSE 0]

\* The instant an aware datetime (civil fields + its utcoffset) denotes.
InstantOf(L) == DaysFromCivil(L.y, L.m, L.d) * DAY + L.h * 3600 + L.mi * 60 + L.s - L.off

-----------------------------------------------------------------------------
(* RFC-1123 text *)

DayNames == <<"Sun", "Mon", "Tue", "Wed", "Thu", "Fri", "Sat">>
MonNames == <<"Jan", "Feb", "Mar", "Apr", "May", "Jun", "Jul", "Aug", "Sep", "Oct", "Nov", "Dec">>

Pad2(n) == IF n < 10 THEN "0" \o ToString(n) ELSE ToString(n)
Pad4(n) == IF n < 10 THEN "000" \o ToString(n) ELSE IF n < 100 THEN "00" \o ToString(n)
           ELSE IF n < 1000 THEN "0" \o ToString(n) ELSE ToString(n)

\* http_date(dt) == dt.astimezone(utc).strftime("%a, %d %b %Y %H:%M:%S GMT"): depends on the instant only
Format(t) ==
    LET n == t \div DAY
        c == CivilFromDays(n)
        sod == t % DAY
    IN DayNames[Weekday(n) + 1] \o ", " \o Pad2(c.d) \o " " \o MonNames[c.m] \o " " \o Pad4(c.y) \o " "
       \o Pad2(sod \div 3600) \o ":" \o Pad2((sod % 3600) \div 60) \o ":" \o Pad2(sod % 60) \o " GMT"

\* formatting an aware datetime given by its local fields: the same text as for its instant
FormatLocal(L) == Format(InstantOf(L))

Char(s, i) == SubSeq(s, i, i)
IsDigit(c) == \E k \in 0..9 : ToString(k) = c
Digit(c) == CHOOSE k \in 0..9 : ToString(k) = c
Num2(s, i) == 10 * Digit(Char(s, i)) + Digit(Char(s, i + 1))
Num4(s, i) == 100 * Num2(s, i) + Num2(s, i + 2)

\* column layout:  1-3 day name | 4-5 ", " | 6-7 dd | 8 " " | 9-11 month | 12 " " | 13-16 yyyy | 17 " " |
\*                 18-19 HH | 20 ":" | 21-22 MM | 23 ":" | 24-25 SS | 26-29 " GMT"
WellFormed(s) ==
    /\ Len(s) = 29
    /\ \E i \in 1..7 : SubSeq(s, 1, 3) = DayNames[i]
    /\ SubSeq(s, 4, 5) = ", " /\ Char(s, 8) = " " /\ Char(s, 12) = " " /\ Char(s, 17) = " "
    /\ Char(s, 20) = ":" /\ Char(s, 23) = ":" /\ SubSeq(s, 26, 29) = " GMT"
    /\ \A i \in {6, 7, 13, 14, 15, 16, 18, 19, 21, 22, 24, 25} : IsDigit(Char(s, i))
    /\ \E i \in 1..12 : SubSeq(s, 9, 11) = MonNames[i]

\* strptime(ds, "%a, %d %b %Y %H:%M:%S GMT") read as UTC; like strptime, the day name is not used
ParseFields(s) ==
    [y |-> Num4(s, 13), m |-> CHOOSE i \in 1..12 : SubSeq(s, 9, 11) = MonNames[i], d |-> Num2(s, 6),
     h |-> Num2(s, 18), mi |-> Num2(s, 21), s |-> Num2(s, 24), off |-> 0]
Parse(s) == InstantOf(ParseFields(s))

\* RFC 1123 (via RFC 822) writes the day of the month as 1*2DIGIT: "Wed, 1 May 2019 15:00:00 GMT" is the same date
\* as "Wed, 01 May 2019 15:00:00 GMT" (strptime's %d reads both).  Compact(s) drops the leading zero of the day,
\* Normalise puts it back; ParseAny reads either form.
Compact(s) == IF Char(s, 6) = "0" THEN SubSeq(s, 1, 5) \o SubSeq(s, 7, Len(s)) ELSE s
Normalise(s) == IF Len(s) = 28 /\ IsDigit(Char(s, 6)) /\ Char(s, 7) = " "
                THEN SubSeq(s, 1, 5) \o "0" \o SubSeq(s, 6, 28) ELSE s
ParseAny(s) == Parse(Normalise(s))

\* parse_http_date(ds, tz): the aware datetime in zone z for the text
ParseIn(s, z) == ToLocal(z, Parse(s))

-----------------------------------------------------------------------------
(* Theorems (C20, second sentence), stated per case; TLC evaluates them on every lattice case. *)

\* the text is a well-formed RFC-1123 date and carries the right day name
ThTextWellFormed(t) ==
    /\ WellFormed(Format(t))
    /\ SubSeq(Format(t), 1, 3) = DayNames[LET f == ParseFields(Format(t)) IN WeekdayOfCivil(f.y, f.m, f.d) + 1]

\* parse o format is the identity on instants (whole seconds)
ThParseFormat(t) == Parse(Format(t)) = t

\* format o parse is the identity on texts
ThFormatParse(t) == LET s == Format(t) IN Format(Parse(s)) = s

\* the aware datetime obtained for a text denotes the same instant, in every zone, and formatting it
\* for a query gives the text back
ThSameInstant(z, t) ==
    LET L == ParseIn(Format(t), z) IN InstantOf(L) = t /\ FormatLocal(L) = Format(t)

\* its fields are a valid wall-clock reading and its offset is one of the zone's two offsets
ThFieldsValid(z, t) ==
    LET L == ToLocal(z, t) IN
    /\ L.m \in 1..12 /\ L.d \in 1..DaysInMonth(L.y, L.m)
    /\ L.h \in 0..23 /\ L.mi \in 0..59 /\ L.s \in 0..59
    /\ L.off \in {Zone(z).std, Zone(z).std + 3600}
    /\ Zone(z).rule = "none" => L.off = Zone(z).std
    /\ L.wd = WeekdayOfCivil(L.y, L.m, L.d)

\* Wall-clock view of the daylight-saving rules (independent of the UTC formulation above):
\* the reading is never inside the hour that the spring switch skips, and the clock advances by
\* one second per second except exactly at the two switches of the year (+1 h, -1 h).
SkippedHourStart(z, y) ==      \* wall-clock seconds at which the skipped hour begins
    CASE Zone(z).rule = "US" -> (IF y >= 2007 THEN SundayOnOrAfter(y, 3, 8) ELSE SundayOnOrAfter(y, 4, 1)) * DAY + 7200
      [] Zone(z).rule = "EU" -> LastSunday(y, 3) * DAY + 3600 + Zone(z).std
ThNoSkippedHour(z, t) ==
    Zone(z).rule # "none" =>
        LET w == LocalSeconds(z, t)
            s0 == SkippedHourStart(z, CivilFromDays(w \div DAY).y)
        IN ~(s0 <= w /\ w < s0 + 3600)
ThClockStep(z, t) ==
    LET step == LocalSeconds(z, t + 1) - LocalSeconds(z, t) IN
    IF Zone(z).rule = "none" THEN step = 1
    ELSE /\ step \in {1, 3601, -3599}
         /\ step = 3601 <=> t + 1 = DstStart(z, YearOf(t + 1))
         /\ step = -3599 <=> t + 1 = DstEnd(z, YearOf(t + 1))

\* calendar closed forms agree with counting, and invert each other
ThCalendar(t) ==
    LET n == t \div DAY
        c == CivilFromDays(n)
    IN /\ DaysFromCivil(c.y, c.m, c.d) = n
       /\ DaysFromCivilByCounting(c.y, c.m, c.d) = n
       /\ c.m \in 1..12 /\ c.d \in 1..DaysInMonth(c.y, c.m)
       /\ Weekday(n) = WeekdayOfCivil(c.y, c.m, c.d)

\* both spellings of the day denote the same instant
ThCompactDay(t) == ParseAny(Compact(Format(t))) = t /\ ParseAny(Format(t)) = t
                   /\ (Compact(Format(t)) # Format(t) <=> CivilFromDays(t \div DAY).d < 10)

TimeTheorems(z, t) ==
    /\ ThTextWellFormed(t) /\ ThParseFormat(t) /\ ThFormatParse(t) /\ ThCompactDay(t)
    /\ ThSameInstant(z, t) /\ ThFieldsValid(z, t)
    /\ ThNoSkippedHour(z, t) /\ ThClockStep(z, t) /\ ThCalendar(t)
=============================================================================
