------------------------------- MODULE Serial -------------------------------
(***************************************************************************)
(* The id-based JSON serialisation MECHANISM of acnportal                  *)
(* (acnportal/acnsim/base.py: BaseSimObj.to_json / _to_registry / _to_dict *)
(* / from_json / _from_registry / _build_from_id / _from_dict, with the    *)
(* memo tables context_dict and loaded_dict) over ARBITRARY OBJECT GRAPHS  *)
(* of the native classes, including graphs the simulator never builds on   *)
(* its own.  Serves C09 ("the loaded object carries the complete state,    *)
(* and an EV referenced from its station, the session history and pending  *)
(* events is one shared object again") and the last sentence of C11 ("a    *)
(* queue restored from JSON behaves identically to the original").         *)
(*                                                                         *)
(* Abstract state: a small HEAP  id -> [cls, sc, refs].                    *)
(*   cls   class tag: sim net queue evse ev batt plugin unplug recompute   *)
(*         event (the base class Event), and xnet xevse xev: a SUBCLASS of *)
(*         ChargingNetwork / EVSE / EV that adds attributes WITHOUT        *)
(*         extending _to_dict (the "extension" path of _to_registry);      *)
(*   sc    the scalar attributes that matter here, a sequence of           *)
(*         [n name, i index, k kind, v value]; kind "plain" is a natively  *)
(*         JSON-serialisable value, "opaque" one that json.dumps refuses   *)
(*         (dumped as [__NOT_SERIALIZED__, repr] = kind "flag", loaded as  *)
(*         an ErrorAllWrapper = kind "stub"; a warning each time);         *)
(*   refs  the reference-valued attributes IN THE ORDER THE CLASS'S        *)
(*         _to_dict VISITS THEM, a sequence of [f field, i key, to id]:    *)
(*           Simulator       network, event_queue, ev_history (dict, in    *)
(*                           insertion order), event_history (list)        *)
(*                           - simulator.py:380-436 (the same order in     *)
(*                           _from_dict, 466-528)                          *)
(*           ChargingNetwork _EVSEs (ordered dict) - charging_network.py   *)
(*           BaseEVSE        _ev (None = no reference) - evse.py:187-203   *)
(*           EV              _battery - ev.py:155-177                      *)
(*           EVEvent         ev - event.py:116-127                         *)
(*           EventQueue      _queue, the heap ARRAY in array order, each   *)
(*                           entry with a copy of the timestamp            *)
(*                           - event_queue.py:99-112                       *)
(*           x* classes      the native references first (the class's own  *)
(*                           _to_dict runs first), then the unhandled      *)
(*                           attribute x_obj (base.py:363-402).            *)
(*                                                                         *)
(* Mechanism, one action per step of the recursion (a stack of frames      *)
(* [o, j] = "the call for object o is about to handle its j-th reference"):*)
(*   DumpDescend / LoadDescend   the recursive call for a child that is    *)
(*                               not in the memo table yet                 *)
(*   DumpMemoHit / LoadMemoHit   `if obj_id in context_dict` (base.py:354) *)
(*                               / `if obj_id in loaded_dict` (480, 694):  *)
(*                               the id is reused, nothing is visited      *)
(*   DumpRegister                context_dict[id(obj)] = {"class",         *)
(*                               "attributes" with ids in place of         *)
(*                               references} AFTER the children (405)      *)
(*   LoadBuild                   the object is constructed from its entry, *)
(*                               its references replaced by the loaded     *)
(*                               children, and entered in loaded_dict      *)
(*                               (503, 770)                                *)
(* phases: build (the heap is chosen) -> dump (root) -> load -> redump (of  *)
(* the loaded root) -> done.                                               *)
(*                                                                         *)
(* Init / AddEvent / StartDump choose the heap nondeterministically from a bounded family with   *)
(* SHARING chosen freely: an EV referenced from 0..n of {a station, the    *)
(* session history, pending Plugin/Unplug events, processed events}, two   *)
(* EVs on one Battery object, an EV referenced by nothing, a network       *)
(* without EVSEs, an empty queue, several events for one EV, one event     *)
(* object both pending and processed (or pending twice), and the object    *)
(* dumped (root) is ANY object of the heap (loading a sub-object on its    *)
(* own).  The queue array is the result of heapq.heappush in the chosen    *)
(* insertion order (operators as in EventQueueHeap.tla).                   *)
(*                                                                         *)
(* Scalars are small integers (timestamps in periods, indices); the       *)
(* conformance check uses realistic values and compares EVERY scalar       *)
(* attribute of the real objects (original against loaded).                *)
(***************************************************************************)
EXTENDS Integers, Sequences, FiniteSets, TLC, Json

CONSTANTS
    MaxS,          \* number of stations 0..MaxS (<= 2)
    MaxE,          \* number of EV objects 0..MaxE (<= 2)
    MaxV,          \* number of event objects 0..MaxV (<= 3)
    Ts,            \* timestamps of the second and later events (the first has timestamp 1)
    Kinds,         \* event classes: subset of {"plugin", "unplug", "recompute", "event"}
    Places,        \* where an event object is referenced from: "q" pending, "h" processed, "qh" both, "qq" pending twice
    ExtModes,      \* subset of BOOLEAN; TRUE: one object is of an extension class (x_obj / x_plain / x_opaque), FALSE: none is
    RootKinds,     \* class tags of the objects that are dumped ("sim", "net", "queue", "evse", "ev", "batt", "event")
    Rec,           \* TRUE: emit one BHV line per completed behaviour
    Fault          \* "none": the mechanism as it is.  "battery-fresh-memo": NEGATIVE CONTROL - the loader of an EV builds
                   \* its battery without consulting loaded_dict; TLC must then refute Isomorphic (cfg Serial_neg)

VARIABLES
    params,        \* the choices made by Init (kept for the emitted case)
    heap,          \* the original object graph
    root,          \* the object to_json() is called on
    phase,         \* "build" | "dump" | "load" | "redump" | "done" | "emitted"
    stk,           \* recursion stack of frames [o, j]
    ctx, order,    \* context_dict of the dump (id -> entry) and the order in which ids were registered
    loaded,        \* loaded_dict: old id -> new id
    heap2, nnew,   \* the loaded object graph (new ids NewBase+1, ...) and the number of objects created
    ctx2, order2,  \* context_dict of the second dump (of the loaded root)
    warns          \* warnings issued: set of <<phase, id, kind>>

vars == <<params, heap, root, phase, stk, ctx, order, loaded, heap2, nnew, ctx2, order2, warns>>

-----------------------------------------------------------------------------
\* object ids of the original heap (fixed slots); new objects get NewBase + 1, NewBase + 2, ...
SIM == 1
NET == 2
QUE == 3
EVSEid(i) == 3 + i          \* 4, 5
EVid(i) == 5 + i            \* 6, 7
BATid(i) == 7 + i           \* 8, 9: the EVs' own batteries; 10: a spare battery only an extension attribute refers to
EVTid(i) == 10 + i          \* 11 ...
MaxId == 10 + MaxV
NewBase == 100

Sc(n, i, k, v) == [n |-> n, i |-> i, k |-> k, v |-> v]
Rf(f, i, t) == [f |-> f, i |-> i, to |-> t]
Obj(c, s, r) == [cls |-> c, sc |-> s, refs |-> r]
Empty == [x \in {} |-> 0]
SeqRange(s) == {s[i] : i \in 1..Len(s)}
NoDup(s) == Cardinality(SeqRange(s)) = Len(s)

Prec(k) == CASE k = "unplug" -> 0 [] k = "plugin" -> 10 [] k = "recompute" -> 20 [] OTHER -> 99   \* Event: inf
IsEvEvent(k) == k \in {"plugin", "unplug"}
ClassKind(c) == CASE c \in {"plugin", "unplug", "recompute", "event"} -> "event"
                  [] c = "xnet" -> "net" [] c = "xevse" -> "evse" [] c = "xev" -> "ev" [] OTHER -> c

-----------------------------------------------------------------------------
\* heapq on the tuples (timestamp, event): timestamps first, then Event.__lt__ = precedence (EventQueueHeap.tla)
Lt(a, b) == IF a.ts # b.ts THEN a.ts < b.ts ELSE a.prec < b.prec
RECURSIVE SiftDown(_, _, _, _)
SiftDown(h, start, pos, item) ==
    IF pos > start /\ Lt(item, h[pos \div 2])
    THEN SiftDown([h EXCEPT ![pos] = h[pos \div 2]], start, pos \div 2, item)
    ELSE [h EXCEPT ![pos] = item]
HeapPush(h, x) == SiftDown(Append(h, x), 1, Len(h) + 1, x)
RECURSIVE PushAll(_, _, _)
PushAll(h, es, i) == IF i > Len(es) THEN h ELSE PushAll(HeapPush(h, es[i]), es, i + 1)
RECURSIVE Bubble(_, _)
Bubble(h, pos) ==
    LET c == 2 * pos IN
    IF c > Len(h) THEN <<h, pos>>
    ELSE LET cc == IF c + 1 <= Len(h) /\ ~Lt(h[c], h[c + 1]) THEN c + 1 ELSE c
         IN Bubble([h EXCEPT ![pos] = h[cc]], cc)
SiftUp(h, pos) == LET b == Bubble(h, pos) IN SiftDown(b[1], pos, b[2], h[pos])
HeapPop(h) ==
    LET last == h[Len(h)]
        rest == SubSeq(h, 1, Len(h) - 1)
    IN IF rest = <<>> THEN [item |-> last, heap |-> <<>>]
       ELSE [item |-> rest[1], heap |-> SiftUp([rest EXCEPT ![1] = last], 1)]
RECURSIVE PopAll(_, _)
PopAll(h, acc) == IF h = <<>> THEN acc ELSE LET p == HeapPop(h) IN PopAll(p.heap, Append(acc, p.item))
HeapOrdered(h) == \A i \in 2..Len(h) : ~Lt(h[i], h[i \div 2])

-----------------------------------------------------------------------------
\* The family of heaps.  p = [nS, nE, share, occ, hs, evs, ext]
\*   occ   sequence over stations: index of the EV plugged in there, 0 = vacant
\*   hs    ev_history: EV indices in insertion order
\*   evs   event objects [kind, ev, ts, place]
\*   ext   [on, holder, target]: the extension object and what its x_obj refers to (0: it has no x_obj)
Occs(nS, nE) == {o \in [1..nS -> 0..nE] : \A a, b \in 1..nS : (a # b /\ o[a] # 0) => o[a] # o[b]}
HistSeqs(nE) == {<<>>} \cup {<<e>> : e \in 1..nE} \cup {q \in {<<a, b>> : a \in 1..nE, b \in 1..nE} : q[1] # q[2]}
EvDesc(nE, first) ==
    {[kind |-> k, ev |-> e, ts |-> t, place |-> pl] :
        k \in Kinds, e \in 0..nE, t \in (IF first THEN {1} ELSE Ts), pl \in Places}
EvOK(d) == IsEvEvent(d.kind) <=> d.ev # 0
EvChoices(nE, first) == {d \in EvDesc(nE, first) : EvOK(d)}
\* extension holders and the objects their x_obj may refer to: always an object of a LOWER layer
\* (battery < EV < EVSE < network), because _to_registry enters an object in context_dict only after
\* its children: a reference cycle would recurse forever (the native classes never form one).
Exts(nS, nE, share) ==
    (IF FALSE \in ExtModes THEN {[on |-> FALSE, holder |-> 0, target |-> 0]} ELSE {})
    \cup (IF TRUE \in ExtModes
          THEN {[on |-> TRUE, holder |-> h, target |-> t] :
            h \in {NET} \cup {EVSEid(i) : i \in 1..(IF nS >= 1 THEN 1 ELSE 0)} \cup {EVid(i) : i \in 1..(IF nE >= 1 THEN 1 ELSE 0)},
            t \in {0, BATid(3)} \cup {BATid(i) : i \in 1..(IF share THEN 1 ELSE nE)}
                  \cup {EVid(i) : i \in 1..nE} \cup {EVSEid(i) : i \in 1..nS}}
          ELSE {})
Layer(o) == IF o = 0 THEN 0 ELSE IF o \in {BATid(1), BATid(2), BATid(3)} THEN 1
            ELSE IF o \in {EVid(1), EVid(2)} THEN 2 ELSE IF o \in {EVSEid(1), EVSEid(2)} THEN 3 ELSE 4
ExtOK(x) == x.on => Layer(x.target) < Layer(x.holder)

BattOf(p, i) == IF i = 2 /\ p.share THEN BATid(1) ELSE BATid(i)
\* the station an EV names in its station_id: the one it is plugged into, else station 1 (the name only; the station
\* need not exist)
StationOf(p, e) == IF \E s \in 1..p.nS : p.occ[s] = e THEN CHOOSE s \in 1..p.nS : p.occ[s] = e ELSE 1

\* queue insertion order (add_event calls) and processed events, both in the order of the event objects
RECURSIVE QIns(_, _)
QIns(evs, i) == IF i > Len(evs) THEN <<>>
                ELSE (CASE evs[i].place \in {"q", "qh"} -> <<i>> [] evs[i].place = "qq" -> <<i, i>> [] OTHER -> <<>>)
                     \o QIns(evs, i + 1)
RECURSIVE EHist(_, _)
EHist(evs, i) == IF i > Len(evs) THEN <<>>
                 ELSE (IF evs[i].place \in {"h", "qh"} THEN <<i>> ELSE <<>>) \o EHist(evs, i + 1)
QItem(evs, i) == [id |-> EVTid(i), ts |-> evs[i].ts, prec |-> Prec(evs[i].kind)]
QArr(p) == LET ins == QIns(p.evs, 1) IN PushAll(<<>>, [k \in 1..Len(ins) |-> QItem(p.evs, ins[k])], 1)

ObjIds(p) ==
    {SIM, NET, QUE} \cup {EVSEid(i) : i \in 1..p.nS} \cup {EVid(i) : i \in 1..p.nE}
    \cup {BattOf(p, i) : i \in 1..p.nE} \cup (IF p.ext.on /\ p.ext.target = BATid(3) THEN {BATid(3)} ELSE {})
    \cup {EVTid(i) : i \in 1..Len(p.evs)}

XSc(p, o) == IF p.ext.on /\ p.ext.holder = o
             THEN <<Sc("x_plain", 0, "plain", 7), Sc("x_opaque", 0, "opaque", 9)>> ELSE <<>>
XRf(p, o) == IF p.ext.on /\ p.ext.holder = o /\ p.ext.target # 0 THEN <<Rf("x_obj", 0, p.ext.target)>> ELSE <<>>
XCls(p, o, c) == IF p.ext.on /\ p.ext.holder = o THEN (CASE c = "net" -> "xnet" [] c = "evse" -> "xevse" [] c = "ev" -> "xev") ELSE c

MkObj(p, o) ==
    LET arr == QArr(p)
        eh == EHist(p.evs, 1)
    IN CASE o = SIM ->
              Obj("sim", <<Sc("_iteration", 0, "plain", Len(eh))>>,
                  <<Rf("network", 0, NET), Rf("event_queue", 0, QUE)>>
                  \o [j \in 1..Len(p.hs) |-> Rf("ev_history", p.hs[j], EVid(p.hs[j]))]
                  \o [j \in 1..Len(eh) |-> Rf("event_history", j, EVTid(eh[j]))])
         [] o = NET ->
              Obj(XCls(p, o, "net"), XSc(p, o), [i \in 1..p.nS |-> Rf("_EVSEs", i, EVSEid(i))] \o XRf(p, o))
         [] o = QUE ->
              Obj("queue", <<Sc("_timestep", 0, "plain", Len(eh))>> \o [j \in 1..Len(arr) |-> Sc("_queue_ts", j, "plain", arr[j].ts)],
                  [j \in 1..Len(arr) |-> Rf("_queue", j, arr[j].id)])
         [] o \in {EVSEid(1), EVSEid(2)} ->
              LET i == o - 3 IN
              Obj(XCls(p, o, "evse"), <<Sc("_station_id", 0, "plain", i)>> \o XSc(p, o),
                  (IF p.occ[i] # 0 THEN <<Rf("_ev", 0, EVid(p.occ[i]))>> ELSE <<>>) \o XRf(p, o))
         [] o \in {EVid(1), EVid(2)} ->
              LET i == o - 5 IN
              Obj(XCls(p, o, "ev"), <<Sc("_session_id", 0, "plain", i), Sc("_station_id", 0, "plain", StationOf(p, i))>> \o XSc(p, o),
                  <<Rf("_battery", 0, BattOf(p, i))>> \o XRf(p, o))
         [] o \in {BATid(1), BATid(2), BATid(3)} ->
              Obj("batt", <<Sc("_capacity", 0, "plain", 10 * (o - 7))>>, <<>>)
         [] OTHER ->
              LET d == p.evs[o - 10] IN
              Obj(d.kind, <<Sc("timestamp", 0, "plain", d.ts), Sc("precedence", 0, "plain", Prec(d.kind))>>,
                  IF IsEvEvent(d.kind) THEN <<Rf("ev", 0, EVid(d.ev))>> ELSE <<>>)

MkHeap(p) == [o \in ObjIds(p) |-> MkObj(p, o)]

-----------------------------------------------------------------------------
\* graph notions, defined independently of the mechanism
Lab(r) == <<r.f, r.i>>
RECURSIVE PathsFrom(_, _)
PathsFrom(H, o) ==      \* access paths (sequences of labels) starting at o; finite because the graph is acyclic
    {<<>>} \cup UNION {{<<Lab(H[o].refs[j])>> \o q : q \in PathsFrom(H, H[o].refs[j].to)} : j \in 1..Len(H[o].refs)}
RECURSIVE Walk(_, _, _)
Walk(H, o, q) ==
    IF q = <<>> THEN o
    ELSE LET j == CHOOSE j \in 1..Len(H[o].refs) : Lab(H[o].refs[j]) = Head(q) IN Walk(H, H[o].refs[j].to, Tail(q))
ReachByPaths(H, o) == {Walk(H, o, q) : q \in PathsFrom(H, o)}
RECURSIVE Closure(_, _)
Closure(H, S) == LET T == S \cup UNION {{H[o].refs[j].to : j \in 1..Len(H[o].refs)} : o \in S}
                 IN IF T = S THEN S ELSE Closure(H, T)
Reach(H, o) == Closure(H, {o})          \* = ReachByPaths(H, o) (invariant ReachAgree)

RECURSIVE Depth(_, _, _)
Depth(H, o, fuel) ==    \* longest path below o, or -1000 if longer than fuel (a cycle)
    IF fuel = 0 THEN -1000
    ELSE IF H[o].refs = <<>> THEN 0
    ELSE 1 + (LET ds == {Depth(H, H[o].refs[j].to, fuel - 1) : j \in 1..Len(H[o].refs)}
              IN CHOOSE d \in ds : \A e \in ds : e <= d)

\* what a reference-valued attribute may refer to
TargetKinds(c, f) ==
    CASE f = "network" -> {"net"} [] f = "event_queue" -> {"queue"} [] f = "ev_history" -> {"ev"}
      [] f = "event_history" -> {"event"} [] f = "_EVSEs" -> {"evse"} [] f = "_ev" -> {"ev"} [] f = "ev" -> {"ev"}
      [] f = "_battery" -> {"batt"} [] f = "_queue" -> {"event"} [] f = "x_obj" -> {"batt", "ev", "evse"}
WellFormed(H) ==
    /\ \A o \in DOMAIN H :
        /\ \A j \in 1..Len(H[o].refs) :
             /\ H[o].refs[j].to \in DOMAIN H
             /\ ClassKind(H[H[o].refs[j].to].cls) \in TargetKinds(H[o].cls, H[o].refs[j].f)
        /\ \A j, k \in 1..Len(H[o].refs) : j # k => Lab(H[o].refs[j]) # Lab(H[o].refs[k])     \* labels are keys
        /\ Depth(H, o, 8) >= 0                                                                \* acyclic
    /\ \A o \in DOMAIN H : H[o].cls = "queue" =>      \* the array is a heap w.r.t. (timestamp, precedence)
         HeapOrdered([j \in 1..Len(H[o].refs) |-> [ts |-> H[H[o].refs[j].to].sc[1].v, prec |-> H[H[o].refs[j].to].sc[2].v]])

-----------------------------------------------------------------------------
\* encoding of scalars in the registry and back
Enc(s) == IF s.k = "opaque" THEN [s EXCEPT !.k = "flag"]                    \* [__NOT_SERIALIZED__, repr(value)]
          ELSE IF s.k = "stub" THEN [s EXCEPT !.k = "flag", !.v = @ + 1000]  \* repr of the wrapper: another text
          ELSE s
Dec(s) == IF s.k = "flag" THEN [s EXCEPT !.k = "stub"] ELSE s               \* ErrorAllWrapper(text)
EncObj(x) == [cls |-> x.cls, sc |-> [j \in 1..Len(x.sc) |-> Enc(x.sc[j])], refs |-> x.refs]
IsExt(c) == c \in {"xnet", "xevse", "xev"}
HasFlag(e) == \E j \in 1..Len(e.sc) : e.sc[j].k = "flag"

Top == stk[Len(stk)]
\* the call for a child has returned: the caller goes on with its next attribute
Ret(s) == LET r == SubSeq(s, 1, Len(s) - 1) IN IF r = <<>> THEN r ELSE [r EXCEPT ![Len(r)].j = @ + 1]

InDump == phase \in {"dump", "redump"}
H == IF phase = "dump" THEN heap ELSE heap2
C == IF phase = "dump" THEN ctx ELSE ctx2

\* The heap is chosen in steps (so that -simulate builds large heaps without enumerating them all as initial states):
\* Init fixes stations, EVs, batteries, occupancy, session history and the extension; AddEvent creates event objects;
\* StartDump fixes the heap and the object that is dumped.
Init ==
    \E nS \in 0..MaxS, nE \in 0..MaxE :
      \E share \in (IF nE = 2 THEN BOOLEAN ELSE {FALSE}) :
        \E occ \in Occs(nS, nE), hs \in HistSeqs(nE), ext \in Exts(nS, nE, share) :
          /\ ExtOK(ext)
          /\ params = [nS |-> nS, nE |-> nE, share |-> share, occ |-> occ, hs |-> hs, evs |-> <<>>, ext |-> ext]
          /\ heap = Empty /\ root = 0
          /\ phase = "build"
          /\ stk = <<>>
          /\ ctx = Empty /\ order = <<>> /\ loaded = Empty /\ heap2 = Empty /\ nnew = 0
          /\ ctx2 = Empty /\ order2 = <<>> /\ warns = {}

AddEvent ==
    /\ phase = "build" /\ Len(params.evs) < MaxV
    /\ \E d \in EvChoices(params.nE, params.evs = <<>>) : params' = [params EXCEPT !.evs = Append(@, d)]
    /\ UNCHANGED <<heap, root, phase, stk, ctx, order, loaded, heap2, nnew, ctx2, order2, warns>>

StartDump ==            \* obj.to_json() is called on the object `root`
    /\ phase = "build"
    /\ heap' = MkHeap(params)
    /\ root' \in {o \in ObjIds(params) : ClassKind(MkObj(params, o).cls) \in RootKinds}
    /\ phase' = "dump"
    /\ stk' = <<[o |-> root', j |-> 1]>>
    /\ UNCHANGED <<params, ctx, order, loaded, heap2, nnew, ctx2, order2, warns>>

\* ---- _to_registry --------------------------------------------------------
DumpDescend ==          \* attribute j refers to an object not converted yet: recursive _to_registry call
    /\ InDump /\ stk # <<>> /\ Top.j <= Len(H[Top.o].refs)
    /\ LET t == H[Top.o].refs[Top.j].to IN
         /\ t \notin DOMAIN C
         /\ stk' = Append(stk, [o |-> t, j |-> 1])
    /\ UNCHANGED <<params, heap, root, phase, ctx, order, loaded, heap2, nnew, ctx2, order2, warns>>

DumpMemoHit ==          \* `if obj_id in context_dict: return {"id": obj_id, ...}`: only the id is used
    /\ InDump /\ stk # <<>> /\ Top.j <= Len(H[Top.o].refs)
    /\ H[Top.o].refs[Top.j].to \in DOMAIN C
    /\ stk' = [stk EXCEPT ![Len(stk)].j = @ + 1]
    /\ UNCHANGED <<params, heap, root, phase, ctx, order, loaded, heap2, nnew, ctx2, order2, warns>>

DumpRegister ==         \* all attributes converted: context_dict[obj_id] = {"class": ..., "attributes": ...}
    /\ InDump /\ stk # <<>> /\ Top.j > Len(H[Top.o].refs)
    /\ LET o == Top.o
           e == EncObj(H[o])
       IN /\ IF phase = "dump"
             THEN ctx' = ctx @@ (o :> e) /\ order' = Append(order, o) /\ UNCHANGED <<ctx2, order2>>
             ELSE ctx2' = ctx2 @@ (o :> e) /\ order2' = Append(order2, o) /\ UNCHANGED <<ctx, order>>
          /\ warns' = warns \cup (IF IsExt(e.cls) THEN {<<phase, o, "unhandled">>} ELSE {})
                            \cup (IF HasFlag(e) THEN {<<phase, o, "not-serialized">>} ELSE {})
    /\ stk' = Ret(stk)
    /\ UNCHANGED <<params, heap, root, phase, loaded, heap2, nnew>>

DumpDone ==             \* to_json returns; from_json(...) is called on the result / the loaded object is dumped again
    /\ InDump /\ stk = <<>>
    /\ IF phase = "dump"
       THEN phase' = "load" /\ stk' = <<[o |-> root, j |-> 1]>>
       ELSE phase' = "done" /\ stk' = <<>>
    /\ UNCHANGED <<params, heap, root, ctx, order, loaded, heap2, nnew, ctx2, order2, warns>>

\* ---- _from_registry / _build_from_id ------------------------------------
IgnoresMemo(r) == Fault = "battery-fresh-memo" /\ r.f = "_battery"

LoadDescend ==          \* _build_from_id of a child that has not been loaded yet
    /\ phase = "load" /\ stk # <<>> /\ Top.j <= Len(ctx[Top.o].refs)
    /\ LET t == ctx[Top.o].refs[Top.j].to IN
         /\ t \notin DOMAIN loaded \/ IgnoresMemo(ctx[Top.o].refs[Top.j])
         /\ t \in DOMAIN ctx                      \* otherwise KeyError "not found in context_dict"
         /\ stk' = Append(stk, [o |-> t, j |-> 1])
    /\ UNCHANGED <<params, heap, root, phase, ctx, order, loaded, heap2, nnew, ctx2, order2, warns>>

LoadMemoHit ==          \* `if obj_id in loaded_dict: return loaded_dict[obj_id]`
    /\ phase = "load" /\ stk # <<>> /\ Top.j <= Len(ctx[Top.o].refs)
    /\ ctx[Top.o].refs[Top.j].to \in DOMAIN loaded /\ ~IgnoresMemo(ctx[Top.o].refs[Top.j])
    /\ stk' = [stk EXCEPT ![Len(stk)].j = @ + 1]
    /\ UNCHANGED <<params, heap, root, phase, ctx, order, loaded, heap2, nnew, ctx2, order2, warns>>

LoadBuild ==            \* the object is built from its entry and entered in loaded_dict
    /\ phase = "load" /\ stk # <<>> /\ Top.j > Len(ctx[Top.o].refs)
    /\ LET o == Top.o
           e == ctx[o]
           nid == NewBase + nnew + 1
       IN /\ heap2' = heap2 @@ (nid :> [cls |-> e.cls,
                                        sc |-> [j \in 1..Len(e.sc) |-> Dec(e.sc[j])],
                                        refs |-> [j \in 1..Len(e.refs) |-> [e.refs[j] EXCEPT !.to = loaded[@]]]])
          /\ loaded' = (o :> nid) @@ loaded            \* loaded_dict[obj_id] = obj
          /\ nnew' = nnew + 1
          /\ warns' = warns \cup (IF IsExt(e.cls) THEN {<<"load", o, "unhandled">>} ELSE {})
                            \cup (IF HasFlag(e) THEN {<<"load", o, "no-loader">>} ELSE {})
    /\ stk' = Ret(stk)
    /\ UNCHANGED <<params, heap, root, phase, ctx, order, ctx2, order2>>

LoadDone ==
    /\ phase = "load" /\ stk = <<>>
    /\ phase' = "redump" /\ stk' = <<[o |-> loaded[root], j |-> 1]>>
    /\ UNCHANGED <<params, heap, root, ctx, order, loaded, heap2, nnew, ctx2, order2, warns>>

-----------------------------------------------------------------------------
\* emission (generation configuration)
IdSeq(S) == SelectSeq([i \in 1..MaxId |-> i], LAMBDA i : i \in S)
HeapList(HH) == LET ids == IdSeq(DOMAIN HH) IN
    [k \in 1..Len(ids) |-> [id |-> ids[k], cls |-> HH[ids[k]].cls, sc |-> HH[ids[k]].sc, refs |-> HH[ids[k]].refs]]
PathList(HH, r) == {[p |-> [k \in 1..Len(q) |-> [f |-> q[k][1], i |-> q[k][2]]], o |-> Walk(HH, r, q)] : q \in PathsFrom(HH, r)}
Drain == LET a == PopAll(QArr(params), <<>>) IN [k \in 1..Len(a) |-> a[k].id]

Finish ==
    /\ phase = "done"
    /\ IF Rec THEN PrintT(<<"BHV", ToJson([
            params |-> params, root |-> root, heap |-> HeapList(heap),
            qins |-> QIns(params.evs, 1), drain |-> Drain,
            reach |-> LET ids == IdSeq(DOMAIN heap) IN [k \in 1..Len(ids) |-> [o |-> ids[k], r |-> Reach(heap, ids[k])]],
            paths |-> PathList(heap, root),                        \* the expected sharing relation: path -> object
            reg |-> [k \in 1..Len(order) |-> [id |-> order[k], e |-> ctx[order[k]]]],   \* the expected registry, in order
            warns |-> {[ph |-> w[1], o |-> w[2], w |-> w[3]] : w \in warns}])>>)
       ELSE TRUE
    /\ phase' = "emitted"
    /\ UNCHANGED <<params, heap, root, stk, ctx, order, loaded, heap2, nnew, ctx2, order2, warns>>

Terminated == phase = "emitted" /\ UNCHANGED vars

Next ==
    \/ AddEvent \/ StartDump
    \/ DumpDescend \/ DumpMemoHit \/ DumpRegister \/ DumpDone
    \/ LoadDescend \/ LoadMemoHit \/ LoadBuild \/ LoadDone
    \/ Finish \/ Terminated

Spec == Init /\ [][Next]_vars

-----------------------------------------------------------------------------
\* Properties.  The expensive ones are evaluated once per behaviour, when everything has been computed.
Done == phase = "done"
root2 == loaded[root]

InitWellFormed == (phase = "dump" /\ order = <<>> /\ stk = <<[o |-> root, j |-> 1]>>) => WellFormed(heap)

\* the recursion stack is a path of the graph from the root and never holds an object twice (no infinite recursion)
StackIsPath ==
    /\ NoDup([k \in 1..Len(stk) |-> stk[k].o])
    /\ phase \in {"dump", "redump", "load"} => \A k \in 1..(Len(stk) - 1) :
         LET G == IF phase = "load" THEN ctx ELSE H IN
         stk[k].j <= Len(G[stk[k].o].refs) /\ G[stk[k].o].refs[stk[k].j].to = stk[k + 1].o

\* (a) the loaded graph reachable from the loaded root is isomorphic to the original reachable graph, as a graph with
\* labelled edges: the same access paths exist, lead to objects of the same class with the same scalars, and two paths
\* lead to ONE object after loading IFF they did before (no lost sharing, no invented sharing)
ScSame(a, b) == Len(a) = Len(b) /\ \A j \in 1..Len(a) :
    /\ a[j].n = b[j].n /\ a[j].i = b[j].i
    /\ IF a[j].k = "opaque" THEN b[j].k = "stub" /\ b[j].v = a[j].v      \* the wrapper carries the repr text
       ELSE b[j] = a[j]
Isomorphic ==
    Done => LET P == PathsFrom(heap, root)
                P2 == PathsFrom(heap2, root2)
                w1 == [q \in P |-> Walk(heap, root, q)]
                w2 == [q \in P2 |-> Walk(heap2, root2, q)]
            IN /\ P = P2
               /\ \A q \in P : LET a == heap[w1[q]]
                                   b == heap2[w2[q]]
                               IN a.cls = b.cls /\ ScSame(a.sc, b.sc)
               /\ \A q, r \in P : (w1[q] = w1[r]) <=> (w2[q] = w2[r])
ReachAgree == Done => Reach(heap, root) = ReachByPaths(heap, root)
\* the same statement through the memo table: loaded_dict is a bijection between the reachable sets that commutes with
\* every reference
IsoByMemo ==
    Done => /\ DOMAIN loaded = Reach(heap, root)
            /\ {loaded[o] : o \in DOMAIN loaded} = Reach(heap2, root2)
            /\ \A a, b \in DOMAIN loaded : a # b => loaded[a] # loaded[b]
            /\ \A o \in DOMAIN loaded :
                 /\ Len(heap2[loaded[o]].refs) = Len(heap[o].refs)
                 /\ \A j \in 1..Len(heap[o].refs) :
                      /\ Lab(heap2[loaded[o]].refs[j]) = Lab(heap[o].refs[j])
                      /\ heap2[loaded[o]].refs[j].to = loaded[heap[o].refs[j].to]
\* nothing but the image of the reachable part is created (loading a sub-object gives its sub-graph and no more)
LoadedExact == Done => DOMAIN heap2 = Reach(heap2, root2) /\ nnew = Cardinality(Reach(heap, root))

\* (b) every reachable object is dumped exactly once, nothing unreachable is dumped
DumpExact ==
    /\ NoDup(order) /\ SeqRange(order) = DOMAIN ctx
    /\ NoDup(order2) /\ SeqRange(order2) = DOMAIN ctx2
    /\ (phase = "load" /\ nnew = 0 /\ Len(stk) = 1) => DOMAIN ctx = Reach(heap, root)    \* when to_json returns
    /\ Done => DOMAIN ctx = Reach(heap, root) /\ DOMAIN ctx2 = Reach(heap2, root2)
RegisterOnce == [][(order' # order => order'[Len(order')] \notin DOMAIN ctx)
                   /\ (order2' # order2 => order2'[Len(order2')] \notin DOMAIN ctx2)]_vars
\* an entry holds ids only of objects that are registered (children first)
RegistryClosed == \A o \in DOMAIN ctx : \A j \in 1..Len(ctx[o].refs) : ctx[o].refs[j].to \in DOMAIN ctx

\* (c) dumping changes nothing in the graph that is dumped
DumpPure == [][(phase # "build" => heap' = heap) /\ (phase = "redump" => heap2' = heap2)]_vars

\* (d) dump o load o dump gives the same registry up to the renaming of ids (a flagged attribute stays flagged; its
\* text is the repr of the wrapper then) and registers in the same order
RegSame(a, b) ==
    /\ a.cls = b.cls /\ Len(a.sc) = Len(b.sc) /\ Len(a.refs) = Len(b.refs)
    /\ \A j \in 1..Len(a.sc) : IF a.sc[j].k = "flag" THEN b.sc[j].k = "flag" /\ b.sc[j].n = a.sc[j].n ELSE b.sc[j] = a.sc[j]
    /\ \A j \in 1..Len(a.refs) : Lab(a.refs[j]) = Lab(b.refs[j]) /\ b.refs[j].to = loaded[a.refs[j].to]
RedumpEqual ==
    Done => /\ DOMAIN ctx2 = {loaded[o] : o \in DOMAIN ctx}
            /\ \A o \in DOMAIN ctx : RegSame(ctx[o], ctx2[loaded[o]])
            /\ order2 = [k \in 1..Len(order) |-> loaded[order[k]]]

\* (e) loading a sub-object on its own gives the sub-graph reachable from it: (a)-(d) with that object as root
\* (configurations with RootKinds <- RootsAll / RootsSub / RootsNetQueue; LoadedExact: and nothing more is created).

\* the restored queue is the same ARRAY (so it is a heap again without heapify, and pops in the same order)
QueueSame ==
    Done => \A o \in DOMAIN loaded : heap[o].cls = "queue" =>
        LET arr(HH, x) == [j \in 1..Len(HH[x].refs) |-> [id |-> 0, ts |-> HH[HH[x].refs[j].to].sc[1].v,
                                                           prec |-> HH[HH[x].refs[j].to].sc[2].v]]
        IN /\ arr(heap, o) = arr(heap2, loaded[o])
           /\ HeapOrdered(arr(heap2, loaded[o]))
           /\ \A j \in 1..Len(heap[o].refs) : heap2[loaded[o]].sc[j + 1].v = heap2[heap2[loaded[o]].refs[j].to].sc[1].v

\* warnings: exactly the extension objects warn, in every phase; a flagged attribute warns again
WarnExact ==
    Done => \A o \in Reach(heap, root) :
        /\ (<<"dump", o, "unhandled">> \in warns) <=> IsExt(heap[o].cls)
        /\ (<<"load", o, "unhandled">> \in warns) <=> IsExt(heap[o].cls)
        /\ (<<"dump", o, "not-serialized">> \in warns) <=> \E j \in 1..Len(heap[o].sc) : heap[o].sc[j].k = "opaque"
        /\ (<<"load", o, "no-loader">> \in warns) <=> \E j \in 1..Len(heap[o].sc) : heap[o].sc[j].k = "opaque"
=============================================================================
