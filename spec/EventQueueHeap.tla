--------------------------- MODULE EventQueueHeap ---------------------------
(***************************************************************************)
(* The MECHANISM of acnportal's EventQueue, one level below EventQueue.tla:*)
(* the array `_queue` managed with heapq.heappush / heapq.heappop          *)
(* (transcribed from CPython's Lib/heapq.py: _siftdown, _siftup), the      *)
(* comparison Python applies to the stored tuples (timestamp, event)       *)
(* - timestamps first, then Event.__lt__, i.e. precedence - and the JSON   *)
(* round trip, which writes and reads the ARRAY IN ITS ORDER               *)
(* (EventQueue._to_dict / _from_dict).                                     *)
(*                                                                         *)
(* TLC decides that this mechanism implements the abstract queue:          *)
(*   HeapInv     the array is a heap after every call, also after a round  *)
(*               trip (which is why restoring needs no heapify);           *)
(*   Refines     every step is a step of EventQueue!Spec under             *)
(*               pending <- set of array elements, with the same result    *)
(*               `out` (so the heap's particular choice among equal keys   *)
(*               is one of the outcomes the abstract specification allows).*)
(* ScrambledLoadBreaks is the negative control: restoring the array in     *)
(* another order (here: reversed) is NOT an implementation - TLC is        *)
(* expected to find the counterexample (cfg EventQueueHeap_neg).           *)
(*                                                                         *)
(* This level is not compared with the implementation's array layout (a    *)
(* correct queue may be implemented differently); the code is bound to     *)
(* the abstract level by trace validation (EventQueueTrace.tla).           *)
(* Indices are 1-based: parent of i is i \div 2, children are 2i, 2i+1.    *)
(***************************************************************************)
EXTENDS Integers, Sequences, FiniteSets, TLC

CONSTANTS Ts, Kinds, Probes, Batches, MaxEv,
          Scramble      \* FALSE: the real round trip.  TRUE: negative control (array reversed on load)

VARIABLES heap,     \* the array _queue: sequence of events [id, ts, kind]
          nextId,   \* id of the next event created
          out       \* result of the last call (same records as EventQueue!out)

hvars == <<heap, nextId, out>>

Prec(k) == CASE k = "Unplug" -> 0 [] k = "Plugin" -> 10 [] k = "Recompute" -> 20 [] k = "Urgent" -> -1000 [] k = "Base" -> 1000

\* (ts_a, a) < (ts_b, b) in Python: the first components decide unless equal; then a == b is
\* identity (distinct objects are unequal) and a < b is Event.__lt__: precedence.
Lt(a, b) == IF a.ts # b.ts THEN a.ts < b.ts ELSE Prec(a.kind) < Prec(b.kind)

\* heapq._siftdown(heap, startpos, pos): carry `item` from pos towards the root while its parent is larger
RECURSIVE SiftDown(_, _, _, _)
SiftDown(h, start, pos, item) ==
    IF pos > start /\ Lt(item, h[pos \div 2])
    THEN SiftDown([h EXCEPT ![pos] = h[pos \div 2]], start, pos \div 2, item)
    ELSE [h EXCEPT ![pos] = item]

\* first loop of heapq._siftup: bubble the smaller child up until a leaf is reached; <<array, leaf>>
RECURSIVE Bubble(_, _)
Bubble(h, pos) ==
    LET c == 2 * pos IN
    IF c > Len(h) THEN <<h, pos>>
    ELSE LET cc == IF c + 1 <= Len(h) /\ ~Lt(h[c], h[c + 1]) THEN c + 1 ELSE c
         IN Bubble([h EXCEPT ![pos] = h[cc]], cc)

\* heapq._siftup(heap, pos)
SiftUp(h, pos) == LET b == Bubble(h, pos) IN SiftDown(b[1], pos, b[2], h[pos])

HeapPush(h, x) == SiftDown(Append(h, x), 1, Len(h) + 1, x)

\* heapq.heappop: [item, heap]
HeapPop(h) ==
    LET last == h[Len(h)]
        rest == SubSeq(h, 1, Len(h) - 1)
    IN IF rest = <<>> THEN [item |-> last, heap |-> <<>>]
       ELSE [item |-> rest[1], heap |-> SiftUp([rest EXCEPT ![1] = last], 1)]

\* add_events: add_event for each element in order
RECURSIVE PushAll(_, _, _)
PushAll(h, es, i) == IF i > Len(es) THEN h ELSE PushAll(HeapPush(h, es[i]), es, i + 1)

\* the loop of get_current_events: <<remaining array, list returned>>
RECURSIVE PopDue(_, _, _)
PopDue(h, t, acc) ==
    IF h # <<>> /\ h[1].ts <= t
    THEN LET p == HeapPop(h) IN PopDue(p.heap, t, Append(acc, p.item))
    ELSE <<h, acc>>

SeqRange(s) == {s[i] : i \in 1..Len(s)}
Reverse(s) == [i \in 1..Len(s) |-> s[Len(s) + 1 - i]]
Stamped(b, n) == [i \in 1..Len(b) |-> [id |-> n + i - 1, ts |-> b[i].ts, kind |-> b[i].kind]]

-----------------------------------------------------------------------------
Init == heap = <<>> /\ nextId = 1 /\ out = [op |-> "init"]

Add(ts, kind) ==
    /\ nextId <= MaxEv
    /\ heap' = HeapPush(heap, [id |-> nextId, ts |-> ts, kind |-> kind])
    /\ nextId' = nextId + 1
    /\ out' = [op |-> "add"]

AddMany(b) ==
    /\ nextId + Len(b) - 1 <= MaxEv
    /\ heap' = PushAll(heap, Stamped(b, nextId), 1)
    /\ nextId' = nextId + Len(b)
    /\ out' = [op |-> "add_many"]

\* add_events(iterable that raises after k events): the loop has pushed the first k, one by one
AddManyFail(b, k) ==
    /\ k \in 0..(Len(b) - 1)
    /\ nextId + k - 1 <= MaxEv
    /\ heap' = PushAll(heap, Stamped(SubSeq(b, 1, k), nextId), 1)
    /\ nextId' = nextId + k
    /\ out' = [op |-> "add_many_fail"]

GetEvent ==
    /\ heap # <<>>
    /\ LET p == HeapPop(heap) IN heap' = p.heap /\ out' = [op |-> "get_event", ev |-> p.item]
    /\ UNCHANGED nextId

GetCurrent(t) ==
    /\ LET r == PopDue(heap, t, <<>>) IN heap' = r[1] /\ out' = [op |-> "get_current", t |-> t, evs |-> r[2]]
    /\ UNCHANGED nextId

QLen    == out' = [op |-> "len", n |-> Len(heap)] /\ UNCHANGED <<heap, nextId>>
QEmpty  == out' = [op |-> "empty", b |-> (Len(heap) = 0)] /\ UNCHANGED <<heap, nextId>>
\* max(self._queue, key=lambda x: x[0])[0]: a scan of the whole array, not the heap top
QLastTs ==
    /\ out' = [op |-> "last_ts", none |-> (heap = <<>>),
               ts |-> IF heap = <<>> THEN 0
                      ELSE CHOOSE m \in {heap[i].ts : i \in 1..Len(heap)} : \A i \in 1..Len(heap) : heap[i].ts <= m]
    /\ UNCHANGED <<heap, nextId>>

\* _to_dict writes [(ts, id) for (ts, event) in self._queue]; _from_dict rebuilds the list in that order
RoundTrip ==
    /\ heap' = IF Scramble THEN Reverse(heap) ELSE heap
    /\ out' = [op |-> "round_trip", evs |-> SeqRange(heap')]
    /\ UNCHANGED nextId

Next ==
    \/ \E ts \in Ts, k \in Kinds : Add(ts, k)
    \/ \E b \in Batches : AddMany(b)
    \/ \E b \in Batches : Len(b) >= 2 /\ AddManyFail(b, Len(b) - 1)
    \/ GetEvent
    \/ \E t \in Probes : GetCurrent(t)
    \/ QLen \/ QEmpty \/ QLastTs \/ RoundTrip

Spec == Init /\ [][Next]_hvars

-----------------------------------------------------------------------------
HeapInv == \A i \in 2..Len(heap) : ~Lt(heap[i], heap[i \div 2])
NoDuplicates == Cardinality(SeqRange(heap)) = Len(heap)

\* the abstract queue, with its history / plan variables switched off
Abs == INSTANCE EventQueue WITH
         pending <- SeqRange(heap), nops <- 0, added <- {}, rets <- <<>>, hist <- <<>>, fin <- FALSE,
         MaxOps <- 0, Hist <- FALSE, Rec <- FALSE
Refines == Abs!Init /\ [][Abs!Next]_(Abs!vars)
=============================================================================
