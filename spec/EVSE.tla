-------------------------------- MODULE EVSE --------------------------------
(***************************************************************************)
(* One charging station (acnportal/acnsim/models/evse.py: EVSE,            *)
(* DeadbandEVSE, FiniteRatesEVSE) with an optional connected EV carrying   *)
(* an ideal Battery.  Actions are the public calls plugin, unplug and       *)
(* set_pilot; a refused call (StationOccupiedError, InvalidRateError) is an *)
(* action that changes nothing; RoundTrip is a JSON dump + load of the     *)
(* station (with its EV and battery), the identity on the abstract state.  *)
(*                                                                         *)
(* Units: current in 1e-4 A (so the 1e-3 A tolerance is exactly 10), V, min,*)
(* energy in 1e-4 W*min.                                                   *)
(***************************************************************************)
EXTENDS EVSEDefs, TLC, Json

CONSTANTS
    Kinds,      \* set of EVSE descriptions:
                \*   [cls |-> "cont", min, max] | [cls |-> "deadband", end, max]
                \*   | [cls |-> "finite", levels (a sequence as given by the user: unsorted, duplicates, maybe no 0)]
    Offsets,    \* pilots probed are boundary + offset (1e-4 A)
    Extra,      \* further pilots (interior points, negative values)
    V, T,       \* voltage, period
    EVs,        \* EV battery descriptions [cap, init, pw] (energies in W*min, power in W)
    MaxOps,
    Rec


VARIABLES kind, occ, pilot, evE, chg, nops, last, hist
vars == <<kind, occ, pilot, evE, chg, nops, last, hist>>

Min2(a, b) == IF a <= b THEN a ELSE b

Bounds(k) == Allowable(k) \cup {0}
Probes(k) == {b + o : b \in Bounds(k), o \in Offsets} \cup Extra

\* ideal battery, energy in 1e-4 W*min
Charge(ev, c, p) == Min2(Min2(p * V * T, ev.pw * T * 10000), ev.cap * 10000 - c)

Log(r) == IF Rec THEN Append(hist, r) ELSE hist

Init ==
    /\ kind \in Kinds
    /\ occ = 0 /\ pilot = 0 /\ evE = 0 /\ chg = 0 /\ nops = 0 /\ last = "none"
    /\ hist = <<>>

Plugin(e) ==
    /\ nops < MaxOps /\ e \in 1..Len(EVs)
    /\ nops' = nops + 1
    /\ IF occ = 0
       THEN /\ occ' = e /\ evE' = 0 /\ chg' = EVs[e].init * 10000 /\ last' = "ok"
            /\ UNCHANGED pilot
       ELSE /\ last' = "occupied" /\ UNCHANGED <<occ, evE, chg, pilot>>      \* StationOccupiedError
    /\ hist' = Log([op |-> "plugin", ev |-> e, res |-> last', occ |-> occ', pilot |-> pilot',
                    evE |-> evE', chg |-> chg'])
    /\ UNCHANGED kind

Unplug ==
    /\ nops < MaxOps /\ nops' = nops + 1
    /\ occ' = 0 /\ pilot' = 0 /\ last' = "ok"
    /\ UNCHANGED <<evE, chg, kind>>
    /\ hist' = Log([op |-> "unplug", res |-> "ok", occ |-> 0, pilot |-> 0, evE |-> evE, chg |-> chg])

SetPilot(p) ==
    /\ nops < MaxOps /\ nops' = nops + 1
    \* accepted negative pilots (within the tolerance of 0) are only probed on a vacant station:
    \* what a battery does with a negative pilot is outside the property
    /\ occ = 0 \/ p >= 0 \/ ~Valid(kind, p)
    /\ IF Valid(kind, p)
       THEN /\ pilot' = p /\ last' = "ok"
            /\ IF occ # 0 /\ p >= 0
               THEN LET E == Charge(EVs[occ], chg, p) IN evE' = evE + E /\ chg' = chg + E
               ELSE UNCHANGED <<evE, chg>>
       ELSE /\ last' = "invalid" /\ UNCHANGED <<pilot, evE, chg>>               \* InvalidRateError
    /\ hist' = Log([op |-> "set_pilot", p |-> p, res |-> last', occ |-> occ, pilot |-> pilot',
                    evE |-> evE', chg |-> chg'])
    /\ UNCHANGED <<kind, occ>>

\* A pilot that is not a number at all (NaN), or infinite: it lies in no allowable set of a station with finite
\* limits, so it is refused like any other invalid pilot and nothing changes.
Specials == {"nan", "inf", "-inf"}
SetSpecial(x) ==
    /\ nops < MaxOps /\ nops' = nops + 1 /\ x \in Specials
    /\ last' = "invalid" /\ UNCHANGED <<kind, occ, pilot, evE, chg>>
    /\ hist' = Log([op |-> "set_pilot", special |-> x, p |-> 0, res |-> "invalid", occ |-> occ, pilot |-> pilot,
                    evE |-> evE, chg |-> chg])
DoSetSpecial == \E x \in Specials : SetSpecial(x)

\* evse := type(evse).from_json(evse.to_json()); the caller goes on with the loaded object.  It is the same station:
\* same kind (so it accepts and advertises exactly what the original did), same occupant, pilot and energies.
RoundTrip ==
    /\ nops < MaxOps /\ nops' = nops + 1 /\ last' = "ok"
    /\ UNCHANGED <<kind, occ, pilot, evE, chg>>
    /\ hist' = Log([op |-> "round_trip", res |-> "ok", occ |-> occ, pilot |-> pilot, evE |-> evE, chg |-> chg])

Finish ==
    /\ nops = MaxOps /\ last # "emitted"
    /\ IF Rec THEN PrintT(<<"BHV", ToJson([kind |-> kind, evs |-> EVs, v |-> V, t |-> T,
                                           max |-> MaxRate(kind), min |-> MinRate(kind),
                                           allow |-> Allowable(kind), cont |-> Continuous(kind),
                                           ops |-> hist])>>)
       ELSE TRUE
    /\ last' = "emitted"
    /\ UNCHANGED <<kind, occ, pilot, evE, chg, nops, hist>>

Terminated == last = "emitted" /\ UNCHANGED vars

DoPlugin == \E e \in 1..Len(EVs) : Plugin(e)
DoSetPilot == \E p \in Probes(kind) : SetPilot(p)     \* named so that -coverage reports it
Next ==
    \/ DoPlugin
    \/ Unplug
    \/ DoSetPilot
    \/ DoSetSpecial
    \/ RoundTrip
    \/ Finish \/ Terminated

Spec == Init /\ [][Next]_vars

-----------------------------------------------------------------------------
\* C13
AdvertisedAccepted ==       \* every advertised maximum / allowable value is itself accepted; 0 is
    /\ \A a \in Allowable(kind) : Valid(kind, a)
    /\ Valid(kind, MaxRate(kind))
    /\ kind.cls # "cont" => Valid(kind, 0)
    /\ kind.cls = "finite" => 0 \in Allowable(kind)
PilotIsValid == Valid(kind, pilot) \/ pilot = 0        \* the station never holds a pilot it would refuse
RejectChangesNothing == [][last' = "invalid" => UNCHANGED <<occ, pilot, evE, chg>>]_vars
OccupiedRefused == [][last' = "occupied" => UNCHANGED <<occ, pilot, evE, chg>>]_vars
EnergyMonotone == [][evE' >= evE \/ (occ = 0 /\ occ' # 0)]_vars
=============================================================================
