-------------------------- MODULE MC_EventQueueHeap --------------------------
(* Model-checking wrapper of EventQueueHeap.tla (same argument menus as MC_EventQueue.tla). *)
EXTENDS EventQueueHeap

KindsAll == {"Unplug", "Plugin", "Recompute"}
Ts2 == 0..2
EvArg(T) == [ts : T, kind : KindsAll]
BatchesPairs2 == {<<>>} \cup {<<a, b>> : a \in EvArg(Ts2), b \in EvArg(Ts2)}
                 \cup {<< [ts |-> 2, kind |-> "Unplug"], [ts |-> 1, kind |-> "Recompute"], [ts |-> 0, kind |-> "Plugin"] >>,
                       << [ts |-> 1, kind |-> "Recompute"], [ts |-> 1, kind |-> "Plugin"], [ts |-> 1, kind |-> "Unplug"] >>}
=============================================================================
