----------------------------- MODULE MC_Network -----------------------------
(***************************************************************************)
(* Model-checking wrapper of Network: constants as definitions.            *)
(* Currents in 1e-4 A, voltages in V, energies in W*min (EVs) - see        *)
(* Network.tla.  One period at 8 A / 208 V / 5 min delivers 8320 W*min;    *)
(* 32 A at 240 V is 7680 W, more than the 7000 W of the larger batteries   *)
(* (power-limited, rate 7000/240 A); the small battery has 1000 W*min of   *)
(* room (capacity-limited).  The requests put the remaining demand after   *)
(* such a period at 30 W*min (0.5e-3 kWh: fully charged with a positive    *)
(* remainder) or 120 W*min (2e-3 kWh: still active) - both 30 W*min or     *)
(* more from the 60 W*min threshold: decisive.                             *)
(***************************************************************************)
EXTENDS Network

Deadband == [cls |-> "deadband", end |-> 60000, max |-> 320000]
Finite   == [cls |-> "finite", levels |-> <<320000, 80000, 80000, 160000>>]   \* unsorted, duplicate, no 0
ContLow  == [cls |-> "cont", min |-> 0, max |-> 320000]
ContMin  == [cls |-> "cont", min |-> 60000, max |-> 160000]                   \* refuses 0, also when vacant

PoolTwo    == << [kind |-> Deadband, v |-> 208, ang |-> 0],   [kind |-> Finite, v |-> 240, ang |-> -120] >>
PoolThreeA == << [kind |-> Deadband, v |-> 208, ang |-> 0],   [kind |-> Finite, v |-> 240, ang |-> -120],
                 [kind |-> ContLow, v |-> 277, ang |-> 120] >>
PoolThreeB == << [kind |-> Finite, v |-> 240, ang |-> 30],    [kind |-> ContMin, v |-> 208, ang |-> 0],
                 [kind |-> Deadband, v |-> 208, ang |-> -120] >>

EVsTwo   == << [cap |-> 100000, init |-> 20000, pw |-> 7000, req |-> 8350],
               [cap |-> 30000,  init |-> 29000, pw |-> 3000, req |-> 1120] >>
EVsThree == << [cap |-> 100000, init |-> 20000, pw |-> 7000, req |-> 8350],
               [cap |-> 30000,  init |-> 29000, pw |-> 3000, req |-> 1030],
               [cap |-> 100000, init |-> 0,     pw |-> 7000, req |-> 8440] >>

\* 0, 3 A (refused by every kind but ContLow), 8 A, 32 A
MenuFour == {0, 30000, 80000, 320000}
\* ... + 16 A and 40 A (refused by every kind)
MenuSix  == {0, 30000, 80000, 160000, 320000, 400000}
MenuFive == {0, 30000, 80000, 160000, 320000}

PeriodsOne == {5}
PeriodsTwo == {5, 3}

\* every injective sequence of stations
InjSeqs(n) == UNION {{q \in [1..k -> 1..n] : Injective(q)} : k \in 0..n}
RegsAll == InjSeqs(NS)
RegsFull == {q \in InjSeqs(NS) : Len(q) >= NS - 1}
StaAll == [Cars -> Names]
\* a few initial situations for the quick tier / the deeper exhaustive generation (2 stations, 2 EVs)
RegsFew == {<<2, 1>>, <<1>>}
StaFew == {<<1, 2>>, <<1, 1>>, <<2, 3>>}
RegsOne == {<<2, 1>>}
StaOne == {<<1, 2>>}

\* salts per call form: one each (model checking, exhaustive generation; steering off) ...
WtOne == [register |-> {0}, plugin |-> {0}, plugin2 |-> {0}, unplug |-> {0}, unplugdep |-> {0}, getev |-> {0},
          update |-> {0}, post |-> {0}, retarget |-> {0}, pluginfree |-> {}, unplugright |-> {}, retargetreg |-> {}]
\* ... and the weights of sampled behaviours on 3 stations / 3 EVs (action instances: update 2x15, plugin 9+9,
\* plugin2 12, unplug 16+12, unplug_dep 4, get_ev 4, post 2, retarget 12+9, register 6)
WtSim == [register |-> 0..1, plugin |-> 0..2, plugin2 |-> {0}, unplug |-> {0}, unplugdep |-> {0}, getev |-> {0},
          update |-> 0..14, post |-> 0..1, retarget |-> {0}, pluginfree |-> 0..2, unplugright |-> 0..5,
          retargetreg |-> {0}]

PickAll(S) == S
PickOne(S) == {RandomElement(S)}

\* model checking: the history variable does not exist (Rec = FALSE), Forms do not multiply states
View == <<Core, nops, last, warn, ref>>
=============================================================================
