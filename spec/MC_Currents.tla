----------------------------- MODULE MC_Currents -----------------------------
(***************************************************************************)
(* Constants of Currents.tla as definitions: station universe, schedule    *)
(* matrix, and the menus of Current expression trees (depth <= 2).         *)
(***************************************************************************)
EXTENDS Currents

\* scalars n/d: the harness uses the Python int n when d = 1 and the float n/d otherwise
K2 == [n |-> 2, d |-> 1]
K3 == [n |-> 3, d |-> 1]
KM == [n |-> -1, d |-> 1]
KH == [n |-> 1, d |-> 2]
KQ == [n |-> 3, d |-> 2]

UniverseAll == {"s1", "s2", "s3", "s4"}
\* schedule matrix (A), one row per station, NT = 3 periods; rows are handed to the network in ITS station order
SchedAll == [s1 |-> <<3, 5, 7>>, s2 |-> <<11, 13, 17>>, s3 |-> <<19, 23, 29>>, s4 |-> <<31, 37, 41>>]
TimesAll == {<<>>, <<0>>, <<1, 2>>, <<0, 2>>, <<0, 0, 2>>}          \* <<>> = None (all periods); a period may be asked for twice
TimesTwo == {<<>>, <<0, 2>>, <<0, 0, 2>>}

\* registration orders; "s4" is usually not registered, so currents mentioning it are refused (KeyError)
InitOne == {<<"s2", "s3", "s1">>}
InitMC == {<<"s2", "s3", "s1">>, <<"s1", "s2">>}
InitAll == {<<"s2", "s3", "s1">>, <<"s1", "s2">>, <<"s3", "s1", "s4", "s2">>, <<"s3">>, <<"s1", "s2", "s3">>}

LimitsOne == {32}
LimitsTwo == {16, 40}
NamesAdd == {"", "c1", "_const_1"}     \* "" = default name; "_const_1" collides with a default name
NamesAddTwo == {"", "c1"}
NamesNew == {"", "c1", "_const_0"}
NamesNewTwo == {"", "c1"}

\* ---- the core menu: one expression per operator shape ---------------------------------
A1 == EStr("s1")
A2 == ELst(<<"s2", "s1">>)
A3 == EDct(<<<<"s3", 4>>, <<"s1", -8>>>>)                     \* {"s3": 0.5, "s1": -1}
\* the first four are also offered to update_constraint
CoreMenu == <<
    A2, ENone,
    EAdd(A2, ELMul(K2, EStr("s3"))),                          \* a + 2*b
    ESub(ELMul(K2, A2), EStr("s3")),                          \* 2*a - b
    A1, A3,
    ELMul(K2, A2),                                            \* 2 * a
    ERMul(A3, KH),                                            \* a * 0.5
    EAdd(A1, ELst(<<"s3", "s2">>)),                           \* a + b
    ESub(ELst(<<"s1", "s2", "s3">>), EStr("s2")),             \* a - b
    EAdd(ERMul(EStr("s3"), K2), A2),                          \* b*2 + a
    ESub(A1, ERMul(ELst(<<"s2">>), KH)),                      \* a - b*0.5
    ELMul(KH, EAdd(A1, EStr("s2"))),                          \* 0.5 * (a + b)
    EStr("s4") >>                                             \* unknown station (unless registered)
MenusCore == {CoreMenu}
\* a tiny menu for long call sequences (the variety of expressions matters per call, not per sequence)
MenusTiny == {<< ELMul(KH, EAdd(A1, EStr("s2"))), A2, ESub(ELMul(K2, A3), A1), EStr("s4") >>}
TimesOne == {<<0, 2>>}

InitSim == {<<"s2", "s3", "s1">>, <<"s1", "s2", "s3">>, <<"s3", "s1", "s4", "s2">>, <<"s2", "s1">>}
=============================================================================
