--------------------------- MODULE DataClientTwo ---------------------------
(***************************************************************************)
(* TWO get_sessions generators of ONE DataClient object whose consumption  *)
(* overlaps (a caller merging the caltech and jpl streams, or starting one *)
(* query, running another, and coming back to the first).                   *)
(*                                                                         *)
(* DataClient.tla models one generator in full detail (query strings,      *)
(* links, documents, laziness); this module models only what a second      *)
(* generator adds: INTERLEAVING.  Each generator g has its own result set  *)
(* 1..Total(g) cut into pages sizes[g]; one action Pull(g) is one          *)
(* `next(gen_g)` of the consumer: the generator body runs (first request,  *)
(* then zero or more `next` links over empty pages) until it yields the    *)
(* next document or stops.  The consumer may pull the two generators in    *)
(* ANY order; TLC enumerates every order for every pair of pagings.        *)
(*                                                                         *)
(* What must hold (C20: "for any paging ... yields every session exactly   *)
(* once, in server order, following next links until none remains") for    *)
(* EACH generator, whatever the other one does in between.                 *)
(***************************************************************************)
EXTENDS Integers, Sequences, FiniteSets, SequencesExt, TLC, Json

CONSTANTS MaxPages, MaxPageSize, Rec

G == {1, 2}
Pagings == UNION {[1..n -> 0..MaxPageSize] : n \in 1..MaxPages}

VARIABLES
    sizes,  \* sizes[g]: the server's paging of g's result set (fixed per behaviour)
    cur,    \* cur[g]: number of the page generator g holds (0: none yet)
    pos,    \* pos[g]: documents of that page already yielded
    out,    \* out[g]: documents g has yielded (indices into its own result set)
    done,   \* done[g]: g has raised StopIteration
    reqs,   \* HTTP requests issued so far, <<g, page>> in order
    fin,    \* the behaviour has been emitted
    hist    \* one record per Pull (only when Rec)
vars == <<sizes, cur, pos, out, done, reqs, fin, hist>>

\* (a fold, not a RECURSIVE definition: the deep result set below has 1200 pages)
SumTo(g, k) == FoldLeft(LAMBDA a, b : a + b, 0, SubSeq(sizes[g], 1, k))
NP(g) == Len(sizes[g])
Total(g) == SumTo(g, NP(g))

\* the generator body from (page c, position p) until it answers the consumer
RECURSIVE Run(_, _, _, _)
Run(g, c, p, fetched) ==
    IF c = 0 THEN Run(g, 1, 0, Append(fetched, 1))                                  \* first request
    ELSE IF p < sizes[g][c]
         THEN [kind |-> "yield", cur |-> c, pos |-> p + 1, doc |-> SumTo(g, c - 1) + p + 1, fetched |-> fetched]
    ELSE IF c < NP(g) THEN Run(g, c + 1, 0, Append(fetched, c + 1))                 \* follow `next`
    ELSE [kind |-> "stop", cur |-> c, pos |-> p, doc |-> 0, fetched |-> fetched]    \* no `next`: done

Init ==
    /\ sizes \in [G -> Pagings]
    /\ cur = [g \in G |-> 0] /\ pos = [g \in G |-> 0] /\ out = [g \in G |-> <<>>]
    /\ done = [g \in G |-> FALSE] /\ reqs = <<>> /\ fin = FALSE /\ hist = <<>>

Pull(g) ==
    /\ ~done[g] /\ ~fin
    /\ LET r == Run(g, cur[g], pos[g], <<>>) IN
       /\ cur' = [cur EXCEPT ![g] = r.cur] /\ pos' = [pos EXCEPT ![g] = r.pos]
       /\ out' = [out EXCEPT ![g] = IF r.kind = "yield" THEN Append(@, r.doc) ELSE @]
       /\ done' = [done EXCEPT ![g] = r.kind = "stop"]
       /\ reqs' = reqs \o [i \in 1..Len(r.fetched) |-> <<g, r.fetched[i]>>]
       /\ hist' = IF Rec THEN Append(hist, [g |-> g, kind |-> r.kind, doc |-> r.doc, fetched |-> r.fetched]) ELSE hist
    /\ UNCHANGED <<sizes, fin>>

\* the consumer may stop pulling at any time (a generator that is never resumed); the behaviour is emitted
Finish ==
    /\ ~fin /\ fin' = TRUE
    /\ IF Rec THEN PrintT(<<"BHV", ToJson([sizes |-> sizes, pulls |-> hist, out |-> out, done |-> done,
                                           reqs |-> reqs])>>) ELSE TRUE
    /\ UNCHANGED <<sizes, cur, pos, out, done, reqs, hist>>

Terminated == fin /\ UNCHANGED vars
Next == (\E g \in G : Pull(g)) \/ Finish \/ Terminated
Spec == Init /\ [][Next]_vars
\* a consumer that keeps pulling both generators (in any fair order) and only stops when both have ended
NextPulling == (\E g \in G : Pull(g)) \/ ((\A g \in G : done[g]) /\ Finish) \/ Terminated
FairSpec == Init /\ [][NextPulling]_vars /\ \A g \in G : WF_vars(Pull(g))

\* A DEEP result set: generator 1 walks DeepPages pages of one document each (a time-series download: one session
\* per page), generator 2 has nothing; the consumer drains 2, then 1.  One behaviour, DeepPages + 3 states: the number
\* of pages a generator can follow is not bounded by anything but the server.
DeepPages == 1200
DeepInit ==
    /\ sizes = (1 :> [i \in 1..DeepPages |-> 1]) @@ (2 :> <<0>>)
    /\ cur = [g \in G |-> 0] /\ pos = [g \in G |-> 0] /\ out = [g \in G |-> <<>>]
    /\ done = [g \in G |-> FALSE] /\ reqs = <<>> /\ fin = FALSE /\ hist = <<>>
DeepNext == (IF ~done[2] THEN Pull(2) ELSE Pull(1)) \/ ((\A g \in G : done[g]) /\ Finish) \/ Terminated
DeepSpec == DeepInit /\ [][DeepNext]_vars

-----------------------------------------------------------------------------
Ids(n) == [i \in 1..n |-> i]
\* every generator yields a prefix of ITS OWN result set, in server order, nothing twice ...
OwnPrefix == \A g \in G : out[g] = Ids(Len(out[g])) /\ Len(out[g]) <= Total(g)
\* ... and all of it by the time it stops
CompleteAtStop == \A g \in G : done[g] => out[g] = Ids(Total(g))
\* it asks for exactly the pages it has visited, each once, in order, and never one beyond what it needs
PagesOf(g) == SelectSeq(reqs, LAMBDA r : r[1] = g)
OneRequestPerPage == \A g \in G : PagesOf(g) = [i \in 1..cur[g] |-> <<g, i>>]
Lazy == \A g \in G : (cur[g] > 0 /\ ~done[g]) => SumTo(g, cur[g] - 1) < Len(out[g]) \/ Len(out[g]) = 0 \/ pos[g] > 0
\* stopping happens only on the last page
StopOnlyAtEnd == \A g \in G : done[g] => cur[g] = NP(g)
\* both generators finish whatever the interleaving (liveness, under fairness of the consumer)
BothFinish == <>(\A g \in G : done[g])
=============================================================================
