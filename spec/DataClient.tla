----------------------------- MODULE DataClient -----------------------------
(***************************************************************************)
(* The ACN-Data API client (acnportal/acndata/data_client.py: DataClient)  *)
(* talking to a paginating server (the API is a Python-Eve service).       *)
(*                                                                         *)
(* SERVER.  The result set of a query is the documents 1..N in server      *)
(* order, cut into NP >= 1 pages of sizes[k] >= 0 documents (an empty      *)
(* result set is ONE empty page; pages in the middle may be empty).  The   *)
(* response for page k carries `_items` (the documents of the page) and    *)
(* `_links`: always parent and self, `prev` for k > 1, and `next` and      *)
(* `last` exactly when k < NP.  `_links.next.href` is the query of the     *)
(* first request with `&page=k+1` appended, relative to the API base.      *)
(* The server is stateless: what a GET returns is a function of its URL.   *)
(*                                                                         *)
(* CLIENT.  `call` is one invocation of the public API:                    *)
(*   get_sessions(site, cond, project, sort, timeseries)      -> generator *)
(*   get_sessions_by_time(site, start, end, min_energy, timeseries, count) *)
(*                    -> the same generator with a time-window condition,  *)
(*                       or count_sessions(...) when count is set          *)
(*   count_sessions(site, cond)                   -> one HEAD request      *)
(* The generator is driven by its consumer: Pull is `next(gen)`, and the   *)
(* generator then runs (First | Follow)* until it answers with Yield       *)
(* (one document, dates converted), Stop (StopIteration) or Reject         *)
(* (ValueError for an unknown site - raised when the body first runs,      *)
(* before any request).  The consumer may Abandon (`gen.close()`) the      *)
(* generator whenever it is not running.  One action per critical section  *)
(* of the loop in get_sessions:                                            *)
(*      r = requests.get(first url)                      First             *)
(*      while True:                                                        *)
(*          for s in payload["_items"]: parse_dates(s); yield s    Yield   *)
(*          if "next" in payload["_links"]: r = requests.get(..)   Follow  *)
(*          else: break                                            Stop    *)
(*                                                                         *)
(* Documents are identified by their index in Docs; what a yielded         *)
(* document must look like (every RFC-1123 field an aware datetime in the  *)
(* document's zone) is DocTable, computed with DataClientTime.             *)
(*                                                                         *)
(* Optional values: None == <<>>, Some(x) == <<x>>.                        *)
(***************************************************************************)
EXTENDS DataClientTime, FiniteSets, SequencesExt, Json

CONSTANTS
    MaxPages,       \* 1..MaxPages responses
    MaxPageSize,    \* 0..MaxPageSize documents per page
    Calls,          \* set of call records, see MC_DataClient.tla
    Docs,           \* sequence of document descriptions [zone, conn, disc, done, mod, req, cc, ps]
                    \*   (instants; done, cc, ps optional; cc, ps sequences of instants = time series)
    Base,           \* API base url
    Rec             \* record and emit behaviours

ASSUME MaxPages * MaxPageSize <= Len(Docs)

None == <<>>
Some(x) == <<x>>
IsSome(o) == o # <<>>
Val(o) == o[1]

ValidSites == {"caltech", "jpl", "office001"}

VARIABLES
    sizes,      \* the server's paging of the result set (fixed per behaviour)
    call,       \* the invocation (fixed per behaviour)
    pc,         \* "created" | "running" | "suspended" | "done" | "rejected" | "closed" | "counted"
    demand,     \* the consumer has called next() and the generator has not answered yet
    cur,        \* number of the page the generator holds (0: none yet)
    pos,        \* documents of page cur already yielded
    out,        \* documents yielded so far (indices into Docs)
    reqs,       \* HTTP requests issued so far
    result,     \* value returned by count_sessions
    emitted,    \* bookkeeping of Finish
    hist        \* history of actions (only when Rec)
vars == <<sizes, call, pc, demand, cur, pos, out, reqs, result, emitted, hist>>

-----------------------------------------------------------------------------
(* strings *)
JoinWith(seq, sep) == IF seq = <<>> THEN "" ELSE FoldLeft(LAMBDA acc, x : acc \o sep \o x, seq[1], Tail(seq))

-----------------------------------------------------------------------------
(* server *)
NP == Len(sizes)
SumTo(k) == FoldLeft(LAMBDA a, b : a + b, 0, SubSeq(sizes, 1, k))
Total == SumTo(NP)
Page(k) == [i \in 1..sizes[k] |-> SumTo(k - 1) + i]
AllIds == [i \in 1..Total |-> i]                    \* = Page(1) \o ... \o Page(NP)
HasNext(k) == k < NP
PagesNeeded(n) == CHOOSE k \in 1..NP : SumTo(k) >= n /\ \A j \in 1..(k - 1) : SumTo(j) < n

-----------------------------------------------------------------------------
(* query construction *)

\* http_date(dt) of an aware datetime: the RFC-1123 text of its instant
HttpDate(a) == FormatLocal(ToLocal(a.zone, a.t))

\* get_sessions_by_time: the conditions, in this order, joined by " and ".
\* (The energy clause is strict, as in the code; the docstring of min_energy says "greater than or
\* equal".  C20 does not speak about it, so the specification follows the code here.)
Clauses(c) ==
    (IF IsSome(c.start) THEN << "connectionTime >= \"" \o HttpDate(Val(c.start)) \o "\"" >> ELSE <<>>)
    \o (IF IsSome(c.end) THEN << "connectionTime <= \"" \o HttpDate(Val(c.end)) \o "\"" >> ELSE <<>>)
    \o (IF IsSome(c.minE) THEN << "kWhDelivered > " \o ToString(Val(c.minE)) >> ELSE <<>>)
WindowCond(c) == JoinWith(Clauses(c), " and ")       \* "" when no bound is given

IsCount(c) == c.api = "count_sessions" \/ (c.api = "get_sessions_by_time" /\ c.count)

\* the arguments get_sessions / count_sessions finally work with
Eff(c) ==
    IF c.api = "get_sessions_by_time"
    THEN [cond |-> Some(WindowCond(c)), project |-> None, sort |-> Some("connectionTime"), ts |-> c.ts]
    ELSE [cond |-> c.cond, project |-> c.project, sort |-> c.sort, ts |-> c.ts]

Limit(e) == IF e.ts THEN 1 ELSE 100                  \* page size asked for: time series come one per page
Path(c) == "sessions/" \o c.site \o (IF Eff(c).ts THEN "/ts/" ELSE "")
Opt(name, o) == IF IsSome(o) THEN << <<name, Val(o)>> >> ELSE <<>>
Params(c) ==
    LET e == Eff(c) IN
    Opt("where", e.cond) \o Opt("project", e.project) \o Opt("sort", e.sort)
    \o << <<"max_results", ToString(Limit(e))>> >>
QueryString(ps) == JoinWith([i \in 1..Len(ps) |-> ps[i][1] \o "=" \o ps[i][2]], "&")

FirstReq(c) ==
    [method |-> "GET", url |-> Base \o Path(c) \o "?" \o QueryString(Params(c)),
     path |-> Path(c), params |-> Params(c)]

\* the link the server puts into page k (k < NP), and the request that follows it
NextHref(c, k) == Path(c) \o "?" \o QueryString(Params(c)) \o "&page=" \o ToString(k + 1)
FollowReq(c, k) ==
    [method |-> "GET", url |-> Base \o NextHref(c, k),
     path |-> Path(c), params |-> Params(c) \o << <<"page", ToString(k + 1)>> >>]

CountParams(c) ==
    Opt("where", IF c.api = "count_sessions" THEN c.cond ELSE Some(WindowCond(c))) \o << <<"limit", "1">> >>
CountReq(c) ==
    [method |-> "HEAD", url |-> Base \o "sessions/" \o c.site \o "?" \o QueryString(CountParams(c)),
     path |-> "sessions/" \o c.site, params |-> CountParams(c)]

-----------------------------------------------------------------------------
(* documents: what the server sends (texts) and what the client must yield (aware local datetimes) *)
Conv(z, i) ==
    LET L == ParseIn(Format(i), z) IN
    [text |-> Format(i), t |-> i, y |-> L.y, m |-> L.m, d |-> L.d, h |-> L.h, mi |-> L.mi, s |-> L.s, off |-> L.off]
ConvOpt(z, o) == IF IsSome(o) THEN Some(Conv(z, Val(o))) ELSE None
ConvSeries(z, o) == IF IsSome(o) THEN Some([k \in 1..Len(Val(o)) |-> Conv(z, Val(o)[k])]) ELSE None
DocTable ==
    [i \in 1..Len(Docs) |->
        LET D == Docs[i] IN
        [id |-> i, zone |-> D.zone,
         connectionTime |-> Conv(D.zone, D.conn), disconnectTime |-> Conv(D.zone, D.disc),
         doneChargingTime |-> ConvOpt(D.zone, D.done),
         modifiedAt |-> Conv(D.zone, D.mod), requestedDeparture |-> Conv(D.zone, D.req),
         \* the two time series exist on the /ts/ endpoint only
         chargingCurrent |-> ConvSeries(D.zone, D.cc), pilotSignal |-> ConvSeries(D.zone, D.ps)]]
\* every conversion in the table satisfies the C20 time theorems
DocInstants(D) == {D.conn, D.disc, D.mod, D.req}
                  \cup (IF IsSome(D.done) THEN {Val(D.done)} ELSE {})
                  \cup (IF IsSome(D.cc) THEN {Val(D.cc)[k] : k \in 1..Len(Val(D.cc))} ELSE {})
                  \cup (IF IsSome(D.ps) THEN {Val(D.ps)[k] : k \in 1..Len(Val(D.ps))} ELSE {})
ASSUME \A i \in 1..Len(Docs) : \A x \in DocInstants(Docs[i]) :
            InModel(Docs[i].zone, x) /\ InModel(Docs[i].zone, x + 1) /\ TimeTheorems(Docs[i].zone, x)
ASSUME Rec => PrintT(<<"DOCS", ToJson(DocTable)>>)

-----------------------------------------------------------------------------
Log(r) == IF Rec THEN Append(hist, r) ELSE hist

PageStructures == UNION {[1..n -> 0..MaxPageSize] : n \in 1..MaxPages}

Init ==
    /\ sizes \in PageStructures
    /\ call \in Calls
    /\ pc = "created" /\ demand = FALSE /\ cur = 0 /\ pos = 0
    /\ out = <<>> /\ reqs = <<>> /\ result = None /\ emitted = FALSE /\ hist = <<>>

\* consumer: next(gen)
Pull ==
    /\ ~IsCount(call) /\ ~demand /\ pc \in {"created", "suspended"}
    /\ demand' = TRUE
    /\ pc' = IF pc = "suspended" THEN "running" ELSE pc
    /\ hist' = Log([a |-> "Pull"])
    /\ UNCHANGED <<sizes, call, cur, pos, out, reqs, result, emitted>>

\* the body starts: site check ...
Reject ==
    /\ demand /\ pc = "created" /\ call.site \notin ValidSites
    /\ pc' = "rejected" /\ demand' = FALSE
    /\ hist' = Log([a |-> "Reject", nreq |-> Len(reqs)])
    /\ UNCHANGED <<sizes, call, cur, pos, out, reqs, result, emitted>>

\* ... and the initial GET
First ==
    /\ demand /\ pc = "created" /\ call.site \in ValidSites
    /\ reqs' = Append(reqs, FirstReq(call))
    /\ cur' = 1 /\ pos' = 0 /\ pc' = "running"
    /\ hist' = Log([a |-> "First", nreq |-> Len(reqs')])
    /\ UNCHANGED <<sizes, call, demand, out, result, emitted>>

Yield ==
    /\ demand /\ pc = "running" /\ pos < sizes[cur]
    /\ out' = Append(out, Page(cur)[pos + 1])
    /\ pos' = pos + 1
    /\ pc' = "suspended" /\ demand' = FALSE
    /\ hist' = Log([a |-> "Yield", doc |-> Page(cur)[pos + 1], nreq |-> Len(reqs)])
    /\ UNCHANGED <<sizes, call, cur, reqs, result, emitted>>

Follow ==
    /\ demand /\ pc = "running" /\ pos = sizes[cur] /\ HasNext(cur)
    /\ reqs' = Append(reqs, FollowReq(call, cur))
    /\ cur' = cur + 1 /\ pos' = 0
    /\ hist' = Log([a |-> "Follow", nreq |-> Len(reqs')])
    /\ UNCHANGED <<sizes, call, pc, demand, out, result, emitted>>

Stop ==
    /\ demand /\ pc = "running" /\ pos = sizes[cur] /\ ~HasNext(cur)
    /\ pc' = "done" /\ demand' = FALSE
    /\ hist' = Log([a |-> "Stop", nreq |-> Len(reqs)])
    /\ UNCHANGED <<sizes, call, cur, pos, out, reqs, result, emitted>>

\* consumer: gen.close() (or the generator is simply dropped)
Abandon ==
    /\ ~IsCount(call) /\ ~demand /\ pc \in {"created", "suspended"}
    /\ pc' = "closed"
    /\ hist' = Log([a |-> "Abandon", nreq |-> Len(reqs)])
    /\ UNCHANGED <<sizes, call, demand, cur, pos, out, reqs, result, emitted>>

\* count_sessions is an ordinary function: site check, one HEAD request, the x-total-count header
Count ==
    /\ IsCount(call) /\ pc = "created"
    /\ IF call.site \in ValidSites
       THEN /\ reqs' = Append(reqs, CountReq(call)) /\ result' = Some(Total) /\ pc' = "counted"
       ELSE /\ pc' = "rejected" /\ UNCHANGED <<reqs, result>>
    /\ hist' = Log([a |-> "Count", nreq |-> Len(reqs')])
    /\ UNCHANGED <<sizes, call, demand, cur, pos, out, emitted>>

Terminal == pc \in {"done", "rejected", "closed", "counted"}

Finish ==
    /\ Terminal /\ ~emitted /\ emitted' = TRUE
    /\ IF Rec
       THEN PrintT(<<"BHV", ToJson([kind |-> "protocol", sizes |-> sizes, call |-> call, base |-> Base,
                                     count |-> IsCount(call), ts |-> Eff(call).ts,
                                     pages |-> [k \in 1..NP |-> Page(k)],
                                     first |-> FirstReq(call).url,
                                     hrefs |-> [k \in 1..(NP - 1) |-> NextHref(call, k)],
                                     limit |-> Limit(Eff(call)), total |-> Total,
                                     reqs |-> reqs, out |-> out, final |-> pc, result |-> result,
                                     steps |-> hist])>>)
       ELSE TRUE
    /\ UNCHANGED <<sizes, call, pc, demand, cur, pos, out, reqs, result, hist>>

Terminated == emitted /\ UNCHANGED vars

Next == Pull \/ Reject \/ First \/ Yield \/ Follow \/ Stop \/ Abandon \/ Count \/ Finish \/ Terminated

Spec == Init /\ [][Next]_vars
FairSpec == Spec /\ WF_vars(Next)

-----------------------------------------------------------------------------
(* C20, first sentence *)

\* every session at most once and in server order, at every moment (IsPrefix: SequencesExt) ...
YieldedIsPrefix == IsPrefix(out, AllIds)
\* ... and all of them once the generator is exhausted; every page was visited, none twice
DoneComplete == pc = "done" => out = AllIds /\ cur = NP /\ Len(reqs) = NP
\* one request per page visited; request k > 1 is exactly the `next` link of page k - 1
RequestChain ==
    ~IsCount(call) =>
        /\ Len(reqs) = cur
        /\ \A k \in 1..Len(reqs) :
              reqs[k].url = IF k = 1 THEN FirstReq(call).url ELSE Base \o NextHref(call, k - 1)
\* the parameters that were given are the parameters that are sent (decoded form)
Lookup(ps, name) == LET I == {i \in 1..Len(ps) : ps[i][1] = name} IN IF I = {} THEN None ELSE Some(ps[CHOOSE i \in I : TRUE][2])
ParamsSent ==
    (~IsCount(call) /\ reqs # <<>>) =>
        LET ps == reqs[1].params IN
        /\ reqs[1].path = "sessions/" \o call.site \o (IF call.ts THEN "/ts/" ELSE "")
        /\ Lookup(ps, "max_results") = Some(IF call.ts THEN "1" ELSE "100")
        /\ call.api = "get_sessions" =>
              /\ Lookup(ps, "where") = call.cond
              /\ Lookup(ps, "project") = call.project
              /\ Lookup(ps, "sort") = call.sort
        /\ call.api = "get_sessions_by_time" =>
              /\ Lookup(ps, "sort") = Some("connectionTime")
              /\ Lookup(ps, "where") = Some(WindowCond(call))
\* an unknown site never causes a request or a document
InvalidSiteNoRequest == call.site \notin ValidSites => reqs = <<>> /\ out = <<>> /\ pc \in {"created", "rejected", "closed"}
RejectedOnlyInvalid == pc = "rejected" => call.site \notin ValidSites
\* laziness: nothing is requested before the consumer asks, and never a page beyond the one that
\* holds the document just handed out
Lazy ==
    /\ pc = "created" => reqs = <<>>
    /\ (pc \in {"suspended", "closed"} /\ out # <<>>) => cur = PagesNeeded(Len(out))
    /\ (pc = "closed" /\ out = <<>>) => reqs = <<>>
CountResult == pc = "counted" => result = Some(Total) /\ Len(reqs) = 1 /\ reqs[1].method = "HEAD" /\ out = <<>>

\* action properties
YieldOneAtATime == [][out' # out => (\E d \in 1..Total : out' = Append(out, d)) /\ reqs' = reqs /\ demand /\ ~demand']_vars
RequestOnlyOnDemand ==
    [][reqs' # reqs => \/ (demand /\ (cur = 0 \/ pos = sizes[cur]) /\ Len(reqs') = Len(reqs) + 1)
                       \/ IsCount(call)]_vars
NothingAfterEnd == [][Terminal => UNCHANGED <<out, reqs, pc>>]_vars

\* liveness: whatever the consumer does, the exchange ends; a consumer that keeps pulling gets everything
Termination == <>emitted
PullingConsumerGetsAll ==
    <>(pc \in {"closed", "rejected", "counted"} \/ (pc = "done" /\ out = AllIds /\ Len(reqs) = NP))
=============================================================================
