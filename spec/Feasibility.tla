----------------------------- MODULE Feasibility -----------------------------
(***************************************************************************)
(* C06 - what "a schedule is feasible" means in acnportal, in exact        *)
(* integer arithmetic.                                                     *)
(*                                                                         *)
(* Code transcribed (what it is SUPPOSED to compute, per docstrings):      *)
(*   acnsim/network/charging_network.py  constraint_current, is_feasible   *)
(*   acnsim/interface.py                 Interface.is_feasible (dict form  *)
(*                                       -> dense matrix in station order) *)
(*   algorithms/utils.py                 infrastructure_constraints_feasible*)
(*                                                                         *)
(* A network has stations 1..S (registration order), station s sits at a   *)
(* phase angle theta_s; a constraint j is a row of coefficients c[j][s]    *)
(* and a limit L_j.  For a schedule x[t][s] (period t, station s) the      *)
(* aggregate current of constraint j in period t is the phasor             *)
(*        I[j][t] = SUM_s  c[j][s] * x[t][s] * exp(i*theta_s)              *)
(* and the schedule is feasible iff for EVERY j and EVERY t                *)
(*        |I[j][t]|  <=  L_j + max(atol, rtol * L_j).                      *)
(* The "linear" relaxation ignores the angles and takes the absolute value *)
(* of every coefficient:  | SUM_s |c[j][s]| * x[t][s] |  instead of |I|.   *)
(*                                                                         *)
(* Exactness.  Everything is an integer:                                   *)
(*  - currents and limits are integers in a per-network unit (`upa` units  *)
(*    per ampere: 10^6 for the tolerance cases on collinear rows, 10 for   *)
(*    the phasor cases; the spec itself is unit free);                     *)
(*  - coefficients are n[s]/cd with one common denominator cd per network; *)
(*  - tolerances are  atol = at (units)  and  rtol = rn/rd;                *)
(*  - |I| is irrational in general, but for the angle families the code    *)
(*    base uses, (2*cd*|I|)^2 is an integer quadratic form of the three    *)
(*    per-phase sums A, B, C (stations are grouped by phase index 1,2,3):  *)
(*      "ll"  line-to-line  angles ( 30, -90, 150):  3(A-C)^2+(A-2B+C)^2   *)
(*      "ln"  line-neutral  angles (  0,-120, 120):  (2A-B-C)^2+3(B-C)^2   *)
(*      "col" all stations at one common angle    :  (2(A+B+C))^2          *)
(*    (a common rotation `rot` of all angles does not change |I|; the      *)
(*    conformance harness applies it to the real network, the spec need    *)
(*    not look at it).                                                     *)
(*                                                                         *)
(* One behaviour = one evaluated case:  Init picks a case from the lattice *)
(* spanned by the constant Nets, Eval computes the verdict, Finish emits   *)
(* the case and the verdict (one implementation test per TLC behaviour).   *)
(* The theorems at the end are checked by TLC as invariants on every case. *)
(***************************************************************************)
EXTENDS Integers, Sequences, FiniteSets, TLC, Json, SequencesExt

CONSTANTS
    Nets,       \* sequence of network descriptions, each a record
                \*   id   : name (string)
                \*   fam  : "ll" | "ln" | "col"          angle family (see above)
                \*   ang  : common angle in degrees      (family "col" only; harness)
                \*   rot  : rotation added to all angles (harness only, |I| is invariant)
                \*   ph   : <<phase index 1..3 of station s>>   (S = Len(ph))
                \*   cd   : common denominator of the coefficients (> 0)
                \*   cons : << [n |-> <<numerators n[s]>>, lim |-> L] >>   (possibly empty)
                \*   upa  : units per ampere (harness only)
                \*   sq   : TRUE  -> magnitudes are compared squared (any family, small units)
                \*          FALSE -> family "col" only: |I| = |SUM c x| is itself rational
                \*   menu : << schedule columns <<x[1..S]>> >>  a schedule is a sequence of menu columns
                \*   tols : << [at, rn, rd] >>  tolerance pairs to combine with this network
    MinT, MaxT, \* numbers of periods explored (0 = empty schedule)
    Drops,      \* sets of stations left out of the dict handed to Interface.is_feasible
    Rec         \* TRUE: Finish prints the evaluated case for the conformance harness

VARIABLES
    cs,         \* the case: network + tolerance pair + schedule + drop set + linear flag
    res,        \* the spec's answer (after Eval)
    pc          \* "picked" -> "evaluated" -> "emitted"
vars == <<cs, res, pc>>

-----------------------------------------------------------------------------
\* small arithmetic
Abs(v) == IF v < 0 THEN -v ELSE v
Max2(a, b) == IF a >= b THEN a ELSE b
Sq(v) == v * v
Idx(n) == [i \in 1..n |-> i]

NSt(c) == Len(c.ph)           \* number of stations
NT(c) == Len(c.x)             \* number of periods
NC(c) == Len(c.cons)          \* number of constraints

(***************************************************************************)
(* Interface.is_feasible receives a dict  station id -> schedule.  A       *)
(* station that is not a key contributes zeros; rows are placed in the     *)
(* network's registration order (not the dict's).  c.x holds a value for   *)
(* every station; c.drop is the set of stations absent from the dict.      *)
(* Dense(c)[t][s] is the matrix the network-side and the algorithm-side    *)
(* checkers must see.                                                      *)
(***************************************************************************)
Dense(c) == [t \in 1..NT(c) |-> [s \in 1..NSt(c) |-> IF s \in c.drop THEN 0 ELSE c.x[t][s]]]

NonNeg(c) == \A t \in 1..NT(c) : \A s \in 1..NSt(c) : Dense(c)[t][s] >= 0

-----------------------------------------------------------------------------
\* Aggregates of one constraint row n (numerators) for one schedule column col.

\* cd * (sum over the stations on phase p of c[s]*x[s])       -- signed
PhaseSum(n, col, ph, p) ==
    FoldLeft(LAMBDA acc, s : acc + (IF ph[s] = p THEN n[s] * col[s] ELSE 0), 0, Idx(Len(ph)))

\* cd * (plain signed sum of c[s]*x[s])   -- the aggregate of a collinear row up to the unit phasor
SignedSum(n, col) == FoldLeft(LAMBDA acc, s : acc + n[s] * col[s], 0, Idx(Len(n)))

\* cd * (sum of |c[s]|*x[s])              -- the linear relaxation ("absolute value of all load coefficients")
AbsCoefSum(n, col) == FoldLeft(LAMBDA acc, s : acc + Abs(n[s]) * col[s], 0, Idx(Len(n)))

\* (2*cd*|I|)^2, exactly.
Mag2K(fam, A, B, C) ==
    CASE fam = "ll"  -> 3 * Sq(A - C) + Sq(A - 2 * B + C)
      [] fam = "ln"  -> Sq(2 * A - B - C) + 3 * Sq(B - C)
      [] fam = "col" -> Sq(2 * (A + B + C))

Mag2(c, j, t) ==
    LET n == c.cons[j].n
        col == Dense(c)[t]
    IN Mag2K(c.fam, PhaseSum(n, col, c.ph, 1), PhaseSum(n, col, c.ph, 2), PhaseSum(n, col, c.ph, 3))

-----------------------------------------------------------------------------
(***************************************************************************)
(* Comparison with the limit.  tol = max(at, rn*L/rd);  bound = L + tol.   *)
(*                                                                         *)
(* RowOkSq:  M = (K*|I|)^2 integer.   |I| <= bound                         *)
(*           <=>  M <= K^2 * bound^2  <=>  M*rd^2 <= (K*(L*rd + tol*rd))^2 *)
(*           (bound >= 0 because L >= 0).  Used with small units.          *)
(* RowOkInt: N = K*|aggregate| is an INTEGER (collinear rows and the       *)
(*           linear relaxation).  N <= K*bound  <=>  N <= floor(K*bound),  *)
(*           and floor(max(a, q)) = max(a, floor(q)) for an integer a, so  *)
(*           N <= K*L + max(K*at, (K*rn*L) div rd).  Exact, and free of    *)
(*           large products: usable in 1e-6 A units.                       *)
(***************************************************************************)
TolRd(tp, L) == Max2(tp.at * tp.rd, tp.rn * L)          \* tol * rd
RowOkSq(M, K, tp, L) == M * Sq(tp.rd) <= Sq(K * (L * tp.rd + TolRd(tp, L)))
RowOkInt(N, K, tp, L) == N <= K * L + Max2(K * tp.at, (K * tp.rn * L) \div tp.rd)

\* One (constraint, period) entry of the phase-aware check: what is compared, how, and the verdict.
RowP(c, j, t) ==
    LET L == c.cons[j].lim
    IN IF c.sq
       THEN LET M == Mag2(c, j, t)
            IN [j |-> j, t |-> t, m |-> M, k |-> 2 * c.cd, sq |-> TRUE, ok |-> RowOkSq(M, 2 * c.cd, c.tol, L)]
       ELSE LET N == Abs(SignedSum(c.cons[j].n, Dense(c)[t]))       \* family "col": cd*|I|
            IN [j |-> j, t |-> t, m |-> N, k |-> c.cd, sq |-> FALSE, ok |-> RowOkInt(N, c.cd, c.tol, L)]

\* ... and of the linear relaxation.
RowL(c, j, t) ==
    LET N == Abs(AbsCoefSum(c.cons[j].n, Dense(c)[t]))
    IN [j |-> j, t |-> t, m |-> N, k |-> c.cd, sq |-> FALSE, ok |-> RowOkInt(N, c.cd, c.tol, c.cons[j].lim)]

Pairs(c) == {<<j, t>> : j \in 1..NC(c), t \in 1..NT(c)}

\* THE DEFINITION: every constraint, every period, separately.
Feasible(c) == \A p \in Pairs(c) : RowP(c, p[1], p[2]).ok
FeasibleLinear(c) == \A p \in Pairs(c) : RowL(c, p[1], p[2]).ok
Verdict(c) == IF c.lin THEN FeasibleLinear(c) ELSE Feasible(c)

\* rows in a fixed order (constraint-major) for the emitted record
RowSeq(c) == [i \in 1..(NC(c) * NT(c)) |->
                LET j == ((i - 1) \div NT(c)) + 1
                    t == ((i - 1) % NT(c)) + 1
                IN IF c.lin THEN RowL(c, j, t) ELSE RowP(c, j, t)]

-----------------------------------------------------------------------------
NoRes == [feas |-> FALSE, feasP |-> FALSE, feasL |-> FALSE, rows |-> <<>>]

MkCase(net, tp, cols, drop, lin) ==
    [id |-> net.id, fam |-> net.fam, ang |-> net.ang, rot |-> net.rot, ph |-> net.ph, cd |-> net.cd,
     cons |-> net.cons, upa |-> net.upa, sq |-> net.sq,
     tol |-> tp, x |-> cols, drop |-> drop, lin |-> lin]

Init ==
    /\ \E i \in DOMAIN Nets :
         \E T \in MinT..MaxT :
           \E f \in [1..T -> DOMAIN Nets[i].menu] :
             \E q \in DOMAIN Nets[i].tols :
               \E d \in {dd \in Drops : dd \subseteq 1..Len(Nets[i].ph)} :
                 \E l \in BOOLEAN :
                   cs = MkCase(Nets[i], Nets[i].tols[q], [t \in 1..T |-> Nets[i].menu[f[t]]], d, l)
    /\ res = NoRes
    /\ pc = "picked"

\* is_feasible(schedule, linear, violation_tolerance, relative_tolerance)
Eval ==
    /\ pc = "picked"
    /\ res' = [feas |-> Verdict(cs), feasP |-> Feasible(cs), feasL |-> FeasibleLinear(cs), rows |-> RowSeq(cs)]
    /\ pc' = "evaluated"
    /\ UNCHANGED cs

Finish ==
    /\ pc = "evaluated"
    /\ IF Rec
       THEN PrintT(<<"BHV", ToJson([id |-> cs.id, fam |-> cs.fam, ang |-> cs.ang, rot |-> cs.rot, ph |-> cs.ph,
                                    cd |-> cs.cd, cons |-> cs.cons, upa |-> cs.upa, sq |-> cs.sq,
                                    at |-> cs.tol.at, rn |-> cs.tol.rn, rd |-> cs.tol.rd,
                                    x |-> cs.x, drop |-> cs.drop, dense |-> Dense(cs), lin |-> cs.lin,
                                    feas |-> res.feas, feasP |-> res.feasP, feasL |-> res.feasL,
                                    rows |-> res.rows])>>)
       ELSE TRUE
    /\ pc' = "emitted"
    /\ UNCHANGED <<cs, res>>

Terminated == pc = "emitted" /\ UNCHANGED vars

Next == Eval \/ Finish \/ Terminated

Spec == Init /\ [][Next]_vars

-----------------------------------------------------------------------------
\* Well-formedness of the lattice (the assumptions under which the formulas above are exact).
CaseWellFormed ==
    /\ cs.fam \in {"ll", "ln", "col"}
    /\ ~cs.sq => cs.fam = "col"
    /\ cs.cd > 0 /\ cs.tol.rd > 0 /\ cs.tol.rn >= 0 /\ cs.tol.at >= 0
    /\ \A s \in 1..NSt(cs) : cs.ph[s] \in 1..3
    /\ \A j \in 1..NC(cs) : Len(cs.cons[j].n) = NSt(cs) /\ cs.cons[j].lim >= 0
    /\ \A t \in 1..NT(cs) : Len(cs.x[t]) = NSt(cs)
    /\ cs.drop \subseteq 1..NSt(cs)

-----------------------------------------------------------------------------
\* C06 theorems
\* "the 'linear' relaxation is conservative: any non-negative schedule it accepts is also accepted by
\*  the phase-aware check"   (triangle inequality: |SUM c x e^{i theta}| <= SUM |c| x  for x >= 0)
LinearConservative == (NonNeg(cs) /\ FeasibleLinear(cs)) => Feasible(cs)

\* "a network without constraints accepts every schedule"; an empty schedule violates nothing
NoConstraintsAcceptsAll == NC(cs) = 0 => (Feasible(cs) /\ FeasibleLinear(cs))
EmptyScheduleFeasible == NT(cs) = 0 => (Feasible(cs) /\ FeasibleLinear(cs))

\* feasibility is decided period by period (a schedule is feasible iff each of its columns is)
OnePeriod(c, t) == [c EXCEPT !.x = <<c.x[t]>>]
PeriodLocal ==
    /\ Feasible(cs) <=> \A t \in 1..NT(cs) : Feasible(OnePeriod(cs, t))
    /\ FeasibleLinear(cs) <=> \A t \in 1..NT(cs) : FeasibleLinear(OnePeriod(cs, t))

\* on a collinear row the squared comparison and the rational one are the same predicate
CollinearAgrees ==
    (cs.fam = "col" /\ cs.sq) =>
        \A p \in Pairs(cs) :
            RowP(cs, p[1], p[2]).ok
              <=> RowOkInt(Abs(SignedSum(cs.cons[p[1]].n, Dense(cs)[p[2]])), cs.cd, cs.tol, cs.cons[p[1]].lim)

\* where the relaxation relaxes nothing (one angle, coefficients of one sign, schedule of one sign)
\* it is exact
SameSign(n) == (\A s \in DOMAIN n : n[s] >= 0) \/ (\A s \in DOMAIN n : n[s] <= 0)
LinearExactWhenAligned ==
    (cs.fam = "col" /\ NonNeg(cs) /\ \A j \in 1..NC(cs) : SameSign(cs.cons[j].n))
        => (Feasible(cs) <=> FeasibleLinear(cs))

\* the dict form: dropping a station is the same as scheduling zeros for it
DropIsZero ==
    LET z == [cs EXCEPT !.x = Dense(cs), !.drop = {}]
    IN Feasible(cs) = Feasible(z) /\ FeasibleLinear(cs) = FeasibleLinear(z)

\* Eval stored the verdict of the definition
ResultIsDefinition ==
    pc # "picked" => /\ res.feas = Verdict(cs)
                     /\ res.feasP = Feasible(cs) /\ res.feasL = FeasibleLinear(cs)
                     /\ res.feas = \A i \in DOMAIN res.rows : res.rows[i].ok
CaseFixed == [][cs' = cs]_vars
=============================================================================
