------------------------------ MODULE EVSEDefs ------------------------------
(***************************************************************************)
(* Pure definitions shared by EVSE.tla (one station as a state machine)    *)
(* and AcnSim.tla (what a station advertises to schedulers): the allowable *)
(* pilot set of each EVSE class and the limits derived from it.            *)
(* Currents in 1e-4 A (the 1e-3 A tolerance is exactly 10).                *)
(*   kind = [cls |-> "cont", min, max] | [cls |-> "deadband", end, max]    *)
(*        | [cls |-> "finite", levels (sequence as given by the user)]     *)
(***************************************************************************)
EXTENDS Integers, Sequences, FiniteSets

ATOL == 10      \* 1e-3 A

Abs(x) == IF x < 0 THEN -x ELSE x
SeqRange(s) == {s[i] : i \in 1..Len(s)}

\* FiniteRatesEVSE normalises its list: a set, plus 0.
Levels(k) == SeqRange(k.levels) \cup {0}

\* The allowable set, as the property states it.
Valid(k, p) ==
    CASE k.cls = "cont"     -> k.min <= p + ATOL /\ p - ATOL <= k.max
      [] k.cls = "deadband" -> Abs(p) <= ATOL \/ (k.end <= p + ATOL /\ p - ATOL <= k.max)
      [] k.cls = "finite"   -> \E l \in Levels(k) : Abs(p - l) <= ATOL

\* What the station advertises to schedulers.
MaxRate(k) == IF k.cls = "finite" THEN CHOOSE m \in Levels(k) : \A l \in Levels(k) : l <= m ELSE k.max
MinRate(k) == CASE k.cls = "cont" -> k.min
                [] k.cls = "deadband" -> 0
                [] k.cls = "finite" -> LET P == {l \in Levels(k) : l > 0}
                                       IN IF P = {} THEN 0 ELSE CHOOSE m \in P : \A l \in P : m <= l
Allowable(k) == CASE k.cls = "cont" -> {k.min, k.max}
                  [] k.cls = "deadband" -> {k.end, k.max}
                  [] k.cls = "finite" -> Levels(k)
Continuous(k) == k.cls # "finite"

\* Everything a scheduler is told about a station of kind k (Interface.allowable_pilot_signals,
\* max_pilot_signal, min_pilot_signal, infrastructure_info().max_pilot/min_pilot/allowable_pilots/is_continuous).
Describe(k) == [max |-> MaxRate(k), min |-> MinRate(k), allow |-> Allowable(k), cont |-> Continuous(k)]
=============================================================================
