--------------------------- MODULE AcnSimControl ---------------------------
(***************************************************************************)
(* AcnSim.tla refines Control.tla: every behaviour of the simulator model  *)
(* (all scenarios, schedules, interruptions, JSON round trips of the small *)
(* configuration) projects onto a behaviour of the control skeleton whose  *)
(* inductive invariant Apalache proves for all integers.  TLC checks the   *)
(* implication  Spec => Ctl!Spec  as a property of MC_AcnSim.              *)
(* The ghost variables of Control are defined from AcnSim's own history    *)
(* (event history with processing periods, invocation log), not from the   *)
(* two private flags.                                                      *)
(***************************************************************************)
EXTENDS MC_AcnSim

\* two schedules suffice for the control flow: an empty one and a bad one (rejected: exception, nothing changes)
MenuCtl == << [kind |-> "ok", len |-> 0, rows |-> <<>>],
              [kind |-> "ok", len |-> 1, rows |-> (1 :> <<16>>)],
              [kind |-> "ragged", len |-> 2, rows |-> (1 :> <<8, 8>> @@ 2 :> <<8, 8>>)] >>

cPc == IF pc = "Emitted" THEN "Done" ELSE pc
cEvThis == batch # <<>> \/ \E j \in 1..Len(evHist) : evHist[j].at = t
cOk == InvokeIff /\ AtMostOncePerPeriod

Ctl == INSTANCE Control WITH
          MR <- MR, pc <- cPc, t <- t, resolve <- resolve, lastUpd <- lastUpd,
          pend <- (queue # {}), due <- (batch # <<>>),
          evThis <- cEvThis, invNow <- InvokedAt(t), lastInv <- LastInvBefore(t), ok <- cOk

RefinesControl == Ctl!Spec
CtlIndInv == Ctl!IndInv         \* the proved invariant, evaluated on the simulator model's states too
=============================================================================
