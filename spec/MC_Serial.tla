------------------------------ MODULE MC_Serial ------------------------------
(* Model-checking wrapper of Serial.tla: constants as definitions. *)
EXTENDS Serial

KindsNative == {"plugin", "unplug", "recompute"}
KindsAll == {"plugin", "unplug", "recompute", "event"}
PlacesSim == {"q", "h", "qh"}          \* pending, processed, one event object in both
PlacesAll == {"q", "h", "qh", "qq"}    \* ... and the same event object added to the queue twice
PlacesApart == {"q", "h"}               \* pending or processed, never both
PlacesQueue == {"q", "qq"}              \* pending only (once or twice): all that matters below the network / the queue
Ts01 == {0, 1}
Ts012 == {0, 1, 2}
ExtOff == {FALSE}
ExtOnly == {TRUE}
ExtBoth == {FALSE, TRUE}
RootsAll == {"sim", "net", "queue", "evse", "ev", "batt", "event"}
RootsSim == {"sim"}
RootsSub == {"net", "queue", "evse", "ev", "batt", "event"}
RootsNetQueue == {"net", "queue"}
=============================================================================
