-------------------------------- MODULE Sites --------------------------------
(***************************************************************************)
(* The predefined site networks of acnportal (property C16)                *)
(*   acnportal/acnsim/network/sites/caltech_acn.py    caltech_acn()        *)
(*   acnportal/acnsim/network/sites/jpl_acn.py        jpl_acn()            *)
(*   acnportal/acnsim/network/sites/office001_acn.py  office001_acn()      *)
(*   acnportal/acnsim/network/sites/auto_acn.py       simple_acn()         *)
(* transcribed from their docstrings, comments and structure.              *)
(*                                                                         *)
(* THE ELECTRICAL DESIGN.  A site is a 480 V delta / 208Y120 V wye         *)
(* transformer (JPL: two of them) whose secondary feeds the EVSEs.  The    *)
(* secondary has three lines a, b, c with line-to-neutral voltages         *)
(* 120 V at 0, -120, +120 degrees.  Every EVSE is connected between two     *)
(* lines (208 V line-to-line):                                              *)
(*     group AB: from a to b,  V_ab = V_a - V_b  at  +30 degrees            *)
(*     group BC: from b to c,  V_bc = V_b - V_c  at  -90 degrees            *)
(*     group CA: from c to a,  V_ca = V_c - V_a  at +150 degrees            *)
(* An EVSE is a unity-power-factor load: its current is in phase with its  *)
(* line-to-line voltage, so it is the phasor x * exp(i*angle), x >= 0 the   *)
(* pilot in A.  Kirchhoff: the current in line p is the sum over the loads  *)
(* leaving p minus the sum over the loads returning to p                   *)
(*     I_a = AB - CA,   I_b = BC - AB,   I_c = CA - BC      (phasor sums).  *)
(* Delta-wye, turns ratio n = 480/120 = 4: primary winding AB carries       *)
(* I_a/n, and the primary line currents are differences of two windings    *)
(*     I_A = (I_a - I_c)/n,  I_B = (I_b - I_a)/n,  I_C = (I_c - I_b)/n.     *)
(* Ratings as functions of the transformer capacity `cap` [kW = kVA]:      *)
(*     secondary line   cap*1000/3/120            (120 V line-to-neutral)  *)
(*     primary line     cap*1000/3/277            (277 V line-to-neutral;  *)
(*                                                 Caltech, Office001)     *)
(*     JPL primary      cap*1000/3/120*sqrt(3)    (as jpl_acn.py has it)   *)
(* plus pods (Caltech: two 80 A feeders of 8 EVSEs each, all in group AB)   *)
(* and sub-panels (JPL: 100 A resp. 225 A per line).                        *)
(*                                                                         *)
(* TWO DESCRIPTIONS, ONE THEOREM.  Per site the module has                  *)
(*  (1) the CONSTRAINT SET the factory builds, written like the code: the   *)
(*      `Current` algebra (Cur, (+), (-), Frac) over station groups and the *)
(*      add_constraint calls with their limit formulas   (XxxRows);        *)
(*  (2) the PLANT: which EVSEs hang behind which transformer / pod /        *)
(*      sub-panel and the nameplate ratings                 (XxxPlant),     *)
(*      from which line currents (Kirchhoff) and the power through the     *)
(*      transformer windings are computed independently of (1).            *)
(* FeasibleWithinRatings: every assignment of currents that (1) accepts     *)
(* keeps (2) within its ratings.  TLC decides it for every point of a       *)
(* lattice of group totals x capacity parameters in EXACT integer           *)
(* arithmetic; Structure decides the structural half of C16.               *)
(*                                                                         *)
(* UNITS.  Currents: A (group totals are integers).  Coefficients of a      *)
(* constraint row: quarters (the code's 1/4 is 1, its 1 is 4).  Capacity:   *)
(* kW.  Voltage: V.  Angles: degrees.                                      *)
(*                                                                         *)
(* EXACT PHASORS.  A row with coefficients k (quarters) applied to totals  *)
(* x gives the phasor J = 4*I = sum k_c x_c exp(i angle_c).  With           *)
(*   p = sum over the 30-degree cells, q = over -90, r = over 150:          *)
(*   Re J = (sqrt3/2)(p - r),  Im J = (p - 2q + r)/2                        *)
(*   N := 4|J|^2 = 64|I|^2 = 3(p-r)^2 + (p-2q+r)^2          (an integer).   *)
(* A limit L = sqrt(m)*n/d  [A] (m in {1,3}) is respected iff               *)
(*   N <= 64 L^2 = m*(8n/d)^2, decided without forming 64-bit products      *)
(*   (LeqMulSq).  All intermediate values stay below 2^31 for group totals  *)
(*   <= 900 A and cap <= 300 kW.                                           *)
(*                                                                         *)
(* A behaviour is one CASE: Init picks a site, its capacities and either    *)
(* the configuration table ("table") or an assignment of group totals       *)
(* ("case"); Eval does the phasor arithmetic for a case (the verdicts are   *)
(* predicates on its result); Finish emits table or case with the answers. *)
(*                                                                         *)
(* Tolerances (ChargingNetwork.violation_tolerance 1e-5 A, relative 1e-7)   *)
(* are not modelled: Feasible is the exact predicate |I| <= limit; the      *)
(* harness compares verdicts only where the exact margin exceeds them.      *)
(***************************************************************************)
EXTENDS Integers, Sequences, FiniteSets, TLC, Json

CONSTANTS
    SiteSet,        \* sites explored in this run, subset of AllSites
    CapChoices(_),  \* site -> set of capacity tuples <<cap>> (JPL: <<first_transformer_cap, third_fourth_transformer_cap>>) [kW]
    Lattice(_, _),  \* (site, caps) -> set of assignments  cell name -> group total [A]
    TableVolts,     \* `voltage` arguments for which the configuration table is emitted
    EmitTables,     \* include the "table" cases
    Rec             \* emit the cases (generation) or only check the theorems

VARIABLES
    site,   \* "caltech" | "jpl" | "office001" | "simple"
    caps,   \* capacity tuple [kW]
    volt,   \* the factory's `voltage` argument [V]
    x,      \* cell name -> total pilot current of the cell's EVSEs [A]  (the schedule, aggregated)
    stage,  \* "table" | "case" -> "evaluated" -> "done"
    res     \* the spec's arithmetic for a case: [N (64|I|^2 per row), W (winding power integer per transformer)]
vars == <<site, caps, volt, x, stage, res>>

AllSites  == {"caltech", "jpl", "office001", "simple"}
ThreeSites == {"caltech", "jpl", "office001"}      \* the predefined site models C16 speaks about
NominalV  == 208

-----------------------------------------------------------------------------
\* Generic helpers

SeqRange(s) == {s[i] : i \in 1..Len(s)}
RECURSIVE SumTo(_, _)
SumTo(f, n) == IF n = 0 THEN 0 ELSE f[n] + SumTo(f, n - 1)      \* f[1] + ... + f[n]; n <= 60 here
SumSeq(f) == SumTo(f, Len(f))

\* N <= m * (n/d)^2  for naturals N, n and m, d > 0, using only numbers of the size of N and 2*m*n.
\* Write n = k*d + r.  m(n/d)^2 = m k^2 + m(2 k r/d + r^2/d^2) < m k^2 + m(2k+1).
LeqMulSq(N, m, n, d) ==
    LET k == n \div d
        r == n % d
        M == N - m * k * k
    IN  IF M <= 0 THEN TRUE
        ELSE IF M > m * (2 * k + 1) THEN FALSE
        ELSE M * d <= 2 * m * k * r + (m * r * r) \div d    \* M*d and 2mkr are integers: floor is exact

ASSUME LeqMulSqIsExact ==       \* against the naive formula where that cannot overflow
    \A N \in 0..70, m \in {1, 3}, n \in 0..13, d \in 1..5 :
        LeqMulSq(N, m, n, d) <=> (N * d * d <= m * n * n)

-----------------------------------------------------------------------------
\* The wiring vocabulary

Lines == <<"a", "b", "c">>
LineAngle == [a |-> 0, b |-> -120, c |-> 120]             \* line-to-neutral voltage angles
\* how a group is connected; angle = angle of V_from - V_to.  "P0" is simple_acn's single phase.
Conn == [AB |-> [from |-> "a", to |-> "b", angle |-> 30],
         BC |-> [from |-> "b", to |-> "c", angle |-> -90],
         CA |-> [from |-> "c", to |-> "a", angle |-> 150],
         P0 |-> [from |-> "a", to |-> "n", angle |-> 0]]
LLAngles == {30, -90, 150}
\* The three angles are those of the voltage differences.  Unit phasors at 0, -120, +120 degrees are
\* (u + i*sqrt3*w)/2 with integer (u, w):
HalfVec == [a |-> <<2, 0>>, b |-> <<-1, -1>>, c |-> <<-1, 1>>]
AngleOfHalfVec(u, w) ==         \* angle of u + i*sqrt3*w for the directions that occur (tan 30 = sqrt3/3)
    CASE u > 0 /\ w > 0 /\ u = 3 * w -> 30
      [] u = 0 /\ w < 0 -> -90
      [] u < 0 /\ w > 0 /\ -u = 3 * w -> 150
      [] OTHER -> 999
ASSUME ConnAnglesAreVoltageDifferences ==
    \A g \in {"AB", "BC", "CA"} :
        LET f == HalfVec[Conn[g].from]  t == HalfVec[Conn[g].to]
        IN  AngleOfHalfVec(f[1] - t[1], f[2] - t[2]) = Conn[g].angle
Prev == [a |-> "c", b |-> "a", c |-> "b"]                 \* I_A = (I_a - I_c)/n etc.

\* 2*cos(theta - phi)/sqrt(3) for a load angle theta and a line angle phi: the only values that occur
CosSign(theta, phi) ==
    LET dd == (((theta - phi) % 360) + 360) % 360
    IN  CASE dd \in {30, 330} -> 1
          [] dd \in {150, 210} -> -1
          [] dd \in {90, 270} -> 0

\* EVSE types (acnsim/models/evse.py get_evse_by_type); every type tops out at 32 A
MaxPilot == 32
TypeName(kind, basic) == IF basic THEN "BASIC" ELSE IF kind = "CC" THEN "ClipperCreek" ELSE "AeroVironment"
AllowedRates(kind, basic) ==        \* BASIC is continuous on [0, 32]
    IF basic THEN <<0, 32>>
    ELSE IF kind = "CC" THEN <<0, 8, 16, 24, 32>>
    ELSE <<0>> \o [i \in 1..27 |-> i + 5]

\* A cell = a set of EVSEs that the design never tells apart: same connection, same feeder.
Cell(n, cn, k, ids) == [name |-> n, conn |-> cn, kind |-> k, ids |-> ids]
Names(cells) == {cells[i].name : i \in 1..Len(cells)}
CellNamed(cells, n) == cells[CHOOSE i \in 1..Len(cells) : cells[i].name = n]

-----------------------------------------------------------------------------
\* The `Current` algebra of acnsim/network/current.py over cells; coefficients in quarters.
Cur(D, S)  == [c \in D |-> IF c \in S THEN 4 ELSE 0]        \* Current(list of station ids)
a (+) b    == [c \in DOMAIN a |-> a[c] + b[c]]              \* Current.__add__
a (-) b    == [c \in DOMAIN a |-> a[c] - b[c]]              \* Current.__sub__
Frac(a, n) == [c \in DOMAIN a |-> a[c] \div n]              \* (1/n) * Current  (every use is divisible: see Structure)
Times(k, a) == [c \in DOMAIN a |-> k * a[c]]

\* limit formulas, symbolic: evaluated by LimitOf for the capacities of the case
Fixed(amps)  == [f |-> "fixed", v |-> amps]     \* a nameplate current
Sec120(i)    == [f |-> "sec120", v |-> i]       \* caps[i] * 1000 / 3 / 120
Prim277(i)   == [f |-> "prim277", v |-> i]      \* caps[i] * 1000 / 3 / 277
PrimJpl(i)   == [f |-> "primjpl", v |-> i]      \* caps[i] * 1000 / 3 / 120 * sqrt(3)
Aggregate(i) == [f |-> "aggregate", v |-> i]    \* (caps[i] / voltage) * 1000
\* a limit is sqrt(m) * n / d  [A]
LimitOf(l, cp, v) ==
    CASE l.f = "fixed"     -> [m |-> 1, n |-> l.v, d |-> 1]
      [] l.f = "sec120"    -> [m |-> 1, n |-> 25 * cp[l.v], d |-> 9]
      [] l.f = "prim277"   -> [m |-> 1, n |-> 1000 * cp[l.v], d |-> 831]
      [] l.f = "primjpl"   -> [m |-> 3, n |-> 25 * cp[l.v], d |-> 9]
      [] l.f = "aggregate" -> [m |-> 1, n |-> 1000 * cp[l.v], d |-> v]

Row(n, cur, lim) == [name |-> n, cur |-> cur, lim |-> lim]     \* network.add_constraint(cur, lim, name=n)

\* _add_line2line_evses (jpl_acn.py): the three line currents of a panel given its ab, bc, ca groups
L2L(D, ab, bc, ca) ==
    LET AB == Cur(D, ab)  BC == Cur(D, bc)  CA == Cur(D, ca)
    IN  [a |-> AB (-) CA, b |-> BC (-) AB, c |-> CA (-) BC]

-----------------------------------------------------------------------------
\* CALTECH  (caltech_acn.py).  54 EVSEs; AV = AeroVironment, CC = ClipperCreek.
CAids(nums) == [i \in 1..Len(nums) |-> "CA-" \o ToString(nums[i])]
CaltechCells == <<
    Cell("AB",    "AB", "AV", CAids(<<308, 508, 303, 513, 310, 506, 316, 500, 318, 498>>)),
    Cell("AVpod", "AB", "AV", CAids(<<324, 325, 326, 327, 489, 490, 491, 492>>)),
    Cell("CCpod", "AB", "CC", CAids(<<322, 493, 496, 320, 495, 321, 323, 494>>)),
    Cell("BC",    "BC", "AV", CAids(<<304, 512, 305, 511, 313, 503, 311, 505, 317, 499, 148, 149, 212, 213>>)),
    Cell("CA",    "CA", "AV", CAids(<<307, 509, 309, 507, 306, 510, 315, 501, 319, 497, 312, 504, 314, 502>>)) >>

CaltechRows ==
    LET D == Names(CaltechCells)
        CC_pod == Cur(D, {"CCpod"})
        AV_pod == Cur(D, {"AVpod"})
        AB == Cur(D, {"AB", "AVpod", "CCpod"})      \* AB_ids = [...] + AV_pod_ids + CC_pod_ids
        BC == Cur(D, {"BC"})
        CA == Cur(D, {"CA"})
        I3a == AB (-) CA
        I3b == BC (-) AB
        I3c == CA (-) BC
        I2a == Frac(I3a (-) I3c, 4)
        I2b == Frac(I3b (-) I3a, 4)
        I2c == Frac(I3c (-) I3b, 4)
    IN  << Row("CC Pod", CC_pod, Fixed(80)),
           Row("AV Pod", AV_pod, Fixed(80)),
           Row("Secondary A", I3a, Sec120(1)),
           Row("Secondary B", I3b, Sec120(1)),
           Row("Secondary C", I3c, Sec120(1)),
           Row("Primary A", I2a, Prim277(1)),
           Row("Primary B", I2b, Prim277(1)),
           Row("Primary C", I2c, Prim277(1)) >>

Xfmr(n, cells, capIdx, sec, prim) == [name |-> n, cells |-> cells, cap |-> capIdx, sec |-> sec, prim |-> prim, turns |-> 4]
CaltechPlant ==
    [ xfmrs  |-> << Xfmr("Caltech 150 kVA", Names(CaltechCells), 1,
                         <<"Secondary A", "Secondary B", "Secondary C">>,
                         <<"Primary A", "Primary B", "Primary C">>) >>,
      pods   |-> << [row |-> "CC Pod", cells |-> {"CCpod"}, rating |-> 80],
                    [row |-> "AV Pod", cells |-> {"AVpod"}, rating |-> 80] >>,
      panels |-> << >> ]

-----------------------------------------------------------------------------
\* OFFICE001  (office001_acn.py).  8 EVSEs, one transformer.
OfficeCells == <<
    Cell("AB", "AB", "AV", <<"01", "04", "07">>),
    Cell("BC", "BC", "AV", <<"02", "05", "08">>),
    Cell("CA", "CA", "AV", <<"03", "06">>) >>

OfficeRows ==
    LET D == Names(OfficeCells)
        AB == Cur(D, {"AB"})
        BC == Cur(D, {"BC"})
        CA == Cur(D, {"CA"})
        I3a == AB (-) CA
        I3b == BC (-) AB
        I3c == CA (-) BC
        I2a == Frac(I3a (-) I3c, 4)
        I2b == Frac(I3b (-) I3a, 4)
        I2c == Frac(I3c (-) I3b, 4)
    IN  << Row("Secondary A", I3a, Sec120(1)),
           Row("Secondary B", I3b, Sec120(1)),
           Row("Secondary C", I3c, Sec120(1)),
           Row("Primary A", I2a, Prim277(1)),
           Row("Primary B", I2b, Prim277(1)),
           Row("Primary C", I2c, Prim277(1)) >>

OfficePlant ==
    [ xfmrs  |-> << Xfmr("Office001", Names(OfficeCells), 1,
                         <<"Secondary A", "Secondary B", "Secondary C">>,
                         <<"Primary A", "Primary B", "Primary C">>) >>,
      pods   |-> << >>,
      panels |-> << >> ]

-----------------------------------------------------------------------------
\* JPL  (jpl_acn.py).  52 EVSEs (all AeroVironment), two transformers, four sub-panels.
\* Cells in the order of registration; sub-panel 1 has no BC group.
JplCells == <<
    Cell("sp1.ab", "AB", "AV", <<"AG-1F12", "AG-1F14">>),
    Cell("sp1.ca", "CA", "AV", <<"AG-1F11", "AG-1F13">>),
    Cell("sp2.ab", "AB", "AV", <<"AG-1F03", "AG-1F06">>),
    Cell("sp2.bc", "BC", "AV", <<"AG-1F01", "AG-1F04">>),
    Cell("sp2.ca", "CA", "AV", <<"AG-1F02", "AG-1F05">>),
    Cell("add.ab", "AB", "AV", <<"AG-1F10">>),
    Cell("add.bc", "BC", "AV", <<"AG-1F07", "AG-1F09">>),
    Cell("add.ca", "CA", "AV", <<"AG-1F08">>),
    Cell("p3.ab", "AB", "AV", <<"AG-3F16", "AG-3F17", "AG-3F20", "AG-3F23", "AG-3F25", "AG-3F26", "AG-3F29", "AG-3F33">>),
    Cell("p3.bc", "BC", "AV", <<"AG-3F18", "AG-3F21", "AG-3F27", "AG-3F30", "AG-3F31">>),
    Cell("p3.ca", "CA", "AV", <<"AG-3F15", "AG-3F19", "AG-3F22", "AG-3F24", "AG-3F28", "AG-3F32">>),
    Cell("p4.ab", "AB", "AV", <<"AG-4F35", "AG-4F36", "AG-4F39", "AG-4F42", "AG-4F44", "AG-4F45", "AG-4F48", "AG-4F52">>),
    Cell("p4.bc", "BC", "AV", <<"AG-4F37", "AG-4F40", "AG-4F46", "AG-4F49", "AG-4F50">>),
    Cell("p4.ca", "CA", "AV", <<"AG-4F34", "AG-4F38", "AG-4F41", "AG-4F43", "AG-4F47", "AG-4F51">>) >>

JplFirstFloor == {"sp1.ab", "sp1.ca", "sp2.ab", "sp2.bc", "sp2.ca", "add.ab", "add.bc", "add.ca"}
JplUpperFloors == {"p3.ab", "p3.bc", "p3.ca", "p4.ab", "p4.bc", "p4.ca"}

\* _delta_wye_transformer(name, Isec, cap): six rows
DeltaWye(name, Isec, capIdx) ==
    LET Ipa == Frac(Isec.a (-) Isec.c, 4)
        Ipb == Frac(Isec.b (-) Isec.a, 4)
        Ipc == Frac(Isec.c (-) Isec.b, 4)
    IN  << Row(name \o " Secondary A", Isec.a, Sec120(capIdx)),
           Row(name \o " Secondary B", Isec.b, Sec120(capIdx)),
           Row(name \o " Secondary C", Isec.c, Sec120(capIdx)),
           Row(name \o " Primary A", Ipa, PrimJpl(capIdx)),
           Row(name \o " Primary B", Ipb, PrimJpl(capIdx)),
           Row(name \o " Primary C", Ipc, PrimJpl(capIdx)) >>

JplRows ==
    LET D == Names(JplCells)
        first_floor_sp1 == L2L(D, {"sp1.ab"}, {}, {"sp1.ca"})
        first_floor_sp2 == L2L(D, {"sp2.ab"}, {"sp2.bc"}, {"sp2.ca"})
        add_first_floor == L2L(D, {"add.ab"}, {"add.bc"}, {"add.ca"})
        first_floor_transformer ==
            [p \in {"a", "b", "c"} |-> (add_first_floor[p] (+) first_floor_sp1[p]) (+) first_floor_sp2[p]]
        third_floor_panel  == L2L(D, {"p3.ab"}, {"p3.bc"}, {"p3.ca"})
        fourth_floor_panel == L2L(D, {"p4.ab"}, {"p4.bc"}, {"p4.ca"})
        third_fourth_transformer == [p \in {"a", "b", "c"} |-> third_floor_panel[p] (+) fourth_floor_panel[p]]
        PanelRows(p) ==         \* the body of `for p in "abc"`
            << Row("First Floor SP1 I_" \o p, first_floor_sp1[p], Fixed(100)),
               Row("First Floor SP2 I_" \o p, first_floor_sp2[p], Fixed(100)),
               Row("Third Floor Panel I_" \o p, third_floor_panel[p], Fixed(225)),
               Row("Fourth Floor Panel I_" \o p, fourth_floor_panel[p], Fixed(225)) >>
    IN  PanelRows("a") \o PanelRows("b") \o PanelRows("c")
        \o DeltaWye("First Floor Transformer", first_floor_transformer, 1)
        \o DeltaWye("Third/Fourth Floor Transformer", third_fourth_transformer, 2)

ABC(prefix) == <<prefix \o "A", prefix \o "B", prefix \o "C">>
Iabc(prefix) == <<prefix \o "a", prefix \o "b", prefix \o "c">>
JplPlant ==
    [ xfmrs  |-> << Xfmr("First Floor Transformer", JplFirstFloor, 1,
                         ABC("First Floor Transformer Secondary "), ABC("First Floor Transformer Primary ")),
                    Xfmr("Third/Fourth Floor Transformer", JplUpperFloors, 2,
                         ABC("Third/Fourth Floor Transformer Secondary "),
                         ABC("Third/Fourth Floor Transformer Primary ")) >>,
      pods   |-> << >>,
      \* "Sub-panel 1 (Max 100 A / phase)", "3rd Floor (Max 225 A / phase)", ...
      panels |-> << [rows |-> Iabc("First Floor SP1 I_"), cells |-> {"sp1.ab", "sp1.ca"}, rating |-> 100],
                    [rows |-> Iabc("First Floor SP2 I_"), cells |-> {"sp2.ab", "sp2.bc", "sp2.ca"}, rating |-> 100],
                    [rows |-> Iabc("Third Floor Panel I_"), cells |-> {"p3.ab", "p3.bc", "p3.ca"}, rating |-> 225],
                    [rows |-> Iabc("Fourth Floor Panel I_"), cells |-> {"p4.ab", "p4.bc", "p4.ca"}, rating |-> 225] >> ]

-----------------------------------------------------------------------------
\* SIMPLE  (auto_acn.py simple_acn): single phase, angle 0, one aggregate limit
\* (aggregate_cap / voltage) * 1000.  Not one of the three site models of C16; carried along because
\* the same factory package builds it.  The station list is an argument; five stations stand for it.
SimpleCells == << Cell("all", "P0", "AV", <<"S-1", "S-2", "S-3", "S-4", "S-5">>) >>
SimpleRows  == << Row("Aggregate Current", Cur(Names(SimpleCells), {"all"}), Aggregate(1)) >>
SimplePlant == [ xfmrs |-> << >>, pods |-> << >>, panels |-> << >> ]

-----------------------------------------------------------------------------
\* Lookup tables (constant definitions: TLC evaluates each once)
CellsOf == [s \in AllSites |-> CASE s = "caltech" -> CaltechCells [] s = "jpl" -> JplCells
                                 [] s = "office001" -> OfficeCells [] s = "simple" -> SimpleCells]
RowsOf  == [s \in AllSites |-> CASE s = "caltech" -> CaltechRows [] s = "jpl" -> JplRows
                                 [] s = "office001" -> OfficeRows [] s = "simple" -> SimpleRows]
PlantOf == [s \in AllSites |-> CASE s = "caltech" -> CaltechPlant [] s = "jpl" -> JplPlant
                                 [] s = "office001" -> OfficePlant [] s = "simple" -> SimplePlant]
NCaps   == [s \in AllSites |-> IF s = "jpl" THEN 2 ELSE 1]
AngleOf == [s \in AllSites |-> [c \in Names(CellsOf[s]) |-> Conn[CellNamed(CellsOf[s], c).conn].angle]]
ConnOf  == [s \in AllSites |-> [c \in Names(CellsOf[s]) |-> Conn[CellNamed(CellsOf[s], c).conn]]]
RowNamed(s, n) == RowsOf[s][CHOOSE i \in 1..Len(RowsOf[s]) : RowsOf[s][i].name = n]

-----------------------------------------------------------------------------
\* Exact phasor magnitude.  k: cell -> coefficient, y: cell -> current [A]; the angle of a cell is that of
\* its connection.  Mag4 returns 4*|sum_c k_c y_c exp(i angle_c)|^2 (see EXACT PHASORS in the header).
CellsAt == [s \in AllSites |-> [theta \in LLAngles \cup {0} |->       \* constant table: the cells at an angle, as a sequence
              LET cs == CellsOf[s]
                  RECURSIVE Pick(_)
                  Pick(i) == IF i > Len(cs) THEN <<>>
                             ELSE (IF Conn[cs[i].conn].angle = theta THEN <<cs[i].name>> ELSE <<>>) \o Pick(i + 1)
              IN  Pick(1)]]
GroupSum(s, k, y, theta) ==
    LET cn == CellsAt[s][theta] IN SumSeq([i \in 1..Len(cn) |-> k[cn[i]] * y[cn[i]]])
Mag4(s, k, y) ==
    IF s = "simple"
    THEN LET z == GroupSum(s, k, y, 0) IN 4 * z * z
    ELSE LET p == GroupSum(s, k, y, 30)
             q == GroupSum(s, k, y, -90)
             r == GroupSum(s, k, y, 150)
         IN  3 * (p - r) * (p - r) + (p - 2 * q + r) * (p - 2 * q + r)

\* (1) the constraint set: ChargingNetwork.is_feasible on an assignment y, exact
RowN(s, i, y)  == Mag4(s, RowsOf[s][i].cur, y)                       \* = 64 |I_row|^2
WithinLimit(N, l) == LeqMulSq(N, l.m, 8 * l.n, l.d)                   \* |I| <= sqrt(l.m) * l.n / l.d
RowOk(s, i, cp, v, y) == WithinLimit(RowN(s, i, y), LimitOf(RowsOf[s][i].lim, cp, v))
Feasible(s, cp, v, y) == \A i \in 1..Len(RowsOf[s]) : RowOk(s, i, cp, v, y)

\* (2) the plant
\* Kirchhoff coefficient (plain units) of cell c in the current of line p, for the loads in S
Kcl(s, S, p) == [c \in Names(CellsOf[s]) |->
                    IF c \notin S THEN 0
                    ELSE IF ConnOf[s][c].from = p THEN 1 ELSE IF ConnOf[s][c].to = p THEN -1 ELSE 0]
CellsTotal(s, S, y) ==
    LET cs == CellsOf[s] IN SumSeq([i \in 1..Len(cs) |-> IF cs[i].name \in S THEN y[cs[i].name] ELSE 0])
\* Real power through the three secondary windings of transformer t at 120 V line-to-neutral:
\*   P = sum_p 120 * Re( I_p * conj(exp(i LineAngle_p)) ) = 120 * (sqrt3/2) * W      [W]
\* where W is an integer: cos(load angle - line angle) is +-sqrt3/2 or 0, so a cell c contributes
\* WindCoef[c] * y[c] with WindCoef[c] = sum_p Kcl_p[c] * CosSign(angle_c, LineAngle_p).
WindCoef(s, t) ==
    [c \in Names(CellsOf[s]) |->
        LET PerLine(p) == Kcl(s, t.cells, p)[c] * CosSign(AngleOf[s][c], LineAngle[p])
        IN  PerLine("a") + PerLine("b") + PerLine("c")]
WindCoefOf == [s \in AllSites |-> [j \in 1..Len(PlantOf[s].xfmrs) |-> WindCoef(s, PlantOf[s].xfmrs[j])]]   \* constant table
WindingW(s, j, y) ==
    LET cs == CellsOf[s] IN SumSeq([i \in 1..Len(cs) |-> WindCoefOf[s][j][cs[i].name] * y[cs[i].name]])
\* P <= 1000 cap  <=>  60 sqrt3 W <= 1000 cap  <=>  27 W^2 <= 2500 cap^2
PowerWithinRating(W, cap) == 27 * W * W <= 2500 * cap * cap

XfmrWithin(s, cp, y, Ws) ==
    \A j \in 1..Len(PlantOf[s].xfmrs) : PowerWithinRating(Ws[j], cp[PlantOf[s].xfmrs[j].cap])
PodsWithin(s, y) ==
    \A j \in 1..Len(PlantOf[s].pods) :
        CellsTotal(s, PlantOf[s].pods[j].cells, y) <= PlantOf[s].pods[j].rating
PanelKclOf == [s \in AllSites |-> [j \in 1..Len(PlantOf[s].panels) |->
                    [i \in 1..3 |-> Kcl(s, PlantOf[s].panels[j].cells, Lines[i])]]]                      \* constant table
PanelsWithin(s, y) ==       \* |line current of the panel| <= rating in each of the three lines
    \A j \in 1..Len(PlantOf[s].panels) : \A i \in 1..3 :
        Mag4(s, PanelKclOf[s][j][i], y) <= 4 * PlantOf[s].panels[j].rating * PlantOf[s].panels[j].rating

-----------------------------------------------------------------------------
\* The behaviour: one case
ZeroX(s) == [c \in Names(CellsOf[s]) |-> 0]
NoRes == [N |-> <<>>, W |-> <<>>]
SchedVolts(s) == IF s = "simple" THEN TableVolts ELSE {NominalV}

Init ==
    /\ site \in SiteSet
    /\ caps \in CapChoices(site)
    /\ res = NoRes
    /\ \/ EmitTables /\ stage = "table" /\ volt \in TableVolts /\ x = ZeroX(site)
       \/ stage = "case" /\ volt \in SchedVolts(site) /\ x \in Lattice(site, caps)

\* Eval does the phasor arithmetic once and stores it; the verdicts are predicates on the stored
\* magnitudes (ResOk, ResFeasible), so no invariant recomputes a phasor sum.
Eval ==
    /\ stage = "case"
    /\ stage' = "evaluated"
    /\ res' = [N |-> [i \in 1..Len(RowsOf[site]) |-> RowN(site, i, x)],
               W |-> [j \in 1..Len(PlantOf[site].xfmrs) |-> WindingW(site, j, x)]]
    /\ UNCHANGED <<site, caps, volt, x>>

ResOk(i) == WithinLimit(res.N[i], LimitOf(RowsOf[site][i].lim, caps, volt))    \* row i respected
ResFeasible == \A i \in 1..Len(RowsOf[site]) : ResOk(i)                        \* = Feasible(site, caps, volt, x)

\* ---- what Finish emits
RECURSIVE StationsFrom(_, _, _, _)
StationsFrom(s, v, basic, i) ==
    IF i > Len(CellsOf[s]) THEN <<>>
    ELSE LET c == CellsOf[s][i]
         IN  [j \in 1..Len(c.ids) |-> [id |-> c.ids[j], cell |-> c.name, angle |-> Conn[c.conn].angle,
                                       volt |-> v, type |-> TypeName(c.kind, basic),
                                       rates |-> AllowedRates(c.kind, basic)]]
             \o StationsFrom(s, v, basic, i + 1)
TableRows(s, cp, v) ==
    [i \in 1..Len(RowsOf[s]) |->
        [name |-> RowsOf[s][i].name,
         lim  |-> LET l == LimitOf(RowsOf[s][i].lim, cp, v) IN <<l.m, l.n, l.d>>,
         \* coefficient (quarters) per cell, in cell order; every station of the cell carries it
         coef |-> [j \in 1..Len(CellsOf[s]) |-> RowsOf[s][i].cur[CellsOf[s][j].name]]]]
PlantJson(s) ==
    [xfmrs |-> [j \in 1..Len(PlantOf[s].xfmrs) |->
                    LET t == PlantOf[s].xfmrs[j]
                    IN  [name |-> t.name, cap |-> t.cap, sec |-> t.sec, prim |-> t.prim,
                         cells |-> [i \in 1..Len(CellsOf[s]) |-> CellsOf[s][i].name \in t.cells]]],
     pods |-> [j \in 1..Len(PlantOf[s].pods) |->
                    LET t == PlantOf[s].pods[j]
                    IN  [row |-> t.row, rating |-> t.rating,
                         cells |-> [i \in 1..Len(CellsOf[s]) |-> CellsOf[s][i].name \in t.cells]]],
     panels |-> [j \in 1..Len(PlantOf[s].panels) |->
                    LET t == PlantOf[s].panels[j]
                    IN  [rows |-> t.rows, rating |-> t.rating,
                         cells |-> [i \in 1..Len(CellsOf[s]) |-> CellsOf[s][i].name \in t.cells]]]]
TableJson ==
    [kind |-> "table", site |-> site, caps |-> caps, volt |-> volt,
     cells |-> [i \in 1..Len(CellsOf[site]) |-> CellsOf[site][i].name],
     basic |-> StationsFrom(site, volt, TRUE, 1),
     real  |-> StationsFrom(site, volt, FALSE, 1),
     rows  |-> TableRows(site, caps, volt),
     plant |-> PlantJson(site)]
CaseJson ==
    [kind |-> "sched", site |-> site, caps |-> caps, volt |-> volt,
     x    |-> [i \in 1..Len(CellsOf[site]) |-> x[CellsOf[site][i].name]],       \* in cell order [A]
     lims |-> [i \in 1..Len(RowsOf[site]) |-> LET l == LimitOf(RowsOf[site][i].lim, caps, volt) IN <<l.m, l.n, l.d>>],
     N    |-> res.N, W |-> res.W,
     ok   |-> [i \in 1..Len(RowsOf[site]) |-> ResOk(i)], feas |-> ResFeasible,
     within |-> XfmrWithin(site, caps, x, res.W) /\ PodsWithin(site, x) /\ PanelsWithin(site, x)]

Finish ==
    /\ stage \in {"table", "evaluated"}
    /\ IF Rec THEN PrintT(<<"BHV", ToJson(IF stage = "table" THEN TableJson ELSE CaseJson)>>) ELSE TRUE
    /\ stage' = "done"
    /\ UNCHANGED <<site, caps, volt, x, res>>

Terminated == stage = "done" /\ UNCHANGED vars

Next == Eval \/ Finish \/ Terminated
Spec == Init /\ [][Next]_vars

-----------------------------------------------------------------------------
\* C16, structural half (evaluated once per table case: it depends on the site only)
CellSet(s) == Names(CellsOf[s])
AllIds(s) == UNION {SeqRange(CellsOf[s][i].ids) : i \in 1..Len(CellsOf[s])}
XfmrRowNames(s) == UNION {SeqRange(PlantOf[s].xfmrs[j].sec) \cup SeqRange(PlantOf[s].xfmrs[j].prim)
                            : j \in 1..Len(PlantOf[s].xfmrs)}

AnglesAreLineToLine(s) == \A c \in CellSet(s) : AngleOf[s][c] \in LLAngles
CoveredByTransformer(s) ==      \* non-zero coefficient in some transformer row
    \A c \in CellSet(s) : \E n \in XfmrRowNames(s) : RowNamed(s, n).cur[c] # 0
BehindOneTransformer(s) ==
    \A c \in CellSet(s) : Cardinality({j \in 1..Len(PlantOf[s].xfmrs) : c \in PlantOf[s].xfmrs[j].cells}) = 1
IdsDistinct(s) ==
    SumSeq([i \in 1..Len(CellsOf[s]) |-> Len(CellsOf[s][i].ids)]) = Cardinality(AllIds(s))
\* the rows the code builds are the Kirchhoff / delta-wye currents of the plant
RowsAreThePlant(s) ==
    /\ \A j \in 1..Len(PlantOf[s].xfmrs) : \A i \in 1..3 :
          LET t == PlantOf[s].xfmrs[j]
              p == Lines[i]
          IN  /\ RowNamed(s, t.sec[i]).cur = Times(4, Kcl(s, t.cells, p))
              /\ Times(t.turns, RowNamed(s, t.prim[i]).cur) = Times(4, Kcl(s, t.cells, p) (-) Kcl(s, t.cells, Prev[p]))
    /\ \A j \in 1..Len(PlantOf[s].panels) : \A i \in 1..3 :
          RowNamed(s, PlantOf[s].panels[j].rows[i]).cur = Times(4, Kcl(s, PlantOf[s].panels[j].cells, Lines[i]))
    /\ \A j \in 1..Len(PlantOf[s].pods) :
          LET pd == PlantOf[s].pods[j]
          IN  /\ RowNamed(s, pd.row).cur = Cur(CellSet(s), pd.cells)
              /\ RowNamed(s, pd.row).lim = Fixed(pd.rating)
              /\ \A c, d \in pd.cells : AngleOf[s][c] = AngleOf[s][d]      \* so the phasor sum is the plain sum
    /\ \A i \in 1..Len(RowsOf[s]) : \A c \in CellSet(s) : RowsOf[s][i].cur[c] \in -8..8
RowNamesDistinct(s) == Cardinality({RowsOf[s][i].name : i \in 1..Len(RowsOf[s])}) = Len(RowsOf[s])
\* the constraint set consists of transformer, pod and sub-panel rows and nothing else
AllRowsExplained(s) ==
    {RowsOf[s][i].name : i \in 1..Len(RowsOf[s])}
        = XfmrRowNames(s) \cup {PlantOf[s].pods[j].row : j \in 1..Len(PlantOf[s].pods)}
          \cup UNION {SeqRange(PlantOf[s].panels[j].rows) : j \in 1..Len(PlantOf[s].panels)}

Structure ==
    stage = "table" =>
        /\ RowNamesDistinct(site) /\ IdsDistinct(site) /\ Len(caps) = NCaps[site]
        /\ site \in ThreeSites =>
              /\ AnglesAreLineToLine(site)
              /\ CoveredByTransformer(site)
              /\ BehindOneTransformer(site)
              /\ RowsAreThePlant(site)
              /\ AllRowsExplained(site)

\* C16, universal half, on every lattice point
FeasibleWithinRatings ==
    stage = "evaluated" /\ ResFeasible =>
        /\ XfmrWithin(site, caps, x, res.W)
        /\ PodsWithin(site, x)
        /\ PanelsWithin(site, x)
        /\ site = "simple" => volt * CellsTotal(site, {"all"}, x) <= 1000 * caps[1]

\* the stored verdict is ChargingNetwork.is_feasible as defined above
EvalIsFeasible == stage = "evaluated" => (ResFeasible <=> Feasible(site, caps, volt, x))

\* Lemmas that explain the theorem (checked on the same lattice)
\* the winding power is the power of the line-to-line loads: P = 120 sqrt3 * (total current)
PowerIsLoadPower ==
    stage = "evaluated" =>
        \A j \in 1..Len(PlantOf[site].xfmrs) : res.W[j] = 2 * CellsTotal(site, PlantOf[site].xfmrs[j].cells, x)
RowIndexOf == [s \in AllSites |-> [n \in {RowsOf[s][i].name : i \in 1..Len(RowsOf[s])} |->
                   CHOOSE i \in 1..Len(RowsOf[s]) : RowsOf[s][i].name = n]]
RowIndex(s, n) == RowIndexOf[s][n]
\* the three secondary limits alone bound the power; the primary limits are not needed for C16
SecondaryAloneSuffices ==
    stage = "evaluated" =>
        \A j \in 1..Len(PlantOf[site].xfmrs) :
            LET t == PlantOf[site].xfmrs[j]
            IN  (\A i \in 1..3 : ResOk(RowIndex(site, t.sec[i]))) => PowerWithinRating(res.W[j], caps[t.cap])
\* JPL's primary limit (sqrt3 times the secondary limit) can never bind: |I_A| <= (|I_a| + |I_c|)/4
JplPrimaryNeverBinds ==
    stage = "evaluated" /\ site = "jpl" =>
        \A j \in 1..Len(PlantOf[site].xfmrs) :
            LET t == PlantOf[site].xfmrs[j]
            IN  (\A i \in 1..3 : ResOk(RowIndex(site, t.sec[i]))) => \A i \in 1..3 : ResOk(RowIndex(site, t.prim[i]))

\* NOMINAL ROUNDING.  "208 V" is the rounded value of 120*sqrt3 = 207.85 V.  Computed literally with
\* 208 V the power of a feasible balanced assignment exceeds 1000*cap by up to 0.074 %:
\* cap = 300 kW, AB = BC = CA = 481 A is within the secondary limit 833.3 A (243*481^2 <= 625*300^2)
\* and 208 * 3 * 481 = 300144 W.  The theorem above therefore states the rating in the consistent
\* 120 V line-to-neutral system, as the factory docstrings do.
ASSUME NominalRoundingWitness ==
    /\ 243 * 481 * 481 <= 625 * 300 * 300           \* |I_a|^2 = 3*481^2 <= (25*300/9)^2
    /\ 208 * 3 * 481 > 1000 * 300
    /\ 27 * (2 * 3 * 481) * (2 * 3 * 481) <= 2500 * 300 * 300

MaxTotalOf == [s \in AllSites |-> [c \in Names(CellsOf[s]) |-> MaxPilot * Len(CellNamed(CellsOf[s], c).ids)]]
TypeOK ==
    /\ site \in AllSites /\ stage \in {"table", "case", "evaluated", "done"}
    /\ \A c \in DOMAIN x : x[c] \in 0..MaxTotalOf[site][c]          \* non-negative, within EVSE limits
=============================================================================
