------------------------------- MODULE AcnSim -------------------------------
(***************************************************************************)
(* The ACN-Sim simulator (acnportal/acnsim/simulator.py Simulator.run and  *)
(* its collaborators EventQueue, ChargingNetwork, EVSE, EV, Battery) as a  *)
(* state machine.  One action per critical section of run():               *)
(*                                                                         *)
(*   Loop     the while-test and get_current_events(iteration)             *)
(*   Proc     one _process_event                                           *)
(*   Decide   the recompute condition                                      *)
(*   SchedReturn / SchedRaise   scheduler.run() returns / raises           *)
(*   Update / Reject            _update_schedules accepts / rejects        *)
(*   Apply    update_pilots + _store_actual_charging_rates +               *)
(*            post_charging_update + iteration += 1                        *)
(*   Resume   run() called again after an exception left it                *)
(*   DumpLoad Simulator.from_json(sim.to_json()) while stopped             *)
(*                                                                         *)
(* The scenario (sessions, recompute events) is chosen by Setup actions so *)
(* that one TLC run covers every scenario within the constants.            *)
(*                                                                         *)
(* Units: time in periods; T = period length in minutes; pilots in A;      *)
(* voltages in V; energies in W*min (1 kWh = 60000 W*min); powers in W.    *)
(* Aggregate current is kept as a numerator over VL*T where VL is a common *)
(* multiple of all station voltages.                                       *)
(***************************************************************************)
EXTENDS Integers, Sequences, FiniteSets, TLC, Json

CONSTANTS
    NS,         \* number of stations, ids 1..NS
    Volt,       \* <<V_1,...,V_NS>>
    VL,         \* common multiple of the voltages
    T,          \* period (minutes)
    MRSet,      \* values of max_recompute a scenario may use; 0 stands for None
    MaxSess,    \* at most this many sessions
    MaxArr,     \* arrivals in 0..MaxArr
    MaxDur,     \* stay durations in 1..MaxDur
    ReqSet,     \* requested energies (W*min)
    BattSet,    \* battery parameter records [cap, init, pw]; cap 0 means
                \*   "capacity = init + request" (the generators' default)
    Menu,       \* the schedules a scripted scheduler may return
    RecompSets, \* sets of Recompute-event timestamps a scenario may contain
    MaxCrash,   \* at most this many interruptions per behaviour
    AllowDump,  \* BOOLEAN: JSON round trip allowed while stopped
    H,          \* array horizon: all periods are in 0..H
    Rec         \* BOOLEAN: keep the history variable (for spec->code replay)

ASSUME /\ NS \in Nat \ {0} /\ Len(Volt) = NS
       /\ \A s \in 1..NS : VL % Volt[s] = 0
       /\ MRSet \subseteq Nat /\ T \in Nat \ {0}

VARIABLES
    pc,         \* position in run(): Setup Loop Proc Decide Sched Update Apply Stopped Done Emitted
    sess,       \* scenario: sequence of [st, arr, dep, req, cap, init, pw]
    recomp,     \* scenario: set of Recompute timestamps
    MR,         \* scenario: max_recompute (0 = None)
    queue,      \* pending events: set of [kind, ts, id]
    t,          \* Simulator._iteration
    resolve,    \* Simulator._resolve
    lastUpd,    \* Simulator._last_schedule_update (-1 = None)
    batch,      \* events popped for this period, still to be processed
    occ,        \* occ[s] = session index plugged in at s, 0 = vacant
    evsePilot,  \* EVSE._current_pilot
    pilots,     \* pilots[s][k+1] = pilot_signals[s, k]   (0 outside)
    dE,         \* dE[s][k+1] = energy delivered at s in period k = charging_rates[s,k]*V*T
    evE,        \* EV._energy_delivered per session
    chg,        \* Battery._current_charge per session
    lastE,      \* EV._current_charging_rate (as energy of the last charge call)
    peakN,      \* Simulator.peak as numerator over VL*T
    evHist,     \* Simulator.event_history with the period each was processed in
    seen,       \* keys of Simulator.ev_history
    schedHist,  \* Simulator.schedule_history (period -> schedule id)
    sigma,      \* schedule returned by the scheduler, not yet applied
    \* ---- ghost variables (no counterpart in the code) ----
    subs,       \* accepted non-empty submissions <<period, schedule>>
    invLog,     \* periods in which an invocation completed (update applied)
    snap,       \* durable state captured at the latest interruption (valid iff ncrash > 0)
    ncrash,
    resumed,    \* TRUE from Resume until the scheduler is invoked again
    hist        \* observation log for replay

durable == <<sess, recomp, MR, queue, t, resolve, lastUpd, batch, occ, evsePilot,
             pilots, dE, evE, chg, lastE, peakN, evHist, seen, schedHist>>
ghost   == <<subs, invLog, snap, ncrash, resumed>>
vars    == <<pc, durable, sigma, ghost, hist>>

-----------------------------------------------------------------------------
Min2(a, b) == IF a <= b THEN a ELSE b
Max2(a, b) == IF a >= b THEN a ELSE b
Stations == 1..NS
Zeros == [k \in 1..(H+1) |-> 0]

Prec(kind) == CASE kind = "Unplug" -> 0 [] kind = "Plugin" -> 10 [] kind = "Recompute" -> 20
EKey(e) == e.ts * 100 + Prec(e.kind)

\* Sum of f[x] over a finite set of integers.
RECURSIVE SumSet(_, _)
SumSet(f, S) == IF S = {} THEN 0
                ELSE LET x == CHOOSE y \in S : TRUE IN f[x] + SumSet(f, S \ {x})

\* Events of a set ordered by (timestamp, precedence, id): the order in which
\* get_current_events may hand them out (ties within equal key are free in the
\* code; the spec fixes id order and replay compares modulo equal keys).
RECURSIVE SortEvents(_)
SortEvents(S) ==
    IF S = {} THEN <<>>
    ELSE LET m == CHOOSE e \in S : \A f \in S :
                      \/ EKey(e) < EKey(f)
                      \/ (EKey(e) = EKey(f) /\ e.id <= f.id)
         IN <<m>> \o SortEvents(S \ {m})

Cap(v)  == IF v.b.cap = 0 THEN v.b.init + v.req ELSE v.b.cap
SKey(x) == x.arr * (NS + 1) + x.st

\* Pilots are stored in units of 1/PU ampere (PU = 1: whole amperes).  A configuration that wants
\* non-integral pilots (7.5 A) overrides PU in its cfg (PU <- PU2) and chooses voltages/periods such
\* that every pilot energy p*V*T/PU is a whole number of W*min (checked by PilotUnitsExact).
PU == 1
PilotEnergy(p, s) == (p * Volt[s] * T) \div PU

\* ---- what a station advertises to schedulers (C05 "true infrastructure description") ----
\* The EVSE classes a replay may put on a station, in the units of EVSEDefs.tla (1e-4 A), and what
\* each of them tells a scheduler; MenuAcceptedBy(k) decides the scope assumption "every pilot of the
\* menu is accepted by the EVSE" for class k, so the harness only uses classes for which it holds.
ED == INSTANCE EVSEDefs
KindDefs == [cont     |-> [cls |-> "cont", min |-> 0, max |-> 320000],
             deadband |-> [cls |-> "deadband", end |-> 60000, max |-> 320000],
             finite   |-> [cls |-> "finite", levels |-> <<320000, 80000, 0, 160000, 240000>>],
             finiteB  |-> [cls |-> "finite", levels |-> <<160000, 320000>>],
             finiteC  |-> [cls |-> "finite", levels |-> <<60000, 120000, 180000, 240000, 300000>>]]
KindTab == [k \in DOMAIN KindDefs |-> ED!Describe(KindDefs[k])]
MenuPilots(menu) == UNION {UNION {{menu[m].rows[s][j] : j \in DOMAIN menu[m].rows[s]} : s \in DOMAIN menu[m].rows}
                           : m \in DOMAIN menu}
MenuAcceptedBy(k, menu) == \A p \in MenuPilots(menu) : (p * 10000) % PU = 0 /\ ED!Valid(KindDefs[k], (p * 10000) \div PU)

\* The ideal battery law (Battery.charge): energy accepted in one period.
Charge(i, p, s) ==
    Min2(Min2(PilotEnergy(p, s), sess[i].pw * T), sess[i].cap - chg[i])

Connected(i, k) == sess[i].arr <= k /\ k < sess[i].dep
\* `recomp` holds the scenario's EXTRA events (those the caller queues besides the sessions' plug-ins):
\*   r < 1000          a Recompute event at period r;
\*   r = 1000*i + x    a second, "stray" Unplug event for session i at period x > its departure (a duplicated or
\*                     late departure notice - the caller may queue any event): when it is handled session i is not at
\*                     its station any more (the station is vacant or has its next occupant), so it detaches nobody,
\*                     but it IS an event of period x: it is recorded, it requests a recompute, and the run lasts
\*                     until it has been handled.
IsStray(r) == r >= 1000
XTs(r) == IF IsStray(r) THEN r % 1000 ELSE r
XSess(r) == r \div 1000
ExtraEvents(R) == {[kind |-> "Recompute", ts |-> r, id |-> 100 + r] : r \in {x \in R : ~IsStray(x)}}
                  \cup {[kind |-> "Unplug", ts |-> XTs(r), id |-> XSess(r)] : r \in {x \in R : IsStray(x)}}
ExtraOK(R) == \A r \in R : IsStray(r) => (XSess(r) \in 1..Len(sess) /\ XTs(r) > sess[XSess(r)].dep)
LastTs == LET D == {sess[i].dep : i \in 1..Len(sess)} \cup {XTs(r) : r \in recomp}
          IN CHOOSE m \in D : \A x \in D : x <= m

Log(r) == IF Rec THEN Append(hist, r) ELSE hist

-----------------------------------------------------------------------------
Init ==
    /\ pc = "Setup" /\ sess = <<>> /\ recomp = {} /\ MR = 0 /\ queue = {} /\ t = 0
    /\ resolve = FALSE /\ lastUpd = -1 /\ batch = <<>>
    /\ occ = [s \in Stations |-> 0] /\ evsePilot = [s \in Stations |-> 0]
    /\ pilots = [s \in Stations |-> Zeros] /\ dE = [s \in Stations |-> Zeros]
    /\ evE = [i \in 1..MaxSess |-> 0] /\ chg = [i \in 1..MaxSess |-> 0]
    /\ lastE = [i \in 1..MaxSess |-> 0] /\ peakN = 0 /\ evHist = <<>>
    /\ seen = {} /\ schedHist = <<>> /\ sigma = 0
    /\ subs = <<>> /\ invLog = <<>> /\ snap = 0 /\ ncrash = 0 /\ resumed = FALSE /\ hist = <<>>

\* ---- scenario construction -------------------------------------------------
SessVals == [st : Stations, arr : 0..MaxArr, dur : 1..MaxDur, req : ReqSet, b : BattSet]

AddSession(v) ==
    /\ pc = "Setup" /\ Len(sess) < MaxSess
    /\ v.b.cap = 0 \/ v.b.cap - v.b.init >= v.req
    /\ v.req = 0 => v.b.cap # 0                 \* (a battery needs a positive capacity)
    /\ LET new == [st |-> v.st, arr |-> v.arr, dep |-> v.arr + v.dur, req |-> v.req,
                   cap |-> Cap(v), init |-> v.b.init, pw |-> v.b.pw]
       IN /\ Len(sess) > 0 => SKey(sess[Len(sess)]) < SKey(new)   \* canonical order
          /\ \A i \in 1..Len(sess) :                             \* no overlap on a station
                sess[i].st = new.st => (sess[i].dep <= new.arr \/ new.dep <= sess[i].arr)
          /\ sess' = Append(sess, new)
          /\ chg' = [chg EXCEPT ![Len(sess) + 1] = new.init]
    /\ UNCHANGED <<pc, recomp, MR, queue, t, resolve, lastUpd, batch, occ, evsePilot, pilots,
                   dE, evE, lastE, peakN, evHist, seen, schedHist, sigma, ghost, hist>>

Start(R, mr) ==
    /\ pc = "Setup" /\ R \in RecompSets /\ mr \in MRSet
    /\ Len(sess) > 0 \/ R # {}
    /\ ExtraOK(R)
    /\ recomp' = R /\ MR' = mr
    /\ queue' = {[kind |-> "Plugin", ts |-> sess[i].arr, id |-> i] : i \in 1..Len(sess)}
                \cup ExtraEvents(R)
    /\ pc' = "Loop"
    /\ hist' = Log([a |-> "start", sess |-> sess, recomp |-> R, volt |-> Volt, T |-> T,
                    mr |-> mr, ns |-> NS, vl |-> VL, menu |-> Menu, pu |-> PU,
                    kindtab |-> KindTab,
                    accepts |-> [k \in DOMAIN KindDefs |-> MenuAcceptedBy(k, Menu)]])
    /\ UNCHANGED <<sess, t, resolve, lastUpd, batch, occ, evsePilot, pilots, dE, evE, chg,
                   lastE, peakN, evHist, seen, schedHist, sigma, ghost>>

\* ---- Simulator.run ---------------------------------------------------------
\* while not event_queue.empty() [or a recompute is still pending]:
\*     current_events = event_queue.get_current_events(iteration)
Loop ==
    /\ pc = "Loop"
    /\ IF queue = {} /\ ~resolve
       THEN /\ pc' = "Done" /\ UNCHANGED <<batch, queue>>
       ELSE LET due == {e \in queue : e.ts <= t}
            IN /\ batch' = SortEvents(due) /\ queue' = queue \ due /\ pc' = "Proc"
    /\ UNCHANGED <<sess, recomp, MR, t, resolve, lastUpd, occ, evsePilot, pilots, dE, evE, chg,
                   lastE, peakN, evHist, seen, schedHist, sigma, ghost, hist>>

\* for e in current_events: event_history.append(e); _process_event(e)
\* ProcE(e, rest): process event e, leaving `rest` still to be processed in this period.
\* (Proc takes the head of the batch; the trace specification may take any event of the
\* batch whose (timestamp, precedence) key is minimal - the code leaves that order free.)
ProcE(e, rest) ==
    /\ batch' = rest
    /\ evHist' = Append(evHist, [kind |-> e.kind, ts |-> e.ts, id |-> e.id, at |-> t])
    /\ resolve' = TRUE
    /\ CASE e.kind = "Plugin" ->
              /\ occ[sess[e.id].st] = 0           \* else StationOccupiedError
              /\ occ' = [occ EXCEPT ![sess[e.id].st] = e.id]
              /\ seen' = seen \cup {e.id}
              /\ queue' = queue \cup {[kind |-> "Unplug", ts |-> sess[e.id].dep, id |-> e.id]}
              /\ lastUpd' = e.ts
              /\ UNCHANGED evsePilot
         [] e.kind = "Unplug" ->
              /\ IF occ[sess[e.id].st] = e.id
                 THEN /\ occ' = [occ EXCEPT ![sess[e.id].st] = 0]
                      /\ evsePilot' = [evsePilot EXCEPT ![sess[e.id].st] = 0]
                 ELSE UNCHANGED <<occ, evsePilot>>
              /\ lastUpd' = e.ts
              /\ UNCHANGED <<seen, queue>>
         [] e.kind = "Recompute" ->
              UNCHANGED <<occ, evsePilot, seen, queue, lastUpd>>

ProcRest == <<sess, recomp, MR, t, pilots, dE, evE, chg, lastE, peakN, schedHist, sigma, ghost, hist>>

ProcEnd ==      \* the period's events are done: go on to the recompute test
    /\ pc = "Proc" /\ batch = <<>> /\ pc' = "Decide"
    /\ UNCHANGED <<batch, queue, occ, evsePilot, seen, resolve, lastUpd, evHist>>
    /\ UNCHANGED ProcRest

Proc ==
    \/ ProcEnd
    \/ /\ pc = "Proc" /\ batch # <<>> /\ pc' = "Proc"
       /\ ProcE(Head(batch), Tail(batch))
       /\ UNCHANGED ProcRest

\* if _resolve or max_recompute is not None and
\*    (_last_schedule_update is None or iteration - _last_schedule_update >= max_recompute)
MustSchedule == resolve \/ (MR # 0 /\ (lastUpd = -1 \/ t - lastUpd >= MR))

Decide ==
    /\ pc = "Decide"
    /\ pc' = IF MustSchedule THEN "Sched" ELSE "Apply"
    /\ UNCHANGED <<durable, sigma, ghost, hist>>

\* What the scheduler can observe through the Interface at invocation.
Active == {i \in 1..Len(sess) : occ[sess[i].st] = i /\ sess[i].req - evE[i] > 60}
Obs == [t |-> t,
        active |-> Active,
        evE |-> [i \in Active |-> evE[i]],
        lastE |-> [i \in Active |-> lastE[i]],
        lastP |-> IF t - 1 > 0
                  THEN [i \in {j \in Active : sess[j].arr <= t - 1} |-> pilots[sess[i].st][t]]
                  ELSE <<>>,
        peakN |-> peakN,
        occ |-> occ,
        nev |-> Len(evHist),
        qlen |-> Cardinality(queue)]

\* The schedules a scheduler may return are numbered; Sched(m) is schedule number m.
\* (Model checking and generation use the constant Menu; the trace specification
\* overrides MenuIds/Sched with the schedules the real scheduler returned.)
MenuIds == DOMAIN Menu
Sched(m) == Menu[m]
SLen(m) == Sched(m).len
Good(m) == Sched(m).kind = "ok"

SchedReturn(m) ==
    /\ pc = "Sched" /\ m \in MenuIds
    /\ Good(m) \/ ncrash < MaxCrash      \* a bad schedule ends in Reject
    /\ sigma' = m /\ pc' = "Update" /\ resumed' = FALSE
    /\ hist' = Log([a |-> "sched", obs |-> Obs, ret |-> m])
    /\ UNCHANGED <<durable, subs, invLog, snap, ncrash>>

Durable == [queue |-> queue, t |-> t, resolve |-> resolve, lastUpd |-> lastUpd, batch |-> batch,
            occ |-> occ, evsePilot |-> evsePilot, pilots |-> pilots, dE |-> dE, evE |-> evE,
            chg |-> chg, lastE |-> lastE, peakN |-> peakN, evHist |-> evHist, seen |-> seen,
            schedHist |-> schedHist]

SchedRaise ==
    /\ pc = "Sched" /\ ncrash < MaxCrash
    /\ pc' = "Stopped" /\ ncrash' = ncrash + 1 /\ snap' = Durable /\ resumed' = FALSE
    /\ hist' = Log([a |-> "raise", obs |-> Obs])
    /\ UNCHANGED <<durable, sigma, subs, invLog>>

Resume ==
    /\ pc = "Stopped" /\ pc' = "Loop" /\ resumed' = TRUE
    /\ hist' = Log([a |-> "resume"])
    /\ UNCHANGED <<durable, sigma, subs, invLog, snap, ncrash>>

\* Simulator.from_json(sim.to_json()) can be called wherever run() is not executing: while stopped at
\* an interruption, before the first run(), and after run() has returned.
BeforeFirstRun == pc = "Loop" /\ t = 0 /\ evHist = <<>> /\ schedHist = <<>> /\ ncrash = 0 /\ ~resumed
DumpLoad ==
    /\ AllowDump
    /\ pc = "Stopped" \/ pc = "Done" \/ BeforeFirstRun
    /\ IF hist = <<>> THEN TRUE ELSE hist[Len(hist)].a # "dumpload"   \* at most one per stop
    /\ hist' = Log([a |-> "dumpload"])
    /\ UNCHANGED <<pc, durable, sigma, ghost>>

\* ---- the feasibility warning of _update_schedules -----------------------------------------
\* A schedule that violates a network constraint is applied all the same, but the simulator warns
\* ("Invalid schedule provided at iteration t. Max violation is d A on <constraint> at time index k").
\* ConsAgg is the single-phase constraint set the replay harness calls "agg" (sum over all stations
\* <= 40 A, first station <= 20 A; limits in amperes, pilots in 1/PU A): the aggregates are plain sums,
\* so the verdict is exact in integers (the default tolerance 1e-5 A never decides a lattice case).
ConsAgg == << [name |-> "agg", coef |-> [s \in Stations |-> 1], lim |-> 40],
              [name |-> "first", coef |-> [s \in Stations |-> IF s = 1 THEN 1 ELSE 0], lim |-> 20] >>
RowOf(m, s, k) == LET R == Sched(m).rows IN IF s \in DOMAIN R THEN R[s][k] ELSE 0
AbsW(x) == IF x < 0 THEN -x ELSE x
\* excess of constraint c in column k of schedule m, in 1/PU A (positive = violated)
Excess(cons, m, c, k) == AbsW(SumSet([s \in Stations |-> cons[c].coef[s] * RowOf(m, s, k)], Stations)) - cons[c].lim * PU
ViolatedCells(cons, m) == {ck \in (DOMAIN cons) \X (1..SLen(m)) : Excess(cons, m, ck[1], ck[2]) > 0}
\* the cell the warning names: the largest excess, the first such cell in (constraint, column) order
WorstCell(cons, m) ==
    LET V == ViolatedCells(cons, m)
        top == {ck \in V : \A o \in V : Excess(cons, m, o[1], o[2]) <= Excess(cons, m, ck[1], ck[2])}
    IN CHOOSE ck \in top : \A o \in top : ck[1] < o[1] \/ (ck[1] = o[1] /\ ck[2] <= o[2])
Warning(cons, m) ==
    IF DOMAIN Sched(m).rows = {} \/ ViolatedCells(cons, m) = {}
    THEN [warn |-> FALSE, name |-> "", k |-> 0, ex |-> 0, tie |-> FALSE]
    ELSE LET w == WorstCell(cons, m)
             V == ViolatedCells(cons, m)
         IN [warn |-> TRUE, name |-> cons[w[1]].name, k |-> w[2] - 1, ex |-> Excess(cons, m, w[1], w[2]),
             \* several cells share the largest excess: which one is named depends on the order of the constraints
             tie |-> \E o \in V : o # w /\ Excess(cons, m, o[1], o[2]) = Excess(cons, m, w[1], w[2])]

\* _update_schedules(new_schedule)

\* UpdateAt(here, next): the schedule bookkeeping, entered at pc = here and left at pc = next
\* (run(): Update == UpdateAt("Update", "Apply"); step() has its own pc values, see AcnSimStep.tla).
UpdateAt(here, next) ==
    /\ pc = here /\ Good(sigma)
    /\ LET m == sigma  R == Sched(m).rows  L == SLen(m) IN
       /\ IF DOMAIN R = {}
          THEN UNCHANGED <<pilots, subs>>
          ELSE /\ t + L <= H + 1
               /\ pilots' = [s \in Stations |->
                               [k \in 1..(H+1) |->
                                   IF t + 1 <= k /\ k <= t + L
                                   THEN (IF s \in DOMAIN R THEN R[s][k - t] ELSE 0)
                                   ELSE pilots[s][k]]]
               /\ subs' = Append(subs, <<t, m>>)
       /\ schedHist' = Append(schedHist, <<t, m>>)
       /\ lastUpd' = t /\ resolve' = FALSE /\ pc' = next
       /\ invLog' = Append(invLog, t)
       /\ hist' = Log([a |-> "update", t |-> t, m |-> m, pilots |-> pilots', warnAgg |-> Warning(ConsAgg, m)])
    /\ UNCHANGED <<sess, recomp, MR, queue, t, batch, occ, evsePilot, dE, evE, chg, lastE, peakN,
                   evHist, seen, sigma, snap, ncrash, resumed>>

Update == UpdateAt("Update", "Apply")

\* A schedule naming an unknown station or with rows of unequal length: the
\* exception leaves run(); nothing has changed.
Reject ==
    /\ pc = "Update" /\ ~Good(sigma) /\ ncrash < MaxCrash
    /\ pc' = "Stopped" /\ ncrash' = ncrash + 1 /\ snap' = Durable
    /\ hist' = Log([a |-> "reject", t |-> t, m |-> sigma, pilots |-> pilots])
    /\ UNCHANGED <<durable, sigma, subs, invLog, resumed>>

\* network.update_pilots(pilot_signals, iteration, period);
\* _store_actual_charging_rates(); post_charging_update(); iteration += 1
AggN(E) == SumSet([s \in Stations |-> E[s] * (VL \div Volt[s])], Stations)

\* ApplyAt(E, here, next) / ApplyWith(E): the period is applied and station s delivers energy E[s].  Apply uses the
\* ideal battery law; the trace specification also admits any E inside the physical
\* envelope (two-stage batteries, noise) - see Envelope.
ApplyAt(E, here, next) ==
    /\ pc = here
    /\ LET P == [s \in Stations |-> pilots[s][t + 1]]
           occd == {occ[s] : s \in Stations} \ {0}
           stOf == [i \in occd |-> CHOOSE s \in Stations : occ[s] = i]
       IN /\ evsePilot' = P
          /\ dE' = [s \in Stations |-> [dE[s] EXCEPT ![t + 1] = E[s]]]
          /\ evE' = [i \in 1..MaxSess |-> IF i \in occd THEN evE[i] + E[stOf[i]] ELSE evE[i]]
          /\ chg' = [i \in 1..MaxSess |-> IF i \in occd THEN chg[i] + E[stOf[i]] ELSE chg[i]]
          /\ lastE' = [i \in 1..MaxSess |-> IF i \in occd THEN E[stOf[i]] ELSE lastE[i]]
          /\ peakN' = Max2(peakN, AggN(E))
          /\ hist' = Log([a |-> "apply", t |-> t, P |-> P, E |-> E, occ |-> occ,
                          evE |-> evE', chg |-> chg', peakN |-> peakN'])
    /\ t' = t + 1 /\ pc' = next
    /\ UNCHANGED <<sess, recomp, MR, queue, resolve, lastUpd, batch, occ, pilots, evHist, seen,
                   schedHist, sigma, ghost>>

ApplyWith(E) == ApplyAt(E, "Apply", "Loop")

IdealE == [s \in Stations |-> IF occ[s] = 0 THEN 0 ELSE Charge(occ[s], pilots[s][t + 1], s)]

\* What any battery may physically do in one period (C03): nothing at a vacant station,
\* and between nothing and the ideal amount at an occupied one.
Envelope(E) == \A s \in Stations : 0 <= E[s] /\ E[s] <= IdealE[s]

Apply == ApplyWith(IdealE)

\* The behaviour is complete: hand it to the replay harness.
Finish ==
    /\ pc = "Done"
    /\ IF Rec
       THEN PrintT(<<"BHV", ToJson(Append(hist,
               [a |-> "done", t |-> t, pilots |-> pilots, dE |-> dE, evE |-> evE, chg |-> chg,
                peakN |-> peakN, evHist |-> evHist, seen |-> seen, schedHist |-> schedHist,
                occ |-> occ, qlen |-> Cardinality(queue)]))>>)
       ELSE TRUE
    /\ pc' = "Emitted"
    /\ UNCHANGED <<durable, sigma, ghost, hist>>

Terminated == pc = "Emitted" /\ UNCHANGED vars

Next ==
    \/ \E v \in SessVals : AddSession(v)
    \/ \E R \in RecompSets, mr \in MRSet : Start(R, mr)
    \/ Loop \/ Proc \/ Decide
    \/ \E m \in MenuIds : SchedReturn(m)
    \/ SchedRaise \/ Resume \/ DumpLoad
    \/ Update \/ Reject \/ Apply \/ Finish \/ Terminated

Spec == Init /\ [][Next]_vars
FairSpec == Spec /\ WF_vars(Loop) /\ WF_vars(Proc) /\ WF_vars(Decide)
                 /\ WF_vars(\E m \in MenuIds : SchedReturn(m))
                 /\ WF_vars(Update) /\ WF_vars(Apply) /\ WF_vars(Resume)
                 /\ WF_vars(Reject) /\ WF_vars(Finish)
                 /\ WF_vars(\E R \in RecompSets, mr \in MRSet : Start(R, mr))

-----------------------------------------------------------------------------
\* ============================ properties ===================================
Running == pc \notin {"Setup"}
N == Len(sess)

TypeOK ==
    /\ pc \in {"Setup", "Loop", "Proc", "Decide", "Sched", "Update", "Apply", "Stopped",
               "Done", "Emitted",
               "SIdle", "SLoop", "SUpdate", "SApply", "SEvents", "SProc"}    \* step(), AcnSimStep.tla
    /\ t \in 0..(H+1) /\ lastUpd \in -1..(H+1)
    /\ \A s \in Stations : occ[s] \in 0..N

\* ---- C01 ----
EventOrder ==                       \* processed in non-decreasing (time, precedence) order
    \A a, b \in 1..Len(evHist) : a < b => EKey(evHist[a]) <= EKey(evHist[b])
ProcessedOnTime ==                  \* each event is handled in the period of its timestamp
    \A a \in 1..Len(evHist) : evHist[a].at = evHist[a].ts
StrayEntry(a) == evHist[a].kind = "Unplug" /\ (1000 * evHist[a].id + evHist[a].ts) \in recomp
PlugOnce ==                         \* never two Plugin / two Unplug for one session (stray notices aside: they detach nobody)
    \A a, b \in 1..Len(evHist) :
        (a # b /\ evHist[a].kind = evHist[b].kind /\ evHist[a].kind # "Recompute" /\ ~StrayEntry(a) /\ ~StrayEntry(b))
            => evHist[a].id # evHist[b].id
StrayDetachesNobody ==              \* a stray Unplug never changes who is connected (the session check of unplug)
    [][(pc = "Proc" /\ batch # <<>> /\ Head(batch).kind = "Unplug"
        /\ (1000 * Head(batch).id + Head(batch).ts) \in recomp) => occ' = occ]_vars
ConnectedExactly ==                 \* connected exactly in [arrival, departure)
    pc = "Apply" => \A i \in 1..N : (occ[sess[i].st] = i) <=> Connected(i, t)
OneOccupant ==
    \A s \in Stations : occ[s] # 0 => sess[occ[s]].st = s
DoneShape ==
    pc \in {"Done", "Emitted"} =>
        /\ queue = {} /\ \A s \in Stations : occ[s] = 0
        /\ t = LastTs + 1
        /\ \A i \in 1..N :
             /\ \E a \in 1..Len(evHist) : evHist[a].kind = "Plugin" /\ evHist[a].id = i
                                          /\ evHist[a].at = sess[i].arr
             /\ \E a \in 1..Len(evHist) : evHist[a].kind = "Unplug" /\ evHist[a].id = i
                                          /\ evHist[a].at = sess[i].dep
        /\ Len(evHist) = 2 * N + Cardinality(recomp)
        /\ seen = 1..N
Termination == <>(pc = "Emitted")

\* ---- C02 / C03 ----
ConnPeriods(i) == {k \in 0..(t-1) : Connected(i, k)}
Ledger ==
    (Running /\ pc # "Setup") =>
    \A i \in 1..N :
        /\ evE[i] = SumSet([k \in 0..H |-> dE[sess[i].st][k + 1]], ConnPeriods(i))
        /\ chg[i] - sess[i].init = evE[i]
VacantZero ==
    \A s \in Stations : \A k \in 0..H :
        (\A i \in 1..N : ~(sess[i].st = s /\ Connected(i, k))) => dE[s][k + 1] = 0
NotYetZero == \A s \in Stations : \A k \in t..H : dE[s][k + 1] = 0
PeakIsMax ==
    LET agg(k) == SumSet([s \in Stations |-> dE[s][k + 1] * (VL \div Volt[s])], Stations)
    IN /\ \A k \in 0..H : agg(k) <= peakN
       /\ (peakN = 0 \/ \E k \in 0..H : agg(k) = peakN)
RateBounds ==                       \* 0 <= rate <= pilot, power <= max, charge <= capacity
    /\ \A s \in Stations : \A k \in 0..(t-1) :
          /\ 0 <= dE[s][k + 1] /\ dE[s][k + 1] <= PilotEnergy(pilots[s][k + 1], s)
    /\ \A i \in 1..N : sess[i].init <= chg[i] /\ chg[i] <= sess[i].cap

PilotUnitsExact ==                  \* every pilot energy is a whole number of W*min
    \A s \in Stations : \A k \in 0..H : (pilots[s][k + 1] * Volt[s] * T) % PU = 0

\* ---- C04 ----  pilots recomputed from the submission log alone
Covering(s, k) == {j \in 1..Len(subs) : subs[j][1] <= k /\ k < subs[j][1] + SLen(subs[j][2])}
Def(s, k) ==
    IF Covering(s, k) = {} THEN 0
    ELSE LET j == CHOOSE x \in Covering(s, k) : \A y \in Covering(s, k) : y <= x
             R == Sched(subs[j][2]).rows
         IN IF s \in DOMAIN R THEN R[s][k - subs[j][1] + 1] ELSE 0
PilotsMatchSubmissions ==
    \A s \in Stations : \A k \in 0..H : pilots[s][k + 1] = Def(s, k)
AppliedIsDef ==                     \* what the EVSE holds is the pilot of the last applied column
    (pc \in {"Loop", "Done", "Emitted"} /\ t > 0 /\ ~resolve) =>
        \A s \in Stations : occ[s] # 0 => evsePilot[s] = pilots[s][t]
RejectChangesNothing == [][Reject => UNCHANGED durable]_vars

\* ---- C05 ----  defined from the scenario and the invocation log only
EventAt(k) == (\E i \in 1..N : sess[i].arr = k \/ sess[i].dep = k) \/ k \in {XTs(r) : r \in recomp}
InvokedAt(k) == \E j \in 1..Len(invLog) : invLog[j] = k
LastInvBefore(k) == LET S == {invLog[j] : j \in 1..Len(invLog)} \cap 0..(k-1)
                    IN IF S = {} THEN -1 ELSE CHOOSE m \in S : \A x \in S : x <= m
ShouldInvoke(k) == EventAt(k) \/ (MR # 0 /\ (LastInvBefore(k) = -1 \/ k - LastInvBefore(k) >= MR))
InvokeIff == \A k \in 0..(t-1) : InvokedAt(k) <=> ShouldInvoke(k)
AtMostOncePerPeriod ==
    \A a, b \in 1..Len(invLog) : a # b => invLog[a] # invLog[b]
InvokedAfterEvents ==               \* the scheduler runs only after the period's events
    pc = "Sched" => /\ batch = <<>> /\ \A e \in queue : e.ts > t

\* ---- C09 ----
CrashTransparent ==
    /\ (resumed /\ pc = "Sched") => Durable = snap   \* the scheduler is re-invoked on the same state
    /\ (pc = "Stopped") => snap = Durable
    /\ resumed => pc \in {"Loop", "Proc", "Decide", "Sched"}   \* ... and it is re-invoked
StoppedOnlyInPeriod == pc = "Stopped" => resolve \/ MustSchedule
DumpLoadChangesNothing == [][DumpLoad => UNCHANGED <<pc, durable, sigma>>]_vars

=============================================================================
