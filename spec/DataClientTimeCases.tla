------------------------ MODULE DataClientTimeCases ------------------------
(***************************************************************************)
(* Two small machines over the operators of DataClientTime.tla.            *)
(*                                                                         *)
(* CaseSpec - one behaviour per lattice case (zone, instant):              *)
(*   Init picks the case, Eval computes the specification's answer (the    *)
(*   RFC-1123 text of the instant and the aware local datetime that        *)
(*   parse_http_date / parse_dates must produce for it), Finish emits case *)
(*   + answer for the conformance run against acnportal.acndata.utils.     *)
(*   The theorems of C20 are invariants, so TLC decides them on exactly    *)
(*   the cases that are then executed through the real code.               *)
(*   The lattice: every instant  anchor + offset  where the anchors of a   *)
(*   year are the daylight-saving switches of all modelled zones and the   *)
(*   midnights (UTC and local, for every offset a modelled zone can have)  *)
(*   that begin a month or follow 28 February, and the offsets straddle    *)
(*   the anchor by seconds, half hours, hours and a day.                   *)
(*                                                                         *)
(* WalkSpec - a calendar that is advanced one day at a time with the       *)
(*   textbook rules (month lengths, leap years, weekday + 1, "clocks       *)
(*   change on the 2nd Sunday of March ...") from 1 January of WalkFrom to *)
(*   31 December of WalkTo.  Invariant: the closed-form operators agree    *)
(*   with the walked calendar on every single day (exhaustive).            *)
(***************************************************************************)
EXTENDS DataClientTime, FiniteSets, Json

CONSTANTS
    CaseZones,      \* subset of ZoneNames
    Years,          \* years whose anchors are used
    Months,         \* months whose first midnight is an anchor
    Deltas,         \* offsets (s) around each anchor
    WalkFrom, WalkTo,
    Rec             \* emit the evaluated cases

VARIABLES pc, zone, t, ans
vars == <<pc, zone, t, ans>>

-----------------------------------------------------------------------------
ZoneOffsets == {0, 3600, 19800, -28800, -25200}     \* every utcoffset a modelled zone can have

Anchors(y) ==
    {DstStart(z, y) : z \in {zz \in ZoneNames : Zone(zz).rule # "none" /\ y >= Zone(zz).from}}
    \cup {DstEnd(z, y) : z \in {zz \in ZoneNames : Zone(zz).rule # "none" /\ y >= Zone(zz).from}}
    \cup {DaysFromCivil(y, m, 1) * DAY - o : m \in Months, o \in ZoneOffsets}
    \cup {(DaysFromCivil(y, 2, 28) + 1) * DAY - o : o \in ZoneOffsets}       \* 29 Feb or 1 Mar

Lattice == UNION {{a + dl : dl \in Deltas} : a \in UNION {Anchors(y) : y \in Years}}

CaseInit ==
    /\ pc = "case"
    /\ zone \in CaseZones
    /\ t \in Lattice
    /\ t >= DAY /\ InModel(zone, t) /\ InModel(zone, t + 1)
    /\ ans = <<>>

\* The specification's answer for the case.
Answer(z, i) ==
    LET L == ToLocal(z, i) IN
    [kind |-> "time", zone |-> z, t |-> i, text |-> Format(i),
     y |-> L.y, m |-> L.m, d |-> L.d, h |-> L.h, mi |-> L.mi, s |-> L.s, off |-> L.off, wd |-> L.wd, dst |-> L.dst]

Eval ==
    /\ pc = "case" /\ pc' = "evaluated"
    /\ ans' = Answer(zone, t)
    /\ UNCHANGED <<zone, t>>

Finish ==
    /\ pc = "evaluated" /\ pc' = "emitted"
    /\ IF Rec THEN PrintT(<<"BHV", ToJson(ans)>>) ELSE TRUE
    /\ UNCHANGED <<zone, t, ans>>

CaseDone == pc = "emitted" /\ UNCHANGED vars

CaseSpec == CaseInit /\ [][Eval \/ Finish \/ CaseDone]_vars

\* C20 (time conversion) on the case; evaluated once per case
CaseTheorems == pc = "evaluated" => TimeTheorems(zone, t)
\* the emitted answer is what the operators say: the text parses (in the zone) to exactly the emitted fields
AnswerIsParseOfText ==
    pc = "evaluated" =>
        LET L == ParseIn(ans.text, zone) IN
        /\ <<L.y, L.m, L.d, L.h, L.mi, L.s, L.off>> = <<ans.y, ans.m, ans.d, ans.h, ans.mi, ans.s, ans.off>>
        /\ FormatLocal(L) = ans.text

-----------------------------------------------------------------------------
(* The walked calendar.  ans = [y, m, d, wd, la, lon]: the date, its weekday and whether daylight *)
(* saving time is in force at noon (local standard time) of that day in Los Angeles and London.   *)

\* did the clocks change today?  (wall-calendar formulation: n-th / last Sunday of a month)
LaOn(y, m, d, wd) == wd = 0 /\ IF y >= 2007 THEN m = 3 /\ d \in 8..14 ELSE m = 4 /\ d \in 1..7
LaOff(y, m, d, wd) == wd = 0 /\ IF y >= 2007 THEN m = 11 /\ d \in 1..7 ELSE m = 10 /\ d \in 25..31
LonOn(y, m, d, wd) == wd = 0 /\ m = 3 /\ d \in 25..31
LonOff(y, m, d, wd) == wd = 0 /\ m = 10 /\ d \in 25..31

Flag(prev, on, off) == IF on THEN TRUE ELSE IF off THEN FALSE ELSE prev

WalkInit ==
    /\ pc = "walk" /\ zone = "UTC"
    /\ t = DaysFromCivilByCounting(WalkFrom, 1, 1) * DAY
    \* 1 January 1970 was a Thursday (4): the only calendar fact the walk is given
    /\ ans = [y |-> WalkFrom, m |-> 1, d |-> 1, wd |-> (4 + DaysFromCivilByCounting(WalkFrom, 1, 1)) % 7,
              la |-> FALSE, lon |-> FALSE]

Tick ==
    /\ pc = "walk"
    /\ ~(ans.y = WalkTo /\ ans.m = 12 /\ ans.d = 31)
    /\ LET last == ans.d = DaysInMonth(ans.y, ans.m)
           y2 == IF last /\ ans.m = 12 THEN ans.y + 1 ELSE ans.y
           m2 == IF last THEN (IF ans.m = 12 THEN 1 ELSE ans.m + 1) ELSE ans.m
           d2 == IF last THEN 1 ELSE ans.d + 1
           w2 == (ans.wd + 1) % 7
       IN ans' = [y |-> y2, m |-> m2, d |-> d2, wd |-> w2,
                  la |-> Flag(ans.la, LaOn(y2, m2, d2, w2), LaOff(y2, m2, d2, w2)),
                  lon |-> Flag(ans.lon, LonOn(y2, m2, d2, w2), LonOff(y2, m2, d2, w2))]
    /\ t' = t + DAY
    /\ UNCHANGED <<pc, zone>>

WalkDone == pc = "walk" /\ ans.y = WalkTo /\ ans.m = 12 /\ ans.d = 31 /\ UNCHANGED vars

WalkSpec == WalkInit /\ [][Tick \/ WalkDone]_vars

WalkAgrees ==
    pc = "walk" =>
        LET n == t \div DAY IN
        /\ CivilFromDays(n) = [y |-> ans.y, m |-> ans.m, d |-> ans.d]
        /\ DaysFromCivil(ans.y, ans.m, ans.d) = n
        /\ DaysFromCivilByCounting(ans.y, ans.m, ans.d) = n
        /\ Weekday(n) = ans.wd /\ WeekdayOfCivil(ans.y, ans.m, ans.d) = ans.wd
        \* noon local standard time of this day: Los Angeles 20:00 UTC, London 12:00 UTC
        /\ ans.y >= Zone("America/Los_Angeles").from => (IsDst("America/Los_Angeles", t + 72000) <=> ans.la)
        /\ ans.y >= Zone("Europe/London").from => (IsDst("Europe/London", t + 43200) <=> ans.lon)
        /\ ~IsDst("UTC", t + 43200) /\ ~IsDst("Asia/Kolkata", t + 43200)
\* the day's text names the walked date
WalkText ==
    pc = "walk" =>
        LET s == Format(t + 45296) IN      \* 12:34:56
        /\ WellFormed(s)
        /\ s = DayNames[ans.wd + 1] \o ", " \o Pad2(ans.d) \o " " \o MonNames[ans.m] \o " " \o ToString(ans.y)
               \o " 12:34:56 GMT"
        /\ Parse(s) = t + 45296
=============================================================================
