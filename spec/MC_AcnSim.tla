----------------------------- MODULE MC_AcnSim -----------------------------
(* Model-checking constants for AcnSim.tla (referenced from spec/cfg/AcnSim_*.cfg). *)
EXTENDS AcnSim

Volt2 == <<208, 240>>
Volt1 == <<208>>
Volt3 == <<208, 240, 120>>

\* batteries: cap 0 = "capacity = init + request"
BattDefault == {[cap |-> 0, init |-> 0, pw |-> 6656]}
BattMix == {[cap |-> 0, init |-> 0, pw |-> 6656],          \* exactly fits the request
            [cap |-> 120000, init |-> 30000, pw |-> 3000]}  \* roomy, power-limited

\* schedules a scripted scheduler may return
MenuBasic == <<
    [kind |-> "ok", len |-> 0, rows |-> <<>>],
    [kind |-> "ok", len |-> 1, rows |-> (1 :> <<16>>)],
    [kind |-> "ok", len |-> 2, rows |-> (1 :> <<32, 8>> @@ 2 :> <<8, 32>>)],
    [kind |-> "ok", len |-> 3, rows |-> (2 :> <<16, 0, 24>>)],
    [kind |-> "ok", len |-> 0, rows |-> (1 :> <<>>)] >>      \* names a station but covers no period: changes nothing

MenuReject == MenuBasic \o <<
    [kind |-> "unknown", len |-> 1, rows |-> (1 :> <<8>>)],
    [kind |-> "ragged", len |-> 2, rows |-> (1 :> <<8, 8>> @@ 2 :> <<8, 8>>)] >>
\* rows of unequal length again, the short one a single value (the harness cuts one row to its first entry): a
\* one-element row is not a constant to be spread over the periods - the schedule is rejected like any ragged one
MenuRejectGen == MenuReject \o <<
    [kind |-> "ragged1", len |-> 3, rows |-> (1 :> <<8, 16, 24>> @@ 2 :> <<16, 16, 16>>)] >>

MenuLong == <<
    [kind |-> "ok", len |-> 0, rows |-> <<>>],
    [kind |-> "ok", len |-> 1, rows |-> (1 :> <<32>> @@ 2 :> <<32>>)],
    [kind |-> "ok", len |-> 4, rows |-> (1 :> <<8, 16, 24, 32>>)],
    [kind |-> "ok", len |-> 5, rows |-> (1 :> <<32, 32, 0, 8, 8>> @@ 2 :> <<8, 8, 8, 32, 32>>)],
    [kind |-> "ok", len |-> 0, rows |-> (2 :> <<>> @@ 1 :> <<>>)] >>

MenuC04 == MenuLong \o <<
    [kind |-> "ok", len |-> 2, rows |-> (2 :> <<24, 24>>)],
    [kind |-> "unknown", len |-> 2, rows |-> (1 :> <<8, 8>>)],
    [kind |-> "ragged", len |-> 2, rows |-> (1 :> <<8, 8>> @@ 2 :> <<8, 8>>)],
    \* rows of unequal length again, the short one a single value (the harness cuts one row to its first entry): a
    \* one-element row is not a constant to be spread over the periods - the schedule is rejected like any ragged one
    [kind |-> "ragged1", len |-> 3, rows |-> (1 :> <<8, 16, 24>> @@ 2 :> <<16, 16, 16>>)] >>

MenuOne == << [kind |-> "ok", len |-> 1, rows |-> (1 :> <<32>> @@ 2 :> <<16>>)],
              [kind |-> "ok", len |-> 2, rows |-> (1 :> <<8, 8>>)] >>

MRAll == {0, 1, 2}
MRTwo == {0, 2}
MRNone == {0}
MROne == {1}
ReqOne == {33310}
BattRoomy == {[cap |-> 120000, init |-> 30000, pw |-> 6000]}
OneRecomp == {{}, {1}}
QuickRecomp == {{}, {1}, {1004}, {2004}}
MenuQuick == <<
    [kind |-> "ok", len |-> 0, rows |-> <<>>],
    [kind |-> "ok", len |-> 2, rows |-> (1 :> <<32, 8>> @@ 2 :> <<8, 32>>)],
    [kind |-> "ok", len |-> 3, rows |-> (2 :> <<16, 0, 24>>)],
    [kind |-> "ragged", len |-> 2, rows |-> (1 :> <<8, 8>> @@ 2 :> <<8, 8>>)] >>
NoRecomp == {{}}
SomeRecomp == {{}, {1}, {0, 3}}
\* extra events with stray Unplug notices (1000*session + period; only those that fit the scenario are enabled, see ExtraOK)
StrayRecomp == {{}, {1}, {0, 3}, {1003}, {1004}, {2004}, {1005, 1}, {2005}, {1003, 2004}}
SmallStray == {{}, {1}, {0, 3}, {1003}}      \* exhaustive model checking (thorough tier): one stray notice
StrayWide == {{}, {1}, {0, 3}, {7, 15}, {19}, {1009}, {2012}, {3010, 5}, {1006, 2007}, {4015}}

ReqSmall == {8320, 50000}
Req3 == {8320, 33310, 50000}
Req4 == {0, 8320, 33310, 50000}     \* 0: a session that asks for nothing is a session all the same (plugged in, never active)

\* non-integral pilots: units of 1/2 A (15 = 7.5 A, 13 = 6.5 A, 64 = 32 A); V*T is even for 208/240/120 V, T = 5
PU2 == 2
MenuFrac == <<
    [kind |-> "ok", len |-> 0, rows |-> <<>>],
    [kind |-> "ok", len |-> 1, rows |-> (1 :> <<15>> @@ 2 :> <<64>>)],
    [kind |-> "ok", len |-> 2, rows |-> (1 :> <<16, 24>> @@ 2 :> <<13, 41>>)],
    [kind |-> "ok", len |-> 3, rows |-> (2 :> <<32, 0, 27>> @@ 1 :> <<63, 17, 16>>)],
    [kind |-> "ok", len |-> 2, rows |-> (1 :> <<33, 33>>)] >>

\* long horizons (sampled only): many periods, wider recompute cadences, three stations, schedules
\* reaching far beyond the allocated width
MRWide == {0, 1, 3, 4}
RecompWide == {{}, {1}, {0, 3}, {7, 15}, {19}}
MenuWide == <<
    [kind |-> "ok", len |-> 0, rows |-> <<>>],
    [kind |-> "ok", len |-> 1, rows |-> (1 :> <<32>> @@ 2 :> <<16>> @@ 3 :> <<8>>)],
    [kind |-> "ok", len |-> 3, rows |-> (3 :> <<24, 8, 16>> @@ 1 :> <<8, 8, 32>>)],
    [kind |-> "ok", len |-> 7, rows |-> (2 :> <<8, 16, 24, 32, 0, 8, 16>>)],
    [kind |-> "ok", len |-> 12, rows |-> (1 :> <<16, 16, 16, 16, 0, 0, 8, 8, 8, 8, 32, 32>> @@
                                          3 :> <<32, 0, 32, 0, 32, 0, 32, 0, 32, 0, 32, 0>>)],
    [kind |-> "unknown", len |-> 1, rows |-> (1 :> <<8>>)] >>

\* hist is path information only: model checking identifies states without it.
View == <<pc, durable, sigma, ghost>>
=============================================================================
