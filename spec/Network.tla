------------------------------ MODULE Network ------------------------------
(***************************************************************************)
(* The station-level public API of                                         *)
(* acnportal/acnsim/network/charging_network.py::ChargingNetwork, driven   *)
(* DIRECTLY by arbitrary call sequences (not through the Simulator):       *)
(*                                                                         *)
(*   Register(s)        register_evse(evse, voltage, phase_angle)          *)
(*   Plugin(e)          plugin(ev)                                         *)
(*   Plugin2(e, a)      plugin(ev, station_id)   deprecated form           *)
(*   Unplug(s, x)       unplug(station_id, session_id)                     *)
(*   UnplugDep(s)       unplug(station_id)       deprecated form           *)
(*   GetEv(s)           get_ev(station_id)                                 *)
(*   UpdatePilots(row,T) update_pilots(pilots, i, period)                  *)
(*   PostUpdate         post_charging_update()   no-op hook                *)
(*   Retarget(e, s)     ev.update_station_id(station_id) of an EV that is  *)
(*                      not connected (how an EV object is moved)          *)
(*                                                                         *)
(* A refused / raising call is an action too: it changes nothing (or       *)
(* exactly what the code changes: see UpdatePilots).  The views            *)
(* (get_ev, active_evs, active_station_ids, current_charging_rates,        *)
(* station_ids, voltages, phase_angles, the info caches) are operators on  *)
(* the state; the conformance harness reads all of them after every call.  *)
(*                                                                         *)
(* Identities.  A station is an index into Pool (its EVSE object, its id,  *)
(* its kind, voltage and phase angle); NS+1 is a station id that nobody    *)
(* ever registers.  An EV is an index into EVs (the EV object, its session *)
(* id, its ideal Battery); session 0 is a session id that no EV has.       *)
(*                                                                         *)
(* Units (as EVSE.tla): current 1e-4 A (the 1e-3 A tolerance is 10), V,    *)
(* minutes, energy 1e-4 W*min (1 kWh = 6e8; the "fully charged" threshold  *)
(* 1e-3 kWh of EV.fully_charged is exactly 600000).  A rate is the         *)
(* rational  energy / (V*T)  of the charge call that produced it; the      *)
(* state keeps numerator and denominator, never a rounded rate.            *)
(***************************************************************************)
EXTENDS EVSEDefs, TLC, Json

CONSTANTS
    Pool,       \* sequence of stations [kind (see EVSEDefs), v (V), ang (degrees)]
    EVs,        \* sequence of EVs [cap, init, req (W*min), pw (W)]: ideal Battery + requested energy
    Menu,       \* pilots (1e-4 A) a caller may put into the pilots matrix
    Periods,    \* period lengths (min) a caller may pass to update_pilots
    InitRegs,   \* set of sequences over 1..NS: stations registered before the call sequence starts
    InitSta,    \* set of sequences of length NE over 1..NS+1: ev.station_id at the start
    Wt,         \* record: per call form a set of salts.  A salt never influences the state, only the
                \*   recorded call (the harness uses it to choose how the call is spelled: positional /
                \*   keyword / ...).  TLC's simulation mode picks uniformly among action instances, so the
                \*   sizes of these sets are the weights of the call forms in sampled behaviours.
    Pick(_),    \* which rows of a set of candidate pilot rows a caller tries: all of them (model checking,
                \*   exhaustive generation) or one drawn at random (sampling; keeps a step cheap)
    MaxOps,     \* calls per behaviour
    Rec         \* BOOLEAN: keep the history variable (behaviour generation)

NS == Len(Pool)
NE == Len(EVs)
Stations == 1..NS
Ghost == NS + 1                 \* a station id nobody registers
Names == 1..(NS + 1)            \* everything a caller may pass as a station id
Cars == 1..NE
Sessions == 0..NE               \* session ids a caller may pass (0: nobody's)

FullThr == 600000               \* 1e-3 kWh in 1e-4 W*min (ev.py: not (remaining_demand > 1e-3))
Margin  == 10000                \* 1 W*min: an active / fully-charged decision closer to the threshold than
                                \*   this is left to neither side (floating point could not decide it)

\* negative pilots are only ever probed where every station refuses them
ASSUME \A p \in Menu : p < 0 => \A s \in Stations : ~Valid(Pool[s].kind, p)
\* 32-bit arithmetic
ASSUME \A s \in Stations : \A p \in Menu : \A T \in Periods : Abs(p) * Pool[s].v * T < 2000000000
ASSUME \A e \in Cars : EVs[e].cap <= 200000 /\ EVs[e].req <= 200000 /\ EVs[e].init <= EVs[e].cap
ASSUME \A e \in Cars : \A T \in Periods : EVs[e].pw * T <= 200000

VARIABLES
    reg,        \* ChargingNetwork._EVSEs (OrderedDict): stations in registration order
    occ,        \* occ[s] = EV connected at station s (EVSE._ev), 0 = vacant
    pilot,      \* pilot[s] = EVSE._current_pilot
    sta,        \* sta[e] = ev.station_id
    evE,        \* evE[e] = EV._energy_delivered
    chg,        \* chg[e] = Battery._current_charge
    lastE,      \* EV._current_charging_rate of e is lastE[e] / lastD[e]:
    lastD,      \*   energy of its latest charge call and voltage*period of that call
    \* ---- bookkeeping of the call sequence --------------------------------------------------
    nops,       \* calls made
    last,       \* outcome of the latest call
    warn,       \* the latest call emitted a warning
    ref,        \* station whose EVSE raised InvalidRateError in the latest call (0 = none)
    hist        \* observation log for replay (Rec)

Core == <<reg, occ, pilot, sta, evE, chg, lastE, lastD>>
vars == <<reg, occ, pilot, sta, evE, chg, lastE, lastD, nops, last, warn, ref, hist>>

-----------------------------------------------------------------------------
Min2(a, b) == IF a <= b THEN a ELSE b
Range(q) == {q[i] : i \in DOMAIN q}
Injective(q) == \A i, j \in DOMAIN q : i # j => q[i] # q[j]

Registered(r, s) == s \in Range(r)
IdxIn(r, s) == CHOOSE i \in DOMAIN r : r[i] = s      \* _station_ids_dict[s]

\* ideal Battery.charge + EV.charge: energy [1e-4 W*min] taken in one period at pilot p
Charge(ev, c, p, v, T) == Min2(Min2(p * v * T, ev.pw * T * 10000), ev.cap * 10000 - c)

\* ---- the views, as functions of the state ---------------------------------------------------
Remaining(E, e) == EVs[e].req * 10000 - E[e]            \* EV.remaining_demand
Active(E, e) == Remaining(E, e) > FullThr               \* not EV.fully_charged
NonDecisive(E, e) == Abs(Remaining(E, e) - FullThr) < Margin

\* every vector view is indexed by registration order: entry i belongs to station r[i]
StationIds(r) == r
GetEvView(o, s) == o[s]
ActiveStationIds(r, o, E) == SelectSeq(r, LAMBDA s : o[s] # 0 /\ Active(E, o[s]))
ActiveEVs(r, o, E) == LET a == ActiveStationIds(r, o, E) IN [i \in 1..Len(a) |-> o[a[i]]]
\* current_charging_rates[j]: the occupant's own latest rate, 0 for a vacant station.
\* NOTE (observed, modelled as the code does): the rate is a property of the EV object, not of
\* the station or of the current period.  An EV that was unplugged and plugged in again - at the
\* same or, after update_station_id, at another station - shows the rate of its last charge call
\* until update_pilots reaches its station again, whatever pilot that station holds; a station
\* that was just vacated shows 0 although its EV drew current in the latest period; after an
\* update_pilots call that raised mid-way the stations not reached still show the previous rate.
RateOf(o, lE, lD, s) == IF o[s] = 0 THEN <<0, 1>> ELSE <<lE[o[s]], lD[o[s]]>>
Rates(r, o, lE, lD) == [i \in 1..Len(r) |-> RateOf(o, lE, lD, r[i])]
Voltages(r) == [i \in 1..Len(r) |-> Pool[r[i]].v]
Angles(r) == [i \in 1..Len(r) |-> Pool[r[i]].ang]
Infos(r) == [i \in 1..Len(r) |-> Describe(Pool[r[i]].kind)]

\* what the harness compares after a call
Obs(r, o, p, st, E, c, lE, lD) ==
    [reg |-> r, occ |-> o, pilot |-> p, sta |-> st, evE |-> E, chg |-> c,
     rate |-> [e \in Cars |-> <<lE[e], lD[e]>>],
     ids |-> StationIds(r), act |-> ActiveStationIds(r, o, E), actev |-> ActiveEVs(r, o, E),
     rates |-> Rates(r, o, lE, lD), volt |-> Voltages(r), ang |-> Angles(r),
     nd |-> {e \in Cars : NonDecisive(E, e)}]
PostObs == Obs(reg', occ', pilot', sta', evE', chg', lastE', lastD')

\* record of a call: its arguments and outcome + the post-state projection
Log(call) == IF Rec THEN Append(hist, call @@ PostObs) ELSE hist

Call(res, w, r) ==          \* one more call was made
    /\ nops < MaxOps /\ nops' = nops + 1
    /\ last' = res /\ warn' = w /\ ref' = r

-----------------------------------------------------------------------------
Init ==
    /\ reg \in InitRegs
    /\ sta \in InitSta
    /\ occ = [s \in Stations |-> 0]
    /\ pilot = [s \in Stations |-> 0]
    /\ evE = [e \in Cars |-> 0]
    /\ chg = [e \in Cars |-> EVs[e].init * 10000]
    /\ lastE = [e \in Cars |-> 0]
    /\ lastD = [e \in Cars |-> 1]
    /\ nops = 0 /\ last = "init" /\ warn = FALSE /\ ref = 0
    /\ hist = IF Rec THEN << [op |-> "setup", res |-> "ok", warn |-> FALSE]
                               @@ Obs(reg, occ, pilot, sta, evE, chg, lastE, lastD) >>
                     ELSE <<>>

\* register_evse(evse, voltage, phase_angle): appended to the ordered dict and to the two vectors.
\* Scope: station ids are distinct and no constraint has been added (after add_constraint the call raises
\* EVSERegistrationError).  OBSERVED, outside the properties and not modelled: registering an id that is already
\* present replaces the EVSE object in place (its occupant is silently dropped) but still appends to the
\* voltage / angle vectors, after which `voltages` / `phase_angles` raise IndexError.
Register(s, f) ==
    /\ s \in Stations /\ ~Registered(reg, s)
    /\ Call("ok", FALSE, 0)
    /\ reg' = Append(reg, s)
    /\ UNCHANGED <<occ, pilot, sta, evE, chg, lastE, lastD>>
    /\ hist' = Log([op |-> "register", s |-> s, form |-> f, res |-> "ok", warn |-> FALSE])

\* plugin(ev) / plugin(ev, station_id): the station is ev.station_id in BOTH forms; the second
\* argument only causes a DeprecationWarning (issued before anything else, so also when the call
\* then raises).  Unknown station: KeyError.  Occupied: StationOccupiedError from the EVSE.
PluginRes(e) ==
    IF ~Registered(reg, sta[e]) THEN "keyerror"
    ELSE IF occ[sta[e]] # 0 THEN "occupied" ELSE "ok"
PluginEffect(e) ==
    /\ IF PluginRes(e) = "ok" THEN occ' = [occ EXCEPT ![sta[e]] = e] ELSE UNCHANGED occ
    /\ UNCHANGED <<reg, pilot, sta, evE, chg, lastE, lastD>>

Plugin(e, f) ==
    /\ e \in Cars
    /\ Call(PluginRes(e), FALSE, 0)
    /\ PluginEffect(e)
    /\ hist' = Log([op |-> "plugin", ev |-> e, form |-> f, res |-> PluginRes(e), warn |-> FALSE])

Plugin2(e, a, f) ==
    /\ e \in Cars /\ a \in Names
    /\ Call(PluginRes(e), TRUE, 0)
    /\ PluginEffect(e)
    /\ hist' = Log([op |-> "plugin2", ev |-> e, arg |-> a, form |-> f, res |-> PluginRes(e), warn |-> TRUE])

\* unplug(station_id, session_id): only the occupant whose session id is given leaves (and the
\* station's pilot returns to 0); a vacant station or another occupant: a warning, nothing else.
UnplugRes(s, x) ==
    IF ~Registered(reg, s) THEN "keyerror"
    ELSE IF occ[s] = 0 THEN "vacant"
    ELSE IF occ[s] = x THEN "ok" ELSE "mismatch"
Vacate(s) ==
    /\ occ' = [occ EXCEPT ![s] = 0]
    /\ pilot' = [pilot EXCEPT ![s] = 0]
    /\ UNCHANGED <<reg, sta, evE, chg, lastE, lastD>>

Unplug(s, x, f) ==
    /\ s \in Names /\ x \in Sessions
    /\ Call(UnplugRes(s, x), UnplugRes(s, x) \in {"vacant", "mismatch"}, 0)
    /\ IF UnplugRes(s, x) = "ok" THEN Vacate(s) ELSE UNCHANGED Core
    /\ hist' = Log([op |-> "unplug", s |-> s, sess |-> x, form |-> f, res |-> UnplugRes(s, x),
                    warn |-> UnplugRes(s, x) \in {"vacant", "mismatch"}])

\* unplug(station_id) without a session id (deprecated): a warning (a plain UserWarning, not a
\* DeprecationWarning) and EVSE.unplug() whoever is there - also on a vacant station, whose pilot
\* returns to 0.
UnplugDep(s, f) ==
    /\ s \in Names
    /\ IF Registered(reg, s)
       THEN Call("ok", TRUE, 0) /\ Vacate(s)
       ELSE Call("keyerror", FALSE, 0) /\ UNCHANGED Core
    /\ hist' = Log([op |-> "unplug_dep", s |-> s, form |-> f, res |-> last', warn |-> warn'])

\* get_ev(station_id)
GetEv(s, f) ==
    /\ s \in Names
    /\ Call(IF Registered(reg, s) THEN "ok" ELSE "keyerror", FALSE, 0)
    /\ UNCHANGED Core
    /\ hist' = Log([op |-> "get_ev", s |-> s, form |-> f, res |-> last', warn |-> FALSE,
                    val |-> IF Registered(reg, s) THEN occ[s] ELSE 0])

\* update_pilots(pilots, i, period): row[j] is pilots[j, i], j in registration order.  The code
\* loops over the stations in registration order and calls EVSE.set_pilot: a valid pilot is stored
\* (on a VACANT station as well: it keeps that pilot, also when an EV is plugged in afterwards, until
\* the next update_pilots or unplug) and charges the occupant - whether or not its demand is already
\* met; the first invalid one raises InvalidRateError out of the loop.
\* OBSERVED DEVIATION (outside the stated properties, modelled as the code does): the call is not
\* atomic - the stations registered before the refusing one keep their new pilots and their EVs
\* have been charged; the refusing station and all later ones are untouched (C13 per station).
FirstBad(row) ==
    LET bad == {i \in 1..Len(reg) : ~Valid(Pool[reg[i]].kind, row[i])}
    IN  IF bad = {} THEN Len(reg) + 1 ELSE CHOOSE i \in bad : \A j \in bad : i <= j
StationOf(e) == CHOOSE s \in Stations : occ[s] = e

UpdatePilots(row, T, f) ==
    LET k == FirstBad(row)
        applied == {reg[i] : i \in 1..(k - 1)}
        Charged(e) == \E s \in applied : occ[s] = e
        En(e) == LET s == StationOf(e) IN Charge(EVs[e], chg[e], row[IdxIn(reg, s)], Pool[s].v, T)
    IN  /\ T \in Periods
        /\ Call(IF k > Len(reg) THEN "ok" ELSE "invalid", FALSE, IF k > Len(reg) THEN 0 ELSE reg[k])
        /\ pilot' = [s \in Stations |-> IF s \in applied THEN row[IdxIn(reg, s)] ELSE pilot[s]]
        /\ evE' = [e \in Cars |-> IF Charged(e) THEN evE[e] + En(e) ELSE evE[e]]
        /\ chg' = [e \in Cars |-> IF Charged(e) THEN chg[e] + En(e) ELSE chg[e]]
        /\ lastE' = [e \in Cars |-> IF Charged(e) THEN En(e) ELSE lastE[e]]
        /\ lastD' = [e \in Cars |-> IF Charged(e) THEN Pool[StationOf(e)].v * T ELSE lastD[e]]
        /\ UNCHANGED <<reg, occ, sta>>
        /\ hist' = Log([op |-> "update", row |-> row, T |-> T, form |-> f, res |-> last', warn |-> FALSE,
                        applied |-> k - 1])

\* post_charging_update(): a hook that does nothing in the base class
PostUpdate(f) ==
    /\ Call("ok", FALSE, 0)
    /\ UNCHANGED Core
    /\ hist' = Log([op |-> "post", form |-> f, res |-> "ok", warn |-> FALSE])

\* ev.update_station_id(s) of an EV that is not connected (scope: an EV object is never given a
\* new station while it is plugged in - then it could be plugged in twice)
Retarget(e, s, f) ==
    /\ e \in Cars /\ s \in Names /\ s # sta[e]
    /\ \A t \in Stations : occ[t] # e
    /\ Call("ok", FALSE, 0)
    /\ sta' = [sta EXCEPT ![e] = s]
    /\ UNCHANGED <<reg, occ, pilot, evE, chg, lastE, lastD>>
    /\ hist' = Log([op |-> "retarget", ev |-> e, s |-> s, form |-> f, res |-> "ok", warn |-> FALSE])

Finish ==
    /\ nops = MaxOps /\ last # "emitted"
    /\ IF Rec THEN PrintT(<<"BHV", ToJson([pool |-> Pool, evs |-> EVs,
                                           desc |-> [s \in Stations |-> Describe(Pool[s].kind)],
                                           ops |-> hist])>>)
       ELSE TRUE
    /\ last' = "emitted" /\ ref' = 0
    /\ UNCHANGED <<Core, nops, warn, hist>>

Terminated == last = "emitted" /\ UNCHANGED vars

\* named so that -coverage reports them
DoRegister   == \E s \in Stations, f \in Wt.register : Register(s, f)
DoPlugin     == \E e \in Cars, f \in Wt.plugin : Plugin(e, f)
DoPlugin2    == \E e \in Cars, a \in Names, f \in Wt.plugin2 : Plugin2(e, a, f)
DoUnplug     == \E s \in Names, x \in Sessions, f \in Wt.unplug : Unplug(s, x, f)
DoUnplugDep  == \E s \in Names, f \in Wt.unplugdep : UnplugDep(s, f)
DoGetEv      == \E s \in Names, f \in Wt.getev : GetEv(s, f)
DoUpdate     == \E T \in Periods, f \in Wt.update : \E row \in Pick([1..Len(reg) -> Menu]) : UpdatePilots(row, T, f)
DoPostUpdate == \E f \in Wt.post : PostUpdate(f)
DoRetarget   == \E e \in Cars, s \in Names, f \in Wt.retarget : Retarget(e, s, f)
\* Steering (sampling only): sub-actions of the ones above - the same calls restricted to the
\* arguments that succeed - so that sampled behaviours contain accepted plug-ins, accepted unplugs
\* and moves to usable stations often enough.  They add no behaviour (empty salt sets switch them off).
DoPluginFree  == \E e \in Cars, f \in Wt.pluginfree : PluginRes(e) = "ok" /\ Plugin(e, f)
DoUnplugRight == \E s \in Stations, f \in Wt.unplugright : occ[s] # 0 /\ Unplug(s, occ[s], f)
DoRetargetReg == \E e \in Cars, s \in Stations, f \in Wt.retargetreg : Registered(reg, s) /\ Retarget(e, s, f)

Next ==
    \/ DoRegister \/ DoPlugin \/ DoPlugin2 \/ DoUnplug \/ DoUnplugDep \/ DoGetEv
    \/ DoUpdate \/ DoPostUpdate \/ DoRetarget
    \/ DoPluginFree \/ DoUnplugRight \/ DoRetargetReg
    \/ Finish \/ Terminated

Spec == Init /\ [][Next]_vars

-----------------------------------------------------------------------------
TypeOK ==
    /\ reg \in Seq(Stations) /\ Injective(reg)
    /\ occ \in [Stations -> 0..NE]
    /\ pilot \in [Stations -> Menu \cup {0}]
    /\ sta \in [Cars -> Names]
    /\ \A e \in Cars : evE[e] >= 0 /\ chg[e] >= 0 /\ lastE[e] >= 0 /\ lastD[e] >= 1
    /\ nops \in 0..MaxOps /\ warn \in BOOLEAN /\ ref \in 0..NS

\* ---- C01: plug / unplug discipline, connectedness -------------------------------------------
\* one EV per station holds by construction (occ is a function); one station per EV:
OneStationPerEV == \A s, t \in Stations : occ[s] # 0 /\ occ[s] = occ[t] => s = t
\* an EV is connected only at the station its own station_id names, and only registered stations
\* hold anything
OccupantAtOwnStation == \A s \in Stations : occ[s] # 0 => sta[occ[s]] = s
OnlyRegisteredUsed == \A s \in Stations : ~Registered(reg, s) => occ[s] = 0 /\ pilot[s] = 0

Refused == {"keyerror", "occupied", "vacant", "mismatch"}
\* a refused call (unknown station, occupied station, vacant station, session id that is not the
\* occupant's) changes nothing at all: in particular the occupant stays in place, which is what
\* allows a space to be reused back-to-back (the old session's unplug cannot evict the new one)
RefusedChangesNothing == [][last' \in Refused => UNCHANGED Core]_vars
\* an occupant leaves only through an unplug that was accepted, and nobody is replaced in place
LeavesOnlyByUnplug ==
    [][\A s \in Stations : occ[s] # 0 /\ occ'[s] # occ[s] => occ'[s] = 0 /\ last' = "ok" /\ pilot'[s] = 0]_vars
\* registration order never changes: stations are only appended
RegistrationAppendOnly ==
    [][Len(reg') >= Len(reg) /\ \A i \in 1..Len(reg) : reg'[i] = reg[i]]_vars
\* only a connected EV can receive current: everything about an EV that is not connected is frozen
DisconnectedFrozen ==
    [][\A e \in Cars : (\A s \in Stations : occ[s] # e) =>
            evE'[e] = evE[e] /\ chg'[e] = chg[e] /\ lastE'[e] = lastE[e] /\ lastD'[e] = lastD[e]]_vars

\* ---- C13: refused pilots ----------------------------------------------------------------------
PilotIsValid == \A s \in Stations : Valid(Pool[s].kind, pilot[s]) \/ pilot[s] = 0
\* the station that raised InvalidRateError keeps its pilot and its EV's energy, battery and rate;
\* so does every station registered after it (the ones before it do not: see UpdatePilots)
RefusingStationUntouched ==
    [][ref' # 0 =>
         /\ last' = "invalid" /\ Registered(reg, ref')
         /\ \A i \in IdxIn(reg, ref')..Len(reg) :
               LET s == reg[i] IN
               /\ pilot'[s] = pilot[s] /\ occ'[s] = occ[s]
               /\ occ[s] # 0 => /\ evE'[occ[s]] = evE[occ[s]] /\ chg'[occ[s]] = chg[occ[s]]
                                /\ lastE'[occ[s]] = lastE[occ[s]] /\ lastD'[occ[s]] = lastD[occ[s]]]_vars
InvalidOnlyWithRef == [][(last' = "invalid") <=> (ref' # 0)]_vars

\* ---- C02: ledger --------------------------------------------------------------------------------
\* delivered energy = charge gained by the battery, within the capacity; the latest rate's energy is
\* part of it
Ledger == \A e \in Cars :
    /\ evE[e] = chg[e] - EVs[e].init * 10000
    /\ chg[e] <= EVs[e].cap * 10000
    /\ lastE[e] <= evE[e]
\* per update_pilots call: the energy an EV gains is its new rate x voltage x period (lastE' by the
\* definition of the rate), never more than pilot x voltage x period of the station it is at
LedgerStep ==
    [][\A e \in Cars : evE'[e] # evE[e] =>
            /\ evE'[e] - evE[e] = lastE'[e]
            /\ \E s \in Stations : occ[s] = e /\ lastD'[e] % Pool[s].v = 0
                                   /\ lastE'[e] <= pilot'[s] * lastD'[e]]_vars
EnergyMonotone == [][\A e \in Cars : evE'[e] >= evE[e]]_vars
\* current_charging_rates: 0 exactly for vacant stations or occupants that drew nothing
RatesView ==
    LET R == Rates(reg, occ, lastE, lastD) IN
    /\ Len(R) = Len(reg)
    /\ \A i \in 1..Len(reg) : occ[reg[i]] = 0 => R[i] = <<0, 1>>

\* ---- C05: the observation views ---------------------------------------------------------------
ViewsWellFormed ==
    LET a == ActiveStationIds(reg, occ, evE) IN
    /\ Range(a) = {s \in Range(reg) : occ[s] # 0 /\ Remaining(evE, occ[s]) > FullThr}
    /\ Injective(a)
    /\ \A i, j \in 1..Len(a) : i < j => IdxIn(reg, a[i]) < IdxIn(reg, a[j])     \* registration order
    /\ Len(ActiveEVs(reg, occ, evE)) = Len(a)
    /\ Len(Voltages(reg)) = Len(reg) /\ Len(Angles(reg)) = Len(reg) /\ Len(Infos(reg)) = Len(reg)
    /\ \A s \in Stations : Registered(reg, s) => Voltages(reg)[IdxIn(reg, s)] = Pool[s].v
=============================================================================
