--------------------------- MODULE MC_SortedAlgo ---------------------------
(* Lattices of cases for SortedAlgo.tla.  Currents in units of 1e-5 A (U per ampere).              *)
(* Limits and demands are deliberately OFF the level lattice (x.037 A, x.37 amp-periods ...) so    *)
(* that every threshold decision the floating-point code takes has a margin of >= 1e-4 A; exact    *)
(* coincidences that matter (sum of levels = limit) are kept: they are decided by the 1e-5 A       *)
(* tolerance, which the specification models exactly.                                              *)
EXTENDS SortedAlgo

A == U
L8 == <<0, 8 * A, 16 * A, 24 * A, 32 * A>>              \* ClipperCreek-like
L6 == <<0, 6 * A, 12 * A, 18 * A, 24 * A, 30 * A>>
L6f == <<0, 6 * A, 7 * A, 8 * A, 9 * A, 10 * A, 12 * A, 14 * A, 16 * A>>   \* AeroVironment-like, dense
Fin(l, v, a)  == [kind |-> "fin", lv |-> l, max |-> 0, volt |-> v, ang |-> a]
Cont(m, v, a) == [kind |-> "cont", lv |-> <<>>, max |-> m, volt |-> v, ang |-> a]
Con(cf, l)    == [coef |-> cf, lim |-> l]

\* single phase: an aggregate limit that binds (40.037 A for up to 94 A of demand) and, nested in it,
\* a pod limit so tight that the two finite-rate stations cannot both have their minimum pilot
\* (8 A + 6 A > 13.037 A): uninterrupted charging must refuse one of them
Single3 == [id |-> "single3", T |-> 5,
            st |-> <<Fin(L8, 240, 0), Cont(32 * A, 240, 0), Fin(L6, 240, 0)>>,
            con |-> <<Con(<<1, 1, 1>>, 4003700), Con(<<1, 0, 1>>, 1303700)>>]
\* exact coincidence: 8 + 16 + 16 = 40 = limit is feasible only through the tolerance
Single3x == [id |-> "single3x", T |-> 5,
             st |-> <<Fin(L8, 240, 0), Cont(16 * A, 240, 0), Fin(L8, 240, 0)>>,
             con |-> <<Con(<<1, 1, 1>>, 40 * A)>>]
\* delta-connected three-phase: the line currents are differences of the leg currents (mixed signs)
Delta3 == [id |-> "delta3", T |-> 5,
           st |-> <<Fin(L8, 208, 30), Cont(32 * A, 208, -90), Cont(16 * A, 208, 150)>>,
           con |-> <<Con(<<1, 0, -1>>, 3650000), Con(<<-1, 1, 0>>, 3025000), Con(<<0, -1, 1>>, 40 * A)>>]
\* the same with two finite-rate stations whose minimum pilots (8 A on AB, 6 A on BC) together
\* overload line B (12.17 A > 11.5 A) although each alone is fine
Delta3f == [id |-> "delta3f", T |-> 5,
            st |-> <<Fin(L8, 208, 30), Fin(L6, 208, -90), Cont(32 * A, 208, 150)>>,
            con |-> <<Con(<<1, 0, -1>>, 3650000), Con(<<-1, 1, 0>>, 1150000), Con(<<0, -1, 1>>, 40 * A)>>]
\* nested: a pod limit on two stations of one phase, an aggregate over everything, a primary-side
\* line (mixed signs, weight 2), different voltages and periods
Nested4 == [id |-> "nested4", T |-> 5,
            st |-> <<Fin(L8, 208, 30), Cont(32 * A, 208, 30), Fin(L6, 208, -90), Cont(32 * A, 208, 150)>>,
            con |-> <<Con(<<1, 1, 0, 0>>, 4003700), Con(<<1, 1, 1, 1>>, 3550000),
                      Con(<<2, 2, -1, -1>>, 90 * A)>>]
\* unequal maximum pilots and voltages: remaining-time-at-max-rate orders differ from demand orders
Uneq3 == [id |-> "uneq3", T |-> 15,
          st |-> <<Fin(L8, 208, 30), Cont(16 * A, 240, -90), Cont(80 * A, 480, 150)>>,
          con |-> <<Con(<<1, 1, 1>>, 6003700), Con(<<1, 0, -1>>, 7025000)>>]
Uneq4 == [id |-> "uneq4", T |-> 5,
          st |-> <<Fin(L6f, 120, 30), Cont(16 * A, 240, 30), Fin(L8, 208, -90), Cont(64 * A, 480, 150)>>,
          con |-> <<Con(<<1, 1, 0, 0>>, 2203700), Con(<<1, 1, 1, 1>>, 4550000), Con(<<0, 0, 1, -1>>, 60 * A),
                    Con(<<1, 1, -1, 0>>, 3033300)>>]

\* finite-rate stations whose lowest level is fractional (7.5 A): the minimum pilot of uninterrupted
\* charging is stored truncated (TruncA in SortedAlgo.tla); pod limit 22.4 A: 15 + 7.5 does not fit
L75 == <<0, 750000, 1500000, 2250000, 3000000>>
Frac3 == [id |-> "frac3", T |-> 7,      \* ... and a period that does not divide an hour (60/7 periods per hour)
          st |-> <<Fin(L75, 208, 0), Fin(L75, 208, 0), Cont(32 * A, 208, 0)>>,
          con |-> <<Con(<<1, 1, 0>>, 2240000), Con(<<1, 1, 1>>, 5003700)>>]
\* two stations on one phase and one on another, a phasor-sum limit: LOWERING the pilot of one station can RAISE the
\* magnitude of the sum (found by the thorough closed loop, simulation 164: the truncated lower bound 7 A of a 7.5 A
\* station let the others be raised too far; the station then fell to 0 and the schedule was infeasible)
Frac3p == [id |-> "frac3p", T |-> 5,
           st |-> <<Fin(L75, 208, -90), Fin(L6f, 208, -90), Cont(40 * A, 208, 150)>>,
           con |-> <<Con(<<1, 1, 1>>, 1803700)>>]
\* coefficients larger than 1 (a station counted twice / a transformer ratio): the weighted line binds
\* while the plain sum of the pilots is still below every limit
Weighted3 == [id |-> "weighted3", T |-> 5,
              st |-> <<Cont(32 * A, 208, 0), Fin(L8, 208, 0), Cont(32 * A, 208, 0)>>,
              con |-> <<Con(<<2, 2, 1>>, 8003700), Con(<<1, 1, 1>>, 70 * A)>>]

P(ar, de, ed, rm, dl, es) == [on |-> TRUE, arr |-> ar, dep |-> de, edep |-> ed, rem |-> rm, dlv |-> dl, est |-> es]
\* now = 10.  rem / dlv in 1e-5 amp-periods, est in 1e-5 A
PA == P(2, 40, 30, 10037000, 0, 1230000)        \* long stay, large demand, estimator bound 12.3 A
PB == P(5, 14, 16, 2025000, 3550000, -1)        \* partially served, no estimator entry
PC == P(7, 22, 20, 790000, 300000, 400000)      \* nearly finished: below an 8 A minimum pilot, bound 4 A
PD == P(9, 12, 13, 3000, 5000000, 2000000)      \* fully charged (0.03 amp-periods left): not active
PE == P(3, 13, 17, 1337000, 0, 950000)          \* between two levels, bound 9.5 A; departs before PB but expects to stay longer
PF == P(1, 40, 26, 30050000, 1000000, 3200000)  \* same remaining time as PA (stable sort), bound = max
PG == P(6, 21, 23, 1690000, 0, 2750000)
PH == P(4, 33, 28, 5555000, 2000000, 1000)      \* estimator bound 0.01 A: far below any minimum pilot
PL == P(8, 30, 24, 40050000, 0, -1)             \* late deadline but huge demand: least laxity although not the earliest deadline

Prof07Q == {PA, PB, PC, PD}
Prof07T == {PA, PB, PC, PD, PF, PH}
Prof07N == {PA, PB, PC, PH}                      \* on the four-station infrastructure
Prof08Q == {PA, PB, PE, PL}
Prof08T == {PA, PB, PC, PE, PG, PL}
Prof08N == {PA, PB, PE, PL}                      \* on the four-station infrastructures

Infras07Q == {Single3, Delta3, Frac3, Frac3p}
Infras07T1 == {Single3, Single3x, Frac3}
Infras07T2 == {Delta3, Uneq3, Weighted3, Frac3p}
Infras07T == Infras07T1 \cup Infras07T2
Infras07N == {Nested4}
Infras08Q == {Delta3f, Uneq3, Weighted3}
Infras08T1 == {Single3x, Uneq3, Weighted3}
Infras08T2 == {Delta3, Delta3f, Frac3}
Infras08T == Infras08T1 \cup Infras08T2
Infras08N1 == {Nested4}
Infras08N2 == {Uneq4}
Infras08N == Infras08N1 \cup Infras08N2

Sorts == {"fcfs", "lcfs", "edf", "llf", "lrpt"}
O(al, so, un, es, ic) == [algo |-> al, sort |-> so, unint |-> un, est |-> es, inc |-> ic, now |-> 10, tid |-> 0]
OptsGreedy(E)    == {O("greedy", so, un, es, 0) : so \in Sorts, un \in BOOLEAN, es \in E}
OptsRR(S, E, I)  == {O("rr", so, un, es, ic) : so \in S, un \in BOOLEAN, es \in E, ic \in I}
OptUnc           == {O("unc", "fcfs", FALSE, FALSE, 0)}
\* Each lattice is the union of four option families, so that generation can run as four parallel
\* single-worker TLC processes.  Increments of continuous round robin: 2.5 A (quick), 1 A, 2.5 A and
\* 0.5 A (thorough); the default 0.1 A is covered by the small RR01 lattice below (320 levels per
\* session make those runs deep).
Opts07Qa == OptsGreedy(BOOLEAN) \cup OptUnc
Opts07Qb == OptsRR({"fcfs", "lcfs"}, {TRUE}, {250000})
Opts07Qc == OptsRR({"edf", "llf"}, {TRUE}, {250000})
Opts07Qd == OptsRR({"lrpt"}, {TRUE}, {250000}) \cup OptsRR({"fcfs"}, {FALSE}, {A})
Opts07Q1 == Opts07Qa \cup Opts07Qd
Opts07Q2 == Opts07Qb \cup Opts07Qc
Opts07Q  == Opts07Q1 \cup Opts07Q2
Opts07Ta == OptsGreedy(BOOLEAN) \cup OptUnc
Opts07Tb == OptsRR({"fcfs", "lcfs"}, BOOLEAN, {250000}) \cup OptsRR({"fcfs"}, BOOLEAN, {A})
Opts07Tc == OptsRR({"edf", "llf"}, BOOLEAN, {250000}) \cup OptsRR({"llf"}, BOOLEAN, {A})
Opts07Td == OptsRR({"lrpt"}, BOOLEAN, {250000}) \cup OptsRR({"fcfs"}, {TRUE}, {50000})
Opts07T  == Opts07Ta \cup Opts07Tb \cup Opts07Tc \cup Opts07Td
\* C08 is about allocation, not about the estimator: est = FALSE
Opts08Qa == OptsGreedy({FALSE}) \cup OptUnc
Opts08Qb == OptsRR({"fcfs", "lcfs"}, {FALSE}, {250000})
Opts08Qc == OptsRR({"edf", "llf"}, {FALSE}, {250000})
Opts08Qd == OptsRR({"lrpt"}, {FALSE}, {A, 250000})
Opts08Q1 == Opts08Qa \cup Opts08Qd
Opts08Q2 == Opts08Qb \cup Opts08Qc
Opts08Q  == Opts08Q1 \cup Opts08Q2
Opts08Ta == OptsGreedy({FALSE}) \cup OptUnc
Opts08Tb == OptsRR({"fcfs", "lcfs"}, {FALSE}, {A, 250000})
Opts08Tc == OptsRR({"edf", "llf"}, {FALSE}, {A, 250000})
Opts08Td == OptsRR({"lrpt"}, {FALSE}, {A, 250000}) \cup OptsRR({"fcfs", "llf"}, {FALSE}, {50000})
Opts08T  == Opts08Ta \cup Opts08Tb \cup Opts08Tc \cup Opts08Td

\* the default increment 0.1 A on a small infrastructure
InfrasRR01 == {[id |-> "rr01", T |-> 5,
                st |-> <<Cont(32 * A, 208, 30), Cont(16 * A, 208, 150), Fin(L8, 208, 30)>>,
                con |-> <<Con(<<1, -1, 1>>, 3303700)>>]}
ProfRR01 == {PA, PB, PE}
OptsRR01 == OptsRR({"fcfs", "llf"}, {FALSE}, {10000})

\* sessions with equal remaining time (PA and PF both leave at 40) under uninterrupted charging
InfrasShare == {Single3, Delta3f}
ProfShare == {PA, PF, PB}
OptsShare == {O("greedy", so, TRUE, FALSE, 0) : so \in {"fcfs", "lcfs", "llf"}} \cup OptsRR({"fcfs"}, {FALSE}, {250000})

\* round robin with a small documented increment (0.02 A): about 3000 raises until the 60.037 A limit binds -
\* the loop runs until every session is blocked, however many steps that takes
InfrasRR002 == {[id |-> "rr002", T |-> 5,
                 st |-> <<Cont(32 * A, 208, 0), Cont(32 * A, 208, 0)>>,
                 con |-> <<Con(<<1, 1>>, 6003700)>>]}
ProfRR002 == {PA, PF}
OptsRR002 == OptsRR({"fcfs"}, {FALSE}, {2000})

\* (a) sessions that can no longer finish in time: NEGATIVE laxities, all different (-4.3, -9.5 periods at 32 A) - the order
\*     among hopeless sessions is still the order of their laxities;
\* (b) two constraints with the same coefficients and different limits (a 60 A cable and a 40.037 A breaker on one
\*     feeder), the looser one registered first: every row binds on its own
PN1 == P(1, 13, 12, 20037000, 0, -1)
PN2 == P(4, 15, 13, 40050000, 0, -1)
Dup3 == [id |-> "dup3", T |-> 5,
         st |-> <<Fin(L8, 240, 0), Cont(32 * A, 240, 0), Fin(L6, 240, 0)>>,
         con |-> <<Con(<<1, 1, 1>>, 60 * A), Con(<<1, 1, 1>>, 4003700), Con(<<1, 0, 1>>, 50 * A)>>]
InfrasNeg == {Single3, Dup3}
ProfNeg == {PN1, PN2, PB, PA}
OptsNeg == {O("greedy", so, un, FALSE, 0) : so \in {"llf", "fcfs"}, un \in BOOLEAN} \cup OptsRR({"llf"}, {FALSE}, {250000})

ASSUME \A n \in Infras : \A k \in 1..Len(n.con) : n.con[k].lim <= 100 * U /\ Len(n.con[k].coef) = Len(n.st)
=============================================================================
