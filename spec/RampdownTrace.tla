---------------------------- MODULE RampdownTrace ----------------------------
(***************************************************************************)
(* Code -> spec validation for Rampdown.tla (binding C of DESIGN.md).       *)
(*                                                                         *)
(* Every line of Rampdown_trace.ndjson is one scheduler invocation of a     *)
(* REAL closed-loop simulation (Simulator.run() under SortedSchedulingAlgo  *)
(* or RoundRobin with estimate_max_rate=True and a real SimpleRampdown,     *)
(* real Linear2StageBattery / Battery EVs, finite-rate and continuous       *)
(* EVSEs; session ids differ from station ids):                             *)
(*   tid, t            simulation and period of the invocation              *)
(*   up, dn, inc       the estimator's thresholds and increment             *)
(*   unint             uninterrupted_charging                               *)
(*   ses  [s, st, mx, mn, arr]   sessions handed to get_maximum_rates, with *)
(*                     their station, its maximum / minimum pilot, arrival  *)
(*   obs  [s, st, p, r]   what the estimator saw: every entry of            *)
(*                     Interface.last_applied_pilot_signals with the        *)
(*                     matching entry of last_actual_charging_rate          *)
(*   tab  [s, v]       the dictionary get_maximum_rates returned            *)
(*   sched [st, s, g, mn, mx]   the schedule the algorithm returned, per    *)
(*                     station; s = the listed session on it, or ""         *)
(* Currents are integers in 1e-6 A (floats rounded to the nearest unit).    *)
(*                                                                         *)
(* The lines of all simulations are concatenated (tid changes where a new   *)
(* simulation - and a new estimator with an empty table - starts).  TLC     *)
(* replays the rule of RampdownDefs.tla from the table the previous line    *)
(* left and judges each line:                                               *)
(*   table:keys        listed sessions <= keys <= keys before + listed      *)
(*                     sessions (so never a station id; entries of sessions *)
(*                     not listed may be omitted from the returned          *)
(*                     dictionary, they are carried here all the same)      *)
(*   table:unlisted    an entry of a session not listed changed             *)
(*   table:value       a listed session's entry is not what the rule gives  *)
(*                     (first sight -> max pilot; no observation -> kept;   *)
(*                     else ramp down / up / hold, clipped to [0, mx])      *)
(*   bound-exceeded    C07: a listed session was granted more than          *)
(*                     max(table entry AFTER this call, min pilot if unint) *)
(*   unlisted-charged  a station without a listed session got a pilot > 0   *)
(*   observation:*     the environment model of Rampdown.tla does not       *)
(*                     describe the Interface (presence of observations,    *)
(*                     observed pilot = pilot granted one period earlier,   *)
(*                     rate <= pilot)                                       *)
(* Slack, stated explicitly: Eps = 2 units = 2e-6 A.  Logged values carry a *)
(* rounding error of at most half a unit each, so a difference of two of    *)
(* them is off by at most one unit.  A threshold test whose integer margin  *)
(* lies in (-Eps, Eps] is NON-DECISIVE: both outcomes are accepted (and     *)
(* counted in `nd`).  A table value is accepted within Eps of a candidate;  *)
(* a grant may exceed its bound by at most Eps.  Values the code copies     *)
(* (kept entries, max pilot at first sight, observed pilot = last grant)    *)
(* are the same float twice and are compared exactly.                       *)
(* Validation continues after a rejected line from the logged table.        *)
(***************************************************************************)
EXTENDS RampdownDefs, Sequences, TLC, Json

Lines == ndJsonDeserialize("Rampdown_trace.ndjson")
Eps == 2

VARIABLES
    i,      \* next line
    tid,    \* simulation the last line belonged to
    tab,    \* the table that line left (function session id -> bound)
    pt,     \* period of the last line
    pg,     \* its schedule (function station id -> pilot)
    rej,    \* rejected lines so far
    cnt,    \* evaluations of the rule: [down, up, hold, first, kept, nd, grants, capped]
    fin
tvars == <<i, tid, tab, pt, pg, rej, cnt, fin>>

Abs(x) == IF x < 0 THEN -x ELSE x
Idx(q) == 1..Len(q)
Keys(q) == {q[j].s : j \in Idx(q)}
ToFn(q) == [k \in Keys(q) |-> q[CHOOSE j \in Idx(q) : q[j].s = k].v]
ObsOf(L, s) == L.obs[CHOOSE j \in Idx(L.obs) : L.obs[j].s = s]

Base(L) == IF L.tid = tid THEN tab ELSE <<>>
Before(L, e) == IF e.s \in DOMAIN Base(L) THEN Base(L)[e.s] ELSE e.mx

ValueOk(L, e, T) ==
    IF e.s \in Keys(L.obs)
    THEN LET o == ObsOf(L, e.s) IN
         \E c \in RampCands(Before(L, e), o.p, o.r, e.mx, L.up, L.dn, L.inc, Eps) : Abs(T[e.s] - c) <= Eps
    ELSE T[e.s] = Before(L, e)

ObsPresence(L) == \A j \in Idx(L.ses) : LET e == L.ses[j] IN (e.s \in Keys(L.obs)) <=> (e.arr <= L.t - 1 /\ L.t - 1 > 0)
ObsPilot(L) == (L.tid = tid /\ L.t = pt + 1) =>
                  \A j \in Idx(L.obs) : L.obs[j].st \in DOMAIN pg /\ L.obs[j].p = pg[L.obs[j].st]
ObsRate(L) == \A j \in Idx(L.obs) : L.obs[j].r <= L.obs[j].p + Eps /\ L.obs[j].r >= -Eps

Verdict(L) ==
    LET T == ToFn(L.tab)
        listed == Keys(L.ses)
        B == Base(L)
    IN IF ~(listed \subseteq DOMAIN T /\ DOMAIN T \subseteq DOMAIN B \cup listed) THEN "table:keys"
       ELSE IF \E k \in (DOMAIN B \cap DOMAIN T) \ listed : T[k] # B[k] THEN "table:unlisted"
       ELSE IF \E j \in Idx(L.ses) : ~ValueOk(L, L.ses[j], T) THEN "table:value"
       ELSE IF \E j \in Idx(L.sched) : LET e == L.sched[j] IN
                  e.s # "" /\ ~(e.s \in DOMAIN T /\ WithinBound(e.g, T[e.s], e.mn, L.unint, Eps)) THEN "bound-exceeded"
       ELSE IF \E j \in Idx(L.sched) : L.sched[j].s = "" /\ L.sched[j].g # 0 THEN "unlisted-charged"
       ELSE IF ~ObsPresence(L) THEN "observation:presence"
       ELSE IF ~ObsPilot(L) THEN "observation:pilot-is-not-last-grant"
       ELSE IF ~ObsRate(L) THEN "observation:rate-above-pilot"
       ELSE "ok"

\* what the line exercised (decisive evaluations only, except nd)
Count(L) ==
    LET obsd == {j \in Idx(L.ses) : L.ses[j].s \in Keys(L.obs)}
        dec(j) == LET e == L.ses[j] o == ObsOf(L, e.s) IN RampDecisive(Before(L, e), o.p, o.r, L.up, L.dn, Eps)
        isdown(j) == LET e == L.ses[j] o == ObsOf(L, e.s) IN dec(j) /\ RampDown(o.p, o.r, L.dn)
        isup(j) == LET e == L.ses[j] o == ObsOf(L, e.s) IN dec(j) /\ ~RampDown(o.p, o.r, L.dn) /\ RampUp(Before(L, e), o.r, L.up)
        T == ToFn(L.tab)
    IN [down |-> Cardinality({j \in obsd : isdown(j)}),
        up |-> Cardinality({j \in obsd : isup(j)}),
        hold |-> Cardinality({j \in obsd : dec(j) /\ ~isdown(j) /\ ~isup(j)}),
        nd |-> Cardinality({j \in obsd : ~dec(j)}),
        first |-> Cardinality({j \in Idx(L.ses) : L.ses[j].s \notin DOMAIN Base(L)}),
        kept |-> Cardinality({j \in Idx(L.ses) : L.ses[j].s \in DOMAIN Base(L) /\ j \notin obsd}),
        grants |-> Cardinality({j \in Idx(L.sched) : L.sched[j].s # ""}),
        \* grants that sit exactly at the estimator's bound, the bound being below the station's maximum: the clause binds
        capped |-> Cardinality({j \in Idx(L.sched) : LET e == L.sched[j] IN
                       e.s # "" /\ e.s \in DOMAIN T /\ e.g > 0 /\ Abs(e.g - T[e.s]) <= Eps /\ e.g < e.mx - Eps}),
        above |-> Cardinality({j \in Idx(L.sched) : LET e == L.sched[j] IN
                       e.s # "" /\ e.s \in DOMAIN T /\ e.g > T[e.s] + Eps})]
Zero == [down |-> 0, up |-> 0, hold |-> 0, nd |-> 0, first |-> 0, kept |-> 0, grants |-> 0, capped |-> 0, above |-> 0]
Add(a, b) == [k \in DOMAIN a |-> a[k] + b[k]]

TraceInit ==
    /\ i = 1 /\ tid = -1 /\ tab = <<>> /\ pt = -1 /\ pg = <<>> /\ rej = <<>> /\ cnt = Zero /\ fin = FALSE

Replay ==
    /\ i <= Len(Lines)
    /\ LET L == Lines[i]
           why == Verdict(L)
       IN /\ rej' = IF why = "ok" THEN rej ELSE Append(rej, [line |-> i, tid |-> L.tid, t |-> L.t, why |-> why])
          /\ tab' = LET T == ToFn(L.tab) B == Base(L)
                     IN [k \in DOMAIN B \cup DOMAIN T |-> IF k \in DOMAIN T THEN T[k] ELSE B[k]]
          /\ tid' = L.tid /\ pt' = L.t
          /\ pg' = [x \in {L.sched[j].st : j \in Idx(L.sched)} |-> L.sched[CHOOSE j \in Idx(L.sched) : L.sched[j].st = x].g]
          /\ cnt' = Add(cnt, Count(L))
    /\ i' = i + 1
    /\ UNCHANGED fin

Done ==
    /\ i = Len(Lines) + 1 /\ ~fin
    /\ PrintT(<<"REJ", ToJson([lines |-> Len(Lines), rejected |-> rej, cnt |-> cnt])>>)
    /\ fin' = TRUE
    /\ UNCHANGED <<i, tid, tab, pt, pg, rej, cnt>>
TraceTerminated == fin /\ UNCHANGED tvars

TraceNext == Replay \/ Done \/ TraceTerminated
TraceSpec == TraceInit /\ [][TraceNext]_tvars

\* the table TLC carries is always keyed by strings that were listed as sessions at some point; never negative
TableSane == \A k \in DOMAIN tab : tab[k] >= -Eps
=============================================================================
