--------------------------- MODULE MC_CurrentsSim ---------------------------
(***************************************************************************)
(* Constants for -simulate runs of Currents.tla: random expression menus.  *)
(* Kept apart from MC_Currents because TLC evaluates every constant        *)
(* definition of the root module when it starts.                           *)
(***************************************************************************)
EXTENDS MC_Currents

\* ---- -simulate only: NMenus random menus of 8 trees, drawn from ALL trees of depth <= 2 over Leaves and
\* Scalars (a leaf, a scalar multiple, a sum or a difference at each level), kept on the 1/8 lattice.
\* RandomElement draws from TLC's generator (seeded by -seed); the set is evaluated once, before Init.
\* The operators take a parameter only so that TLC evaluates them anew at each use; a tuple indexed by
\* a random number picks one of the shapes.
Leaves == { EStr("s1"), EStr("s3"), EStr("s4"), ENone, ELst(<<>>),
            ELst(<<"s2", "s1">>), ELst(<<"s1", "s2">>), ELst(<<"s3", "s1", "s2">>), ELst(<<"s1", "s1">>),
            EDct(<<<<"s3", 4>>, <<"s1", -8>>>>), EDct(<<<<"s2", 2>>, <<"s3", 12>>>>),
            EDct(<<<<"s1", 8>>, <<"s2", 8>>, <<"s3", 8>>>>) }
Scalars == {K2, K3, KM, KH, KQ}
RLeaf(i) == RandomElement(Leaves)
RMul(a) == <<ELMul(RandomElement(Scalars), a), ERMul(a, RandomElement(Scalars))>>[RandomElement(1..2)]
RBin(a, b) == <<EAdd(a, b), ESub(a, b)>>[RandomElement(1..2)]
RD1(i) == <<RLeaf(i), RMul(RLeaf(i)), RBin(RLeaf(i), RLeaf(i))>>[RandomElement(1..3)]
RTree(i) == <<RD1(i), RMul(RD1(i)), RBin(RD1(i), RLeaf(i)), RBin(RLeaf(i), RD1(i)), RBin(RD1(i), RD1(i))>>[RandomElement(1..5)]
RExact(i) == LET t == RTree(i) IN IF Exact(t) THEN t ELSE RLeaf(i)
NMenus == 400
MenusRand == {[j \in 1..8 |-> RExact(j)] : i \in 1..NMenus}

=============================================================================
