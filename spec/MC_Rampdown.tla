----------------------------- MODULE MC_Rampdown -----------------------------
(***************************************************************************)
(* Model-checking / generation constants for Rampdown.tla.  Currents in     *)
(* 1e-2 A.  Every value of the GENERATION lattices is a multiple of 25      *)
(* (0.25 A, exactly representable in binary floating point), so that the    *)
(* real estimator's float arithmetic is exact on emitted behaviours and a   *)
(* threshold hit exactly (pilot - rate = down_threshold) is decisive.       *)
(* The model-checking lattices add offsets of 1 unit around the thresholds. *)
(***************************************************************************)
EXTENDS Rampdown

StationsTwo == {"ST-1", "ST-2"}
SessThree == {"ses-a", "ses-b", "ses-c"}                 \* never equal to a station id
StationOfThree == [s \in SessThree |-> IF s = "ses-b" THEN "ST-2" ELSE "ST-1"]   \* ses-a and ses-c share ST-1
MaxPilotTwo == [x \in StationsTwo |-> IF x = "ST-1" THEN 1600 ELSE 3200]
MinPilotTwo == [x \in StationsTwo |-> IF x = "ST-1" THEN 0 ELSE 600]             \* ST-1 continuous from 0, ST-2 finite-rate
MinPilotHigh == [x \in StationsTwo |-> IF x = "ST-1" THEN 800 ELSE 600]          \* both finite-rate (minimum pilot above a ramped-down bound)

\* generation lattices (multiples of 25)
DropsGen == {0, 75, 100, 125, 50, 400}
DropsTiny == {0, 100, 125, 400}
DropsTwo == {0, 125}
GLatGen == {800, 1400}
PLatGen == {600, 1600, 2400}
\* model checking: offsets of one unit around the thresholds 100 / 50 / 150
DropsMC == {0, 49, 50, 51, 99, 100, 101, 149, 150, 151, 700}
DropsQ == {0, 99, 100, 101, 700}
DropsFrac == {0, 49, 50, 51, 149, 150, 151, 700}
PLatTwo == {600, 1600}
DropsPair == {0, 101, 700}
DropsPairFrac == {0, 151, 700}
NoLat == {}
SessOne == {"ses-a"}
SessOnST1 == {"ses-a", "ses-c"}                          \* one station used twice

View == <<t, stage, ph, old, lastP, lastR, ub, passed, grant>>
=============================================================================
