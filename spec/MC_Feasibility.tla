--------------------------- MODULE MC_Feasibility ---------------------------
(***************************************************************************)
(* The lattice of C06 cases: networks (angle family x mixed-sign           *)
(* coefficients x limits), each with its own menu of schedule columns      *)
(* (built around its limits: aggregates a few tolerances either side of    *)
(* limit + tolerance; phasor columns whose magnitude is an exact integer   *)
(* or just beside one) and its tolerance pairs.                            *)
(*                                                                         *)
(* "fine" networks:   unit 1e-6 A, one common angle, rational comparison.  *)
(* "coarse" networks: unit 0.1 A, any family, squared comparison.          *)
(* Every product stays below 2^31 (TLC would report an overflow).          *)
(***************************************************************************)
EXTENDS Feasibility

Bump(b, p, d) == [b EXCEPT ![p] = @ + d]
Neg(b) == [i \in DOMAIN b |-> -b[i]]

\* tolerance pairs [at (units), rn/rd]
\* -- in 1e-6 A units
TDef  == [at |-> 10,   rn |-> 1, rd |-> 10000000]   \* the defaults 1e-5 A, 1e-7
TRel6 == [at |-> 10,   rn |-> 1, rd |-> 1000000]    \* 1e-5 A, 1e-6  (relative part wins at 20 A)
TRel5 == [at |-> 1,    rn |-> 1, rd |-> 100000]     \* 1e-6 A, 1e-5
TRel3 == [at |-> 10,   rn |-> 1, rd |-> 1000]       \* 1e-5 A, 1e-3
TAbs3 == [at |-> 1000, rn |-> 1, rd |-> 10000000]   \* 1e-3 A, 1e-7
TZero == [at |-> 0,    rn |-> 0, rd |-> 1]          \* no tolerance at all
\* -- in 0.1 A units
TA1   == [at |-> 1,    rn |-> 0, rd |-> 1]          \* 0.1 A, 0
TR10  == [at |-> 0,    rn |-> 1, rd |-> 10]         \* 0, 10 %
TR20  == [at |-> 3,    rn |-> 1, rd |-> 20]         \* 0.3 A, 5 %

-----------------------------------------------------------------------------
\* fine networks (1e-6 A): aggregates at  limit + d/cd  for d around every tolerance in use

\* x1 + x2 + x3 <= 20 A, all stations at 0 degrees
F1b == <<8000000, 7000000, 5000000>>                 \* sums to the limit exactly
NetF1 == [id |-> "F1-col-sum", fam |-> "col", ang |-> 0, rot |-> 0, ph |-> <<1, 1, 1>>, cd |-> 1,
          cons |-> << [n |-> <<1, 1, 1>>, lim |-> 20000000] >>, upa |-> 1000000, sq |-> FALSE,
          tols |-> <<TDef, TRel6, TZero>>,
          menu |-> << Bump(F1b, 2, -1), Bump(F1b, 2, 1), Bump(F1b, 2, 9), Bump(F1b, 2, 11),
                      Bump(F1b, 2, 19), Bump(F1b, 2, 21), Neg(Bump(F1b, 2, 9)), Neg(Bump(F1b, 2, 11)),
                      <<0, 0, 0>>, <<3000000, 3000000, 1000000>> >>]

\* (2 x1 - x2 + x3)/2 <= 20 A and (2 x2 + 2 x3)/2 <= 32 A, all stations at 30 degrees
F2b == <<25000000, 16000000, 6000000>>               \* signed sum  = 2 * 20 A
F2l == <<10000000, 12000000, 8000000>>               \* |coef| sum  = 2 * 20 A
NetF2 == [id |-> "F2-col-mixed", fam |-> "col", ang |-> 30, rot |-> 0, ph |-> <<1, 1, 1>>, cd |-> 2,
          cons |-> << [n |-> <<2, -1, 1>>, lim |-> 20000000], [n |-> <<0, 2, 2>>, lim |-> 32000000] >>,
          upa |-> 1000000, sq |-> FALSE,
          tols |-> <<TDef, TAbs3, TRel3>>,
          menu |-> << Bump(F2b, 1, 9), Bump(F2b, 1, 11), Bump(F2b, 1, 999), Bump(F2b, 1, 1001),
                      Bump(F2b, 1, 19999), Bump(F2b, 1, 20001), Bump(F2l, 1, 9), Bump(F2l, 1, 11),
                      Neg(Bump(F2b, 1, 11)), <<0, 0, 0>> >>]

\* (x1 + 2 x2 - x3)/4 <= 20.037 A (off-grid limit), all stations at -90+17 degrees
F3b == <<30148000, 30000000, 10000000>>              \* signed sum = 4 * 20.037 A
NetF3 == [id |-> "F3-col-offgrid", fam |-> "col", ang |-> -90, rot |-> 17, ph |-> <<1, 1, 1>>, cd |-> 4,
          cons |-> << [n |-> <<1, 2, -1>>, lim |-> 20037000] >>, upa |-> 1000000, sq |-> FALSE,
          tols |-> <<TDef, TZero, TRel5>>,
          menu |-> << Bump(F3b, 1, -1), Bump(F3b, 1, 1), Bump(F3b, 1, 39), Bump(F3b, 1, 41),
                      Bump(F3b, 1, 801), Bump(F3b, 1, 802), Neg(Bump(F3b, 1, 39)), Neg(Bump(F3b, 1, 41)),
                      <<0, 0, 0>>, <<9000000, 13000000, 32000000>> >>]

\* -x1 - x2 <= 12.5 A (all coefficients negative) and x3 <= 16 A; angle 150
F4b == <<6000000, 6500000, 16000000>>
NetF4 == [id |-> "F4-col-neg", fam |-> "col", ang |-> 150, rot |-> -40, ph |-> <<1, 1, 1>>, cd |-> 1,
          cons |-> << [n |-> <<-1, -1, 0>>, lim |-> 12500000], [n |-> <<0, 0, 1>>, lim |-> 16000000] >>,
          upa |-> 1000000, sq |-> FALSE,
          tols |-> <<TDef, TRel6>>,
          menu |-> << Bump(F4b, 1, 9), Bump(F4b, 1, 11), Bump(F4b, 3, 9), Bump(F4b, 3, 11),
                      Bump(F4b, 3, 15), Bump(F4b, 3, 17), Bump(F4b, 1, 12), Bump(F4b, 1, 13),
                      <<0, 0, 0>>, Neg(Bump(F4b, 3, 11)) >>]

\* weights larger than 1 (a transformer ratio, a station counted on two branches):
\* 2 x1 + 3 x2 + x3 <= 50 A while the plain sum x1 + x2 + x3 <= 40 A is far from binding; angle 0
F5b == <<10000000, 8000000, 6000000>>                \* weighted sum = 50 A, plain sum = 24 A
NetF5 == [id |-> "F5-col-weights", fam |-> "col", ang |-> 0, rot |-> 0, ph |-> <<1, 1, 1>>, cd |-> 1,
          cons |-> << [n |-> <<2, 3, 1>>, lim |-> 50000000], [n |-> <<1, 1, 1>>, lim |-> 40000000] >>,
          upa |-> 1000000, sq |-> FALSE,
          tols |-> <<TDef, TZero>>,
          menu |-> << Bump(F5b, 3, -1), Bump(F5b, 3, 1), Bump(F5b, 3, 9), Bump(F5b, 3, 11),
                      Bump(F5b, 1, 4), Bump(F5b, 1, 6), <<16000000, 8000000, 0>>, <<20000000, 0, 0>>,
                      <<0, 0, 0>>, Neg(Bump(F5b, 3, 11)) >>]

\* an all-integer row naming every station registered FIRST, then a row with halves:
\* x1 + x2 + x3 <= 40 A, then (x1 + 3 x2 + 2 x3)/2 <= 20 A (an integer-typed matrix would truncate 0.5 and 1.5)
F6b == <<10000000, 6000000, 6000000>>                \* second row: (10 + 18 + 12)/2 = 20 A, first row 22 A
NetF6 == [id |-> "F6-col-int-first", fam |-> "col", ang |-> 0, rot |-> 0, ph |-> <<1, 1, 1>>, cd |-> 2,
          cons |-> << [n |-> <<2, 2, 2>>, lim |-> 40000000], [n |-> <<1, 3, 2>>, lim |-> 20000000] >>,
          upa |-> 1000000, sq |-> FALSE,
          tols |-> <<TDef, TZero>>,
          menu |-> << Bump(F6b, 1, -2), Bump(F6b, 1, 2), Bump(F6b, 1, 18), Bump(F6b, 1, 22),
                      <<0, 13000000, 0>>, <<0, 14000000, 0>>, <<38000000, 0, 0>>, <<0, 0, 21000000>>,
                      <<0, 0, 0>>, Neg(Bump(F6b, 1, 22)) >>]

\* a slack row with a huge limit (100 kA: "never binds") registered BEFORE the binding one, relative tolerance
\* 10 %: the tolerance of a row is a function of ITS OWN limit (0.1 A units, rational comparison)
NetF7 == [id |-> "F7-col-slack-first", fam |-> "col", ang |-> 0, rot |-> 0, ph |-> <<1, 1, 1>>, cd |-> 1,
          cons |-> << [n |-> <<1, 1, 1>>, lim |-> 1000000], [n |-> <<1, 0, 0>>, lim |-> 200] >>,
          upa |-> 10, sq |-> FALSE,
          tols |-> <<TR10, TA1>>,
          menu |-> << <<210, 0, 0>>, <<219, 0, 0>>, <<221, 0, 0>>, <<230, 0, 0>>, <<0, 500, 0>>,
                      <<200, 0, 0>>, <<202, 0, 0>>, <<0, 0, 0>>, <<-230, 0, 0>>, <<201, 300, 300>> >>]

-----------------------------------------------------------------------------
\* coarse networks (0.1 A).  Eisenstein triples: a^2 - ab + b^2 = 70^2 for (a,b) = (80,30), (80,50);
\* a^2 + ab + b^2 = 130^2 for (70,80); 70^2 for (30,50).

\* line-to-line, one station per phase, x1 + x2 + x3 <= 21 A
NetP1 == [id |-> "P1-ll-abc", fam |-> "ll", ang |-> 0, rot |-> 0, ph |-> <<1, 2, 3>>, cd |-> 1,
          cons |-> << [n |-> <<1, 1, 1>>, lim |-> 210] >>, upa |-> 10, sq |-> TRUE,
          tols |-> <<TZero, TA1, TR10>>,
          menu |-> << <<240, 90, 0>>, <<241, 90, 0>>, <<242, 90, 0>>, <<200, 200, 200>>,
                      <<70, 70, 70>>, <<69, 70, 70>>, <<0, 231, 0>>, <<0, 232, 0>>,
                      <<0, -230, 0>>, <<-100, 50, -100>>,
                      \* signed entries that cancel as plain numbers (sum 15 A) but add up as phasors (30 A)
                      <<150, -150, 150>>, <<100, -110, 100>> >>]

\* line-to-line rotated by 45, mixed signs: (2 x1 - 2 x2)/2 <= 13 A, (x1 + x2 + 2 x3)/2 <= 30 A
NetP2 == [id |-> "P2-ll-mixed", fam |-> "ll", ang |-> 0, rot |-> 45, ph |-> <<1, 2, 3>>, cd |-> 2,
          cons |-> << [n |-> <<2, -2, 0>>, lim |-> 130], [n |-> <<1, 1, 2>>, lim |-> 300] >>,
          upa |-> 10, sq |-> TRUE,
          tols |-> <<TZero, TA1, TR10>>,
          menu |-> << <<70, 80, 0>>, <<71, 80, 0>>, <<70, 79, 0>>, <<100, 100, 0>>,
                      <<60, 60, 0>>, <<65, 66, 0>>, <<0, 0, 150>>, <<0, 0, 301>>,
                      <<-70, -80, 0>>, <<0, 0, 0>> >>]

\* line-to-neutral, four stations (two on phase A), x1 + x2 + x3 + x4 <= 7 A
NetP3 == [id |-> "P3-ln-4st", fam |-> "ln", ang |-> 0, rot |-> 0, ph |-> <<1, 2, 3, 1>>, cd |-> 1,
          cons |-> << [n |-> <<1, 1, 1, 1>>, lim |-> 70] >>, upa |-> 10, sq |-> TRUE,
          tols |-> <<TZero, TA1, TR10>>,
          menu |-> << <<50, 30, 0, 30>>, <<51, 30, 0, 30>>, <<50, 30, 1, 30>>, <<30, 30, 30, 0>>,
                      <<30, 25, 25, 0>>, <<0, 71, 0, 0>>, <<40, 0, 0, 31>>, <<35, 0, 0, 35>>,
                      <<34, 0, 0, 35>>, <<-50, -30, 0, -30>> >>]

\* line-to-neutral rotated by -100, line currents as differences: x1 - x2 <= 13 A, x2 - x3 <= 19 A
NetP4 == [id |-> "P4-ln-diff", fam |-> "ln", ang |-> 0, rot |-> -100, ph |-> <<1, 2, 3>>, cd |-> 1,
          cons |-> << [n |-> <<1, -1, 0>>, lim |-> 130], [n |-> <<0, 1, -1>>, lim |-> 190] >>,
          upa |-> 10, sq |-> TRUE,
          tols |-> <<TZero, TA1, TR20>>,
          menu |-> << <<70, 80, 0>>, <<70, 81, 0>>, <<69, 80, 0>>, <<0, 190, 0>>,
                      <<0, 191, 0>>, <<64, 65, 0>>, <<66, 65, 0>>, <<120, 120, 120>>,
                      <<0, 0, 0>>, <<-70, -80, 0>> >>]

\* one angle, small units, squared comparison (for CollinearAgrees): (x1 - x2 + 2 x3)/2 <= 20 A
NetP5 == [id |-> "P5-col-coarse", fam |-> "col", ang |-> 150, rot |-> 0, ph |-> <<1, 1, 1>>, cd |-> 2,
          cons |-> << [n |-> <<1, -1, 2>>, lim |-> 200] >>, upa |-> 10, sq |-> TRUE,
          tols |-> <<TZero, TR20>>,
          menu |-> << <<400, 0, 0>>, <<402, 0, 0>>, <<420, 0, 0>>, <<422, 0, 0>>,
                      <<0, -400, 0>>, <<100, 100, 150>>, <<-402, 0, 0>>, <<0, 0, 199>>,
                      <<150, 150, 201>>, <<0, 0, 0>> >>]

\* no constraints at all
NetP6 == [id |-> "P6-free", fam |-> "ll", ang |-> 0, rot |-> 0, ph |-> <<1, 2, 3>>, cd |-> 1,
          cons |-> << >>, upa |-> 10, sq |-> TRUE,
          tols |-> <<TZero, TA1>>,
          menu |-> << <<0, 0, 0>>, <<100000, 100000, 100000>>, <<-5, 7, 320>> >>]

\* line-to-line rotated by 160, four stations (two on phase B), quarter coefficients:
\* (4 x1 - 4 x3)/4 <= 13 A and (x1 + 2 x2 - x3 + 3 x4)/4 <= 17.5 A
NetP7 == [id |-> "P7-ll-quarters", fam |-> "ll", ang |-> 0, rot |-> 160, ph |-> <<1, 2, 3, 2>>, cd |-> 4,
          cons |-> << [n |-> <<4, 0, -4, 0>>, lim |-> 130], [n |-> <<1, 2, -1, 3>>, lim |-> 175] >>,
          upa |-> 10, sq |-> TRUE,
          tols |-> <<TZero, TA1, TR10>>,
          menu |-> << <<70, 0, 80, 0>>, <<71, 0, 80, 0>>, <<70, 0, 79, 0>>, <<0, 140, 0, 140>>,
                      <<0, 141, 0, 140>>, <<75, 10, 75, 10>>, <<0, 0, 0, 233>>, <<0, 0, 0, 234>>,
                      <<-60, 20, 30, -20>>, <<0, 0, 0, 0>> >>]

\* whole amperes, one phase at 0 degrees, whole coefficients and limits, zero / whole-ampere tolerances: the aggregates
\* of the menu sit EXACTLY on limit + tolerance (32 A, 40 A, 33 A, 41 A) - "at most the limit plus the tolerance" includes
\* equality - and every quantity is a small integer, so floating point computes these cases exactly and the boundary
\* itself is decisive (see props_feasibility.exact_boundary)
TW1 == [at |-> 1, rn |-> 0, rd |-> 1]            \* 1 A, 0
NetE1 == [id |-> "E1-col-exact", fam |-> "col", ang |-> 0, rot |-> 0, ph |-> <<1, 1, 1>>, cd |-> 1,
          cons |-> << [n |-> <<1, 1, 0>>, lim |-> 32], [n |-> <<1, 1, 1>>, lim |-> 40] >>, upa |-> 1, sq |-> FALSE,
          tols |-> <<TZero, TW1>>,
          menu |-> << <<16, 16, 8>>, <<16, 17, 8>>, <<32, 0, 8>>, <<16, 16, 9>>, <<0, 0, 40>>, <<17, 16, 7>>,
                      <<17, 16, 8>>, <<17, 17, 7>>, <<0, 0, 41>>, <<0, 0, 0>> >>]

NetsAll == <<NetE1, NetF1, NetF2, NetF3, NetF4, NetF5, NetF6, NetF7, NetP1, NetP2, NetP3, NetP4, NetP5, NetP6, NetP7>>
NetsQuick == <<NetE1, NetF1, NetF2, NetF3, NetF5, NetF6, NetF7, NetP1, NetP2, NetP3, NetP5, NetP6>>

DropsAll == {{}, {1}, {2, 3}}
DropsQuick == {{}, {2}}
DropsNone == {{}}

-----------------------------------------------------------------------------
\* The case never changes along a behaviour (PROPERTY CaseFixed), so each theorem about the case is
\* evaluated once per case, in the state after Eval, instead of four times.
AtEval(P) == pc = "evaluated" => P
ThmCaseWellFormed == AtEval(CaseWellFormed)
ThmLinearConservative == AtEval(LinearConservative)
ThmNoConstraintsAcceptsAll == AtEval(NoConstraintsAcceptsAll)
ThmEmptyScheduleFeasible == AtEval(EmptyScheduleFeasible)
ThmPeriodLocal == AtEval(PeriodLocal)
ThmCollinearAgrees == AtEval(CollinearAgrees)
ThmLinearExactWhenAligned == AtEval(LinearExactWhenAligned)
ThmDropIsZero == AtEval(DropIsZero)
=============================================================================
