----------------------------- MODULE EventQueue -----------------------------
(***************************************************************************)
(* The simulator's event queue                                             *)
(*   acnportal/acnsim/events/event_queue.py : EventQueue                   *)
(*   acnportal/acnsim/events/event.py       : Event.__lt__, precedences    *)
(* as an abstract priority queue (property C11).                           *)
(*                                                                         *)
(* State.  The code keeps a binary heap `_queue` of (timestamp, event)     *)
(* tuples; tuples compare by timestamp first and then by Event.__lt__,     *)
(* i.e. by `precedence` (UnplugEvent 0, PluginEvent 10, RecomputeEvent 20).*)
(* The specification keeps only what a caller can observe: the SET         *)
(* `pending` of events that were added and not yet handed out.  An event   *)
(* is [id, ts, kind]; `id` is the order of insertion (1, 2, ...) and stands *)
(* for object identity (two Recompute events at the same period are two    *)
(* events).  Units: ts in periods (integers >= 0).                         *)
(*                                                                         *)
(* Actions = the public calls, one each:                                   *)
(*   Add(ts,kind)      add_event(e)                                        *)
(*   AddMany(b)        add_events([e1, e2, ...])                           *)
(*   AddManyFail(b,k)  add_events(iterable that raises after k events)     *)
(*   GetEvent(e)       get_event()  -> e, ANY pending event of minimal     *)
(*                     (ts, precedence): the specification does not say    *)
(*                     which of several equal-key events comes first       *)
(*   GetCurrent(t,r)   get_current_events(t) -> r, any outcome of the      *)
(*                     loop "while head.ts <= t: append(get_event())"      *)
(*   Len, Empty, LastTs   len(q), q.empty(), q.get_last_timestamp()        *)
(*                     (None on an empty queue, as the docstring says)     *)
(*   RoundTrip         q := EventQueue.from_json(q.to_json())              *)
(* get_event() on an empty queue (IndexError in the code) is outside the   *)
(* property: GetEvent is enabled iff the queue is non-empty.               *)
(*                                                                         *)
(* `out` is the value returned by the last call.  `added` and `rets` are   *)
(* history variables used only by the theorems (switched off with          *)
(* Hist = FALSE); `hist` records the *plan* (calls and arguments, no       *)
(* results) that Finish emits for the conformance harness (Rec = TRUE).    *)
(*                                                                         *)
(* Not modelled: the private attribute `_timestep` (written by             *)
(* get_current_events, serialised, never read by any other method).        *)
(***************************************************************************)
EXTENDS Integers, Sequences, FiniteSets, TLC, Json, SequencesExt

CONSTANTS
    Ts,         \* timestamps an added event may carry (set of naturals)
    Kinds,      \* subset of {"Unplug", "Plugin", "Recompute"}
    Probes,     \* arguments t of get_current_events(t)
    Batches,    \* menu of add_events arguments: set of sequences of [ts, kind]
    MaxOps,     \* number of calls in a behaviour (plan generation only, see Step)
    MaxEv,      \* number of events ever created in a behaviour
    Hist,       \* maintain the history variables added / rets (theorems T2, T4, T5)
    Rec         \* record the plan in hist and emit it in Finish

VARIABLES
    pending,    \* set of [id, ts, kind]: added and not yet returned
    nextId,     \* id of the next event to be created (ids are 1, 2, ... in order of insertion)
    nops,       \* calls made so far
    out,        \* [op |-> name, ...result...] of the last call
    added,      \* history: every event ever added
    rets,       \* history: sequence of [ev, hi] - events handed out, in order; hi = largest id that
                \*          existed when ev was handed out
    hist,       \* plan recorder: sequence of [op, arguments]
    fin         \* TRUE after Finish

vars == <<pending, nextId, nops, out, added, rets, hist, fin>>

-----------------------------------------------------------------------------
\* The order.  Event.precedence as set by the three constructors.
Prec(k) == CASE k = "Unplug" -> 0 [] k = "Plugin" -> 10 [] k = "Recompute" -> 20
             \* a plain Event(timestamp) - the public base class, e.g. of a user's own event types - carries the
             \* documented attribute `precedence` (default +inf: after everything else in its period); a caller may set it,
             \* here to -inf ("Urgent": before everything else).  Only the order of the values matters.
             [] k = "Urgent" -> -1000 [] k = "Base" -> 1000

\* (ts, precedence) lexicographic: what tuple comparison + Event.__lt__ compute.
KeyLeq(a, b) == a.ts < b.ts \/ (a.ts = b.ts /\ Prec(a.kind) <= Prec(b.kind))
KeyLt(a, b)  == a.ts < b.ts \/ (a.ts = b.ts /\ Prec(a.kind) <  Prec(b.kind))

MinEvents(S) == {e \in S : \A f \in S : KeyLeq(e, f)}      \* candidates for the heap top
Due(S, t)    == {e \in S : e.ts <= t}
SeqRange(s)  == {s[i] : i \in 1..Len(s)}
MaxTsOf(S)   == CHOOSE m \in {e.ts : e \in S} : \A e \in S : e.ts <= m

\* get_current_events(t), structured like the code:
\*     while not self.empty() and self._queue[0][0] <= t:  current_events.append(self.get_event())
\* The heap top is some minimal event, so its timestamp is the minimal timestamp.  The set of
\* all result lists the loop can produce (one per way of resolving equal keys):
RECURSIVE Drain(_, _)
Drain(S, t) ==
    IF S = {} \/ (\A e \in MinEvents(S) : e.ts > t)
    THEN {<<>>}
    ELSE UNION {{<<e>> \o r : r \in Drain(S \ {e}, t)} : e \in MinEvents(S)}

\* What the property says about the same call, declaratively: exactly the pending events with
\* ts <= t, each once, in an order that is non-decreasing in (ts, precedence).
ValidCurrent(S, t, r) ==
    /\ SeqRange(r) = Due(S, t)
    /\ Len(r) = Cardinality(Due(S, t))
    /\ \A i, j \in 1..Len(r) : i < j => KeyLeq(r[i], r[j])

\* The events a batch (sequence of [ts, kind]) creates when the next free id is n.
Stamped(b, n) == [i \in 1..Len(b) |-> [id |-> n + i - 1, ts |-> b[i].ts, kind |-> b[i].kind]]

-----------------------------------------------------------------------------
Init ==
    /\ pending = {} /\ nextId = 1 /\ nops = 0
    /\ out = [op |-> "init"]
    /\ added = {} /\ rets = <<>> /\ hist = <<>> /\ fin = FALSE

\* bookkeeping common to all calls: p is the plan entry (call + arguments, never a result)
\* In plan-generation mode (Rec) calls are counted and a behaviour has exactly MaxOps calls.  In
\* model-checking mode they are not: behaviours are arbitrarily long call sequences, bounded only
\* by the MaxEv events that may ever be created (the state space is finite without a counter).
CanCall == ~fin /\ (Rec => nops < MaxOps)        \* first conjunct of every call
Step(p) ==
    /\ nops' = IF Rec THEN nops + 1 ELSE nops
    /\ hist' = IF Rec THEN Append(hist, p) ELSE hist
    /\ UNCHANGED fin

Returned(r) ==      \* r: sequence of events handed out by this call
    rets' = IF Hist THEN rets \o [i \in 1..Len(r) |-> [ev |-> r[i], hi |-> nextId - 1]] ELSE rets

\* add_event(e): heappush
Add(ts, kind) ==
    /\ CanCall
    /\ nextId <= MaxEv
    /\ LET e == [id |-> nextId, ts |-> ts, kind |-> kind] IN
        /\ pending' = pending \cup {e}
        /\ added' = IF Hist THEN added \cup {e} ELSE added
    /\ nextId' = nextId + 1
    /\ out' = [op |-> "add"]
    /\ UNCHANGED rets
    /\ Step([op |-> "add", ts |-> ts, kind |-> kind])

\* add_events(list): add_event for each element, in list order
AddMany(b) ==
    /\ CanCall
    /\ nextId + Len(b) - 1 <= MaxEv
    /\ LET es == SeqRange(Stamped(b, nextId)) IN
        /\ pending' = pending \cup es
        /\ added' = IF Hist THEN added \cup es ELSE added
    /\ nextId' = nextId + Len(b)
    /\ out' = [op |-> "add_many"]
    /\ UNCHANGED rets
    /\ Step([op |-> "add_many", evs |-> b])

\* add_events(iterable) where the iterable itself fails (raises) after having produced the first k events of b.
\* Whatever the call has taken in by then stays pending (K, a subset of those k events) and the queue is as good
\* as before: every later call behaves as the pending set says.  The code adds event by event, so K is all k of
\* them (AddManyFail); the trace specification accepts the K the implementation reports (any subset).  The ids of
\* the k events produced are used up either way.
AddManyKept(b, k, K) ==
    /\ CanCall
    /\ k \in 0..(Len(b) - 1)
    /\ nextId + k - 1 <= MaxEv
    /\ K \subseteq SeqRange(Stamped(SubSeq(b, 1, k), nextId))
    /\ pending' = pending \cup K
    /\ added' = IF Hist THEN added \cup K ELSE added
    /\ nextId' = nextId + k
    /\ out' = [op |-> "add_many_fail"]
    /\ UNCHANGED rets
    /\ Step([op |-> "add_many_fail", evs |-> b, k |-> k])
AddManyFail(b, k) == AddManyKept(b, k, SeqRange(Stamped(SubSeq(b, 1, k), nextId)))

\* get_event(): heappop.  e is the event returned.
GetEvent(e) ==
    /\ CanCall
    /\ e \in MinEvents(pending)             \* in particular pending # {}
    /\ pending' = pending \ {e}
    /\ out' = [op |-> "get_event", ev |-> e]
    /\ Returned(<<e>>)
    /\ UNCHANGED <<nextId, added>>
    /\ Step([op |-> "get_event"])

\* get_current_events(t).  r is the list returned: the guard is the declarative statement of the
\* property; DoGetCurrent below generates r with the loop (Drain); theorem T3 says that the two
\* describe the same lists.
GetCurrent(t, r) ==
    /\ CanCall
    /\ ValidCurrent(pending, t, r)
    /\ pending' = pending \ SeqRange(r)
    /\ out' = [op |-> "get_current", t |-> t, evs |-> r]
    /\ Returned(r)
    /\ UNCHANGED <<nextId, added>>
    /\ Step([op |-> "get_current", t |-> t])

\* len(q)
QLen ==
    /\ CanCall
    /\ out' = [op |-> "len", n |-> Cardinality(pending)]
    /\ UNCHANGED <<pending, nextId, added, rets>>
    /\ Step([op |-> "len"])

\* q.empty()
QEmpty ==
    /\ CanCall
    /\ out' = [op |-> "empty", b |-> (pending = {})]
    /\ UNCHANGED <<pending, nextId, added, rets>>
    /\ Step([op |-> "empty"])

\* q.get_last_timestamp(): the largest pending timestamp, None on an empty queue.
\* (none = TRUE encodes None; ts is then 0 by convention and carries no meaning.)
QLastTs ==
    /\ CanCall
    /\ out' = [op |-> "last_ts", none |-> (pending = {}),
               ts |-> IF pending = {} THEN 0 ELSE MaxTsOf(pending)]
    /\ UNCHANGED <<pending, nextId, added, rets>>
    /\ Step([op |-> "last_ts"])

\* EventQueue.from_json(q.to_json()) replaces q: the same pending events (evs = what the restored
\* queue holds), hence - all other actions depending on `pending` only - the same future.
RoundTrip ==
    /\ CanCall
    /\ out' = [op |-> "round_trip", evs |-> pending]
    /\ UNCHANGED <<pending, nextId, added, rets>>
    /\ Step([op |-> "round_trip"])

\* End of a behaviour: emit the plan.
Finish ==
    /\ ~fin /\ Rec /\ nops = MaxOps
    /\ IF Rec THEN PrintT(<<"BHV", ToJson([ops |-> hist])>>) ELSE TRUE
    /\ fin' = TRUE
    /\ UNCHANGED <<pending, nextId, nops, out, added, rets, hist>>

Terminated == fin /\ UNCHANGED vars

\* Plans contain calls and arguments but no results, and which of several equal-key events a
\* call hands out has no influence on what can be called later.  In plan-generation mode (Rec)
\* only one representative outcome of get_event / get_current_events is therefore followed
\* (equal keys resolved by insertion order); in model-checking mode all outcomes are.
IdLeq(a, b) == KeyLt(a, b) \/ (~KeyLt(b, a) /\ a.id <= b.id)
OneOf(S) == IF S = {} THEN {} ELSE {CHOOSE e \in S : \A f \in S : e.id <= f.id}
GetEventOutcomes == IF Rec THEN OneOf(MinEvents(pending)) ELSE MinEvents(pending)
GetCurrentOutcomes(t) ==
    IF Rec THEN {SetToSortSeq(Due(pending, t), LAMBDA a, b : IdLeq(a, b) /\ a # b)}
    ELSE Drain(pending, t)

\* named so that -coverage reports one line per call
DoAdd        == \E ts \in Ts, k \in Kinds : Add(ts, k)
DoAddMany    == \E b \in Batches : AddMany(b)
\* (offered with the source failing at its last element: all but one event of the batch were produced - any earlier
\* failure point is the same call with a shorter batch)
DoAddManyFail == \E b \in Batches : Len(b) >= 2 /\ AddManyFail(b, Len(b) - 1)
DoGetEvent   == CanCall /\ \E e \in GetEventOutcomes : GetEvent(e)
GetCurrentAt(t) == CanCall /\ \E r \in GetCurrentOutcomes(t) : GetCurrent(t, r)
DoGetCurrent == \E t \in Probes : GetCurrentAt(t)

Next ==
    \/ DoAdd \/ DoAddMany \/ DoAddManyFail \/ DoGetEvent \/ DoGetCurrent
    \/ QLen \/ QEmpty \/ QLastTs \/ RoundTrip
    \/ Finish \/ Terminated

Spec == Init /\ [][Next]_vars

-----------------------------------------------------------------------------
\* C11.  Theorems about the specification, decided by TLC over all call sequences.

EventT == [id : 1..MaxEv, ts : Ts, kind : Kinds]
TypeOK ==
    /\ pending \subseteq EventT
    /\ nextId \in 1..(MaxEv + 1)
    /\ \A e \in pending : e.id < nextId
    /\ \A e, f \in pending : e.id = f.id => e = f
    /\ nops \in 0..MaxOps

RetSet == {rets[i].ev : i \in 1..Len(rets)}

\* T1 (step form of the order statement): what get_event hands out is pending, is removed, and
\*    nothing that stays behind is strictly earlier in (ts, precedence).
T1_GetEventMinimal ==
    [][out'.op = "get_event" /\ fin' = fin =>
          /\ out'.ev \in pending
          /\ pending' = pending \ {out'.ev}
          /\ \A f \in pending' : KeyLeq(out'.ev, f)]_vars

\* T2 (history form, "for every interleaving of insertions and retrievals"): of two events
\*    handed out, the earlier one has the smaller-or-equal key unless the later one was inserted
\*    only after the earlier one had left the queue.  This covers get_event and the lists of
\*    get_current_events alike, across JSON round trips and queries.
T2_OrderForEveryInterleaving ==
    Hist => \A i, j \in 1..Len(rets) :
                i < j => KeyLeq(rets[i].ev, rets[j].ev) \/ rets[j].ev.id > rets[i].hi

\* T3: get_current_events(t) - every outcome of the loop is exactly the due events in key order
\*     and, conversely, every key-ordered arrangement of the due events is an outcome of the loop;
\*     the events that stay all have ts > t.
T3_CurrentExact ==
    \A t \in Probes :
        LET D == Drain(pending, t) IN
        /\ \A r \in D : ValidCurrent(pending, t, r)
        /\ D = {r \in SetToSeqs(Due(pending, t)) : ValidCurrent(pending, t, r)}
T3_CurrentSplit ==
    [][out'.op = "get_current" /\ fin' = fin =>
          /\ SeqRange(out'.evs) = Due(pending, out'.t)
          /\ pending' = pending \ Due(pending, out'.t)
          /\ \A e \in pending' : e.ts > out'.t]_vars

\* T4: conservation - nothing is lost, duplicated or invented.
T4_Conservation ==
    Hist => /\ added = pending \cup RetSet
            /\ pending \cap RetSet = {}
            /\ Cardinality(RetSet) = Len(rets)

\* T5: the queries reflect the pending set (stated against the history, not against `pending`).
T5_QueriesReflect ==
    Hist =>
      /\ out.op = "len" => out.n = Cardinality(added) - Len(rets)
      /\ out.op = "empty" => (out.b <=> added = RetSet)
      /\ out.op = "last_ts" =>
            /\ out.none <=> added = RetSet
            /\ ~out.none => /\ \E e \in added \ RetSet : e.ts = out.ts
                            /\ \A e \in added \ RetSet : e.ts <= out.ts
T5_QueriesPure ==
    [][out'.op \in {"len", "empty", "last_ts"} /\ fin' = fin => pending' = pending]_vars

\* T6: the JSON round trip is the identity on the abstract state.
T6_RoundTripIdentity ==
    [][out'.op = "round_trip" /\ fin' = fin => pending' = pending /\ out'.evs = pending]_vars

\* Draining a queue with get_event alone yields a key-sorted list (corollary of T2, stated
\* separately because it is the sentence of the property): if no insertion happened since
\* rets[i] was handed out, everything handed out later is >= it.
T7_DrainSorted ==
    Hist => \A i \in 1..Len(rets) :
                rets[i].hi = nextId - 1 => \A j \in i..Len(rets) : KeyLeq(rets[i].ev, rets[j].ev)

\* The same in the words of the property, with the order written out independently of Prec/KeyLeq:
\* timestamps never decrease; at equal timestamps unplug comes before plug-in before recompute.
Rank(k) == CASE k = "Urgent" -> 0 [] k = "Unplug" -> 1 [] k = "Plugin" -> 2 [] k = "Recompute" -> 3 [] k = "Base" -> 4
T8_TimeThenUnplugPluginRecompute ==
    Hist => \A i, j \in 1..Len(rets) :
                (i < j /\ rets[j].ev.id <= rets[i].hi) =>
                    /\ rets[i].ev.ts <= rets[j].ev.ts
                    /\ rets[i].ev.ts = rets[j].ev.ts => Rank(rets[i].ev.kind) <= Rank(rets[j].ev.kind)
=============================================================================
