------------------------------ MODULE Calendar ------------------------------
(***************************************************************************)
(* Proleptic Gregorian calendar arithmetic in exact integers, as used by   *)
(* Python's datetime (which acnportal uses for every date computation).     *)
(*                                                                         *)
(*   day number  = days since 1970-01-01 (day 0, a Thursday)               *)
(*   ordinal     = Python's date.toordinal() = day number + 719163          *)
(*   weekday     = 0 Monday ... 6 Sunday  (Python's date.weekday())          *)
(*   instant     = [day |-> day number, sec |-> second of the day 0..86399] *)
(*                 a *wall clock* reading; AddSeconds/AddMinutes are naive   *)
(*                 wall clock arithmetic (datetime + timedelta, no zones)    *)
(*   calendar type = (leap year?, weekday of 1 January): 14 types; a year's  *)
(*                 type fixes the weekday of every one of its dates.         *)
(*                                                                         *)
(* Two independent routes are transcribed for each conversion so that TLC   *)
(* can check one against the other (see the theorems at the end):           *)
(*   civil -> day number : cumulative-days formula (CPython _ymd2ord)        *)
(*   day number -> civil : era/day-of-era algorithm (H. Hinnant)             *)
(*   weekday             : (day + 3) mod 7   vs.  Sakamoto's table method    *)
(* All quantities stay far below 2^31 for the years 1970..2037.             *)
(***************************************************************************)
EXTENDS Integers, Sequences, FiniteSets

SecPerDay == 86400
MinPerDay == 1440
Years == 1970..2037             \* the range every generator of this framework stays in

IsLeap(y) == (y % 4 = 0 /\ y % 100 # 0) \/ y % 400 = 0

DaysInMonth(y, m) ==
    CASE m \in {1, 3, 5, 7, 8, 10, 12} -> 31
      [] m \in {4, 6, 9, 11}          -> 30
      [] m = 2                        -> IF IsLeap(y) THEN 29 ELSE 28

DaysInYear(y) == IF IsLeap(y) THEN 366 ELSE 365

\* days of a common year before the first of month m
CumDays == <<0, 31, 59, 90, 120, 151, 181, 212, 243, 273, 304, 334>>
DaysBeforeMonth(y, m) == CumDays[m] + (IF m > 2 /\ IsLeap(y) THEN 1 ELSE 0)

\* days before 1 January of year y, counted from 0001-01-01 = ordinal 1
DaysBeforeYear(y) == LET z == y - 1 IN z * 365 + z \div 4 - z \div 100 + z \div 400

Ordinal(y, m, d) == DaysBeforeYear(y) + DaysBeforeMonth(y, m) + d
EpochOrdinal == 719163                                  \* Ordinal(1970, 1, 1)
DayNum(y, m, d) == Ordinal(y, m, d) - EpochOrdinal

IsCivil(y, m, d) == m \in 1..12 /\ d \in 1..DaysInMonth(y, m)

\* day number -> [y, m, d]; valid for day >= -719468 (all of Years)
Civil(day) ==
    LET z   == day + 719468                        \* days since 0000-03-01
        era == z \div 146097
        doe == z - era * 146097                                       \* [0, 146096]
        yoe == (doe - doe \div 1460 + doe \div 36524 - doe \div 146096) \div 365   \* [0, 399]
        doy == doe - (365 * yoe + yoe \div 4 - yoe \div 100)           \* [0, 365], March based
        mp  == (5 * doy + 2) \div 153                                  \* [0, 11], 0 = March
        d   == doy - (153 * mp + 2) \div 5 + 1
        m   == IF mp < 10 THEN mp + 3 ELSE mp - 9
        y   == yoe + era * 400 + (IF m <= 2 THEN 1 ELSE 0)
    IN  [y |-> y, m |-> m, d |-> d]

YearOf(day) == Civil(day).y

Weekday(day) == (day + 3) % 7           \* 1970-01-01 was a Thursday (3)
IsWeekend(dow) == dow \in {5, 6}

\* independent weekday formula (T. Sakamoto), converted to Monday = 0
SakamotoT == <<0, 3, 2, 5, 0, 3, 5, 1, 4, 6, 2, 4>>
WeekdayOfCivil(y, m, d) ==
    LET yy  == IF m < 3 THEN y - 1 ELSE y
        sun == (yy + yy \div 4 - yy \div 100 + yy \div 400 + SakamotoT[m] + d) % 7   \* Sunday = 0
    IN  (sun + 6) % 7

\* the civil date after [y, m, d]
CivilSucc(c) ==
    IF c.d < DaysInMonth(c.y, c.m) THEN [y |-> c.y, m |-> c.m, d |-> c.d + 1]
    ELSE IF c.m < 12 THEN [y |-> c.y, m |-> c.m + 1, d |-> 1]
    ELSE [y |-> c.y + 1, m |-> 1, d |-> 1]

-----------------------------------------------------------------------------
\* calendar types
CalTypes == [leap : BOOLEAN, jan1 : 0..6]                       \* 14 records
TypeOf(y) == [leap |-> IsLeap(y), jan1 |-> Weekday(DayNum(y, 1, 1))]
\* the first year of Years that has type t (every type occurs: AllTypesRealised)
RepYear(t) == CHOOSE y \in Years : TypeOf(y) = t /\ \A z \in Years : TypeOf(z) = t => y <= z

-----------------------------------------------------------------------------
\* wall clock instants
IsInstant(i) == i.day \in Int /\ i.sec \in 0..(SecPerDay - 1)
At(y, m, d, s) == [day |-> DayNum(y, m, d), sec |-> s]
AddSeconds(i, s) ==                       \* s >= -i.sec - 86400 * anything: \div and % floor
    LET t == i.sec + s IN [day |-> i.day + t \div SecPerDay, sec |-> t % SecPerDay]
AddMinutes(i, m) == AddSeconds(i, 60 * m)                \* |m| < 3.5e7
AddDays(i, n) == [day |-> i.day + n, sec |-> i.sec]
Before(i, j) == i.day < j.day \/ (i.day = j.day /\ i.sec < j.sec)
MinuteOfDay(i) == i.sec \div 60
HourOf(i) == i.sec \div 3600
MinuteOf(i) == (i.sec % 3600) \div 60
SecondOf(i) == i.sec % 60

\* n-th (1..5) / last given weekday of a month, as a day number (civil rules such as DST changes)
NthWeekdayOfMonth(y, m, dow, n) ==
    LET first == DayNum(y, m, 1) IN first + ((dow - Weekday(first) + 7) % 7) + 7 * (n - 1)
LastWeekdayOfMonth(y, m, dow) ==
    LET last == DayNum(y, m, DaysInMonth(y, m)) IN last - ((Weekday(last) - dow + 7) % 7)

-----------------------------------------------------------------------------
(* Theorems; TLC checks them per visited day (Tariff.tla: CalendarOK) and    *)
(* over all of Years (MC_Tariff.tla: ASSUME CalendarTheorems).               *)
RoundTrip(day) ==
    LET c == Civil(day) IN IsCivil(c.y, c.m, c.d) /\ DayNum(c.y, c.m, c.d) = day
WeekdayAgrees(day) ==
    LET c == Civil(day) IN Weekday(day) = WeekdayOfCivil(c.y, c.m, c.d)
SuccAgrees(day) == Civil(day + 1) = CivilSucc(Civil(day))
AllTypesRealised == \A t \in CalTypes : \E y \in Years : TypeOf(y) = t
YearLengths == \A y \in Years : DayNum(y + 1, 1, 1) - DayNum(y, 1, 1) = DaysInYear(y)
\* the type of a year determines the weekday of each of its dates
TypeDeterminesWeekdays ==
    \A y \in Years : LET r == RepYear(TypeOf(y)) IN
        \A m \in 1..12 : DaysInMonth(y, m) = DaysInMonth(r, m)
                         /\ Weekday(DayNum(y, m, 1)) = Weekday(DayNum(r, m, 1))
NthAndLastWeekdays ==
    \A y \in Years, m \in 1..12, w \in 0..6 :
        /\ \A n \in 1..4 : LET c == Civil(NthWeekdayOfMonth(y, m, w, n)) IN
              c.y = y /\ c.m = m /\ c.d \in (7 * n - 6)..(7 * n) /\ Weekday(NthWeekdayOfMonth(y, m, w, n)) = w
        /\ LET c == Civil(LastWeekdayOfMonth(y, m, w)) IN
              c.y = y /\ c.m = m /\ c.d > DaysInMonth(y, m) - 7 /\ Weekday(LastWeekdayOfMonth(y, m, w)) = w
CalendarTheorems ==
    /\ NthAndLastWeekdays
    /\ EpochOrdinal = Ordinal(1970, 1, 1)
    /\ Cardinality(CalTypes) = 14
    /\ AllTypesRealised
    /\ YearLengths
    /\ TypeDeterminesWeekdays
    /\ \A y \in Years : RoundTrip(DayNum(y, 1, 1)) /\ RoundTrip(DayNum(y, 12, 31))
                        /\ RoundTrip(DayNum(y, 3, 1) - 1) /\ WeekdayAgrees(DayNum(y, 3, 1) - 1)
=============================================================================
