--------------------------- MODULE MC_AcnSimStep ---------------------------
(* Model-checking constants for AcnSimStep.tla (spec/cfg/AcnSimStep_*.cfg). *)
EXTENDS AcnSimStep

Volt2 == <<208, 240>>
BattMix == {[cap |-> 0, init |-> 0, pw |-> 6656], [cap |-> 120000, init |-> 30000, pw |-> 3000]}
MenuStep == <<
    [kind |-> "ok", len |-> 0, rows |-> <<>>],
    [kind |-> "ok", len |-> 1, rows |-> (1 :> <<16>>)],
    [kind |-> "ok", len |-> 2, rows |-> (1 :> <<32, 8>> @@ 2 :> <<8, 32>>)],
    [kind |-> "ok", len |-> 3, rows |-> (2 :> <<16, 0, 24>>)] >>
MRStep == {0, 2}
SomeRecomp == {{}, {2}, {0, 3}}
Req2 == {8320, 50000}
View == <<pc, durable, sigma, ghost>>
=============================================================================
