----------------------------- MODULE SortedAlgo -----------------------------
(***************************************************************************)
(* The sorting-based schedulers of acnportal/algorithms/sorted_algorithms.py*)
(* (SortedSchedulingAlgo = "greedy", RoundRobin = "rr") with their          *)
(* preprocessing pipeline (acnportal/algorithms/preprocessing.py), and the  *)
(* UncontrolledCharging baseline ("unc"), as a step-wise state machine over *)
(* ONE scheduler invocation  algorithm.run():                               *)
(*                                                                         *)
(*   Preprocess   Interface.active_sessions() (plugged, not fully charged), *)
(*                remove_finished_sessions, enforce_pilot_limit,            *)
(*                apply_upper_bound_estimate (bound keyed by SESSION)       *)
(*   MinRate      one iteration of apply_minimum_charging_rate's loop       *)
(*                (sessions in order of remaining time; feasibility test;   *)
(*                reconcile_max_and_min)                                    *)
(*   Sort         sort_fn + "start every session at its lower bound"        *)
(*   ServeGreedy  one iteration of sorting_algorithm's loop: the head of    *)
(*                the queue gets its maximum feasible rate (finite-rate:    *)
(*                walk down the allowable levels; continuous: any rate      *)
(*                accepted by GreedyContAccept - no bisection transcript)   *)
(*   RRStep       one iteration of round_robin's deque loop: try the next   *)
(*                level of the head; keep and re-append, or revert and drop *)
(*   Uncontrolled the baseline                                             *)
(*   Finish       run() returns (emits the evaluated case when Rec)         *)
(*                                                                         *)
(* State = the case (infrastructure, sessions, options), the per-session    *)
(* bounds produced by preprocessing, the queue of sessions in priority      *)
(* order and the pilots granted so far.                                     *)
(*                                                                         *)
(* The same actions validate executions of the real code (binding C): when  *)
(* obs # <<>> it holds the schedule the implementation returned (rounded to *)
(* the unit); deterministic grants must equal it, a continuous grant is     *)
(* taken from it and judged by the acceptance predicate.  See               *)
(* SortedAlgoTrace.tla.                                                     *)
(*                                                                         *)
(* UNITS.  Current: u = 1e-5 A (U units per ampere), so that the absolute   *)
(* feasibility tolerance of the code (1e-5 A, the larger of 1e-5 and 1e-7 * *)
(* limit for limits <= 100 A) is exactly 1.  Remaining demand: amp-periods   *)
(* in the same unit (energy / (V * T)); energy in kWh appears only in the   *)
(* "fully charged" test (remaining energy > 1e-3 kWh = 60 W*min) and in the *)
(* harness, which converts with the station's own voltage.  Time: periods;  *)
(* T minutes per period; voltages in V; angles in degrees.                  *)
(*                                                                         *)
(* ARITHMETIC is exact.  TLC integers are 32 bit, so squares and cross      *)
(* products of currents (up to 1.3e8 units) are compared limb-wise in base  *)
(* 10^4 (Sign3 / ProdDiffSign / QuadSign below; self-tested by ASSUME).     *)
(***************************************************************************)
EXTENDS Integers, Sequences, FiniteSets, TLC, Json

CONSTANTS
    Infras,     \* set of infrastructure records
                \*   [id, T, st |-> <<station,...>>, con |-> <<[coef |-> <<int,...>>, lim],...>>]
                \*   station = [kind |-> "fin", lv |-> ascending levels incl. 0, volt, ang]
                \*           | [kind |-> "cont", max, volt, ang]        (continuous from zero)
                \*   ang \in {30, -90, 150} (three-phase family) or 0 everywhere (single phase)
    Profiles,   \* set of session records a station may hold:
                \*   [on |-> TRUE, arr, dep, edep, rem, dlv, est]
                \*   rem = remaining demand (amp-periods, units), dlv = already delivered (same unit,
                \*   only used by the harness), est = the estimator's bound for this session (-1: none)
    Opts,       \* set of option records [algo, sort, unint, est, inc, now, tid]
    Rec         \* BOOLEAN: keep the step transcript and emit every evaluated case

U      == 100000        \* units per ampere
EPS    == 1000          \* bisection accuracy used by sorting_algorithm: eps = 0.01 A
MARGIN == 10            \* extra margin (1e-4 A) for *definite* non-maximality of an observed rate
B      == 10000         \* limb base

VARIABLES
    net, ses, opt,  \* the case: infrastructure, ses[s] = session at station s, options
    obs,            \* <<>> (specification run) or the schedule observed from the real code, per station
    pc,             \* "pre" "min" "sort" "serve" "done" | "error" (ValueError) | "reject" | "emitted"
    actv,           \* sequence of stations whose session is still in active_sessions (list order matters
                    \*   for Python's stable sorts)
    lb, ub,         \* session.min_rates[0], session.max_rates[0] after preprocessing (per station)
    mq,             \* apply_minimum_charging_rate: sessions still to be examined
    mrate,          \* apply_minimum_charging_rate: its local `rates` vector
    queue,          \* sessions (stations) still to be served, in priority order
    pilot,          \* the `schedule` array: pilots granted so far
    lvl, ridx,      \* round robin: filtered level list and current index per station
    stopAt,         \* ghost: schedule at the moment a round-robin session left the queue (<<>> before)
    served,         \* ghost: sessions in the order the greedy loop served them
    dec,            \* ghost: FALSE once a threshold decision was too close to call for floating point
    verdict,        \* "ok" or the reason the observed schedule is rejected
    hist            \* step transcript (only when Rec)
vars == <<net, ses, opt, obs, pc, actv, lb, ub, mq, mrate, queue, pilot, lvl, ridx, stopAt, served,
          dec, verdict, hist>>

-----------------------------------------------------------------------------
(* Generic helpers *)
Abs(x)     == IF x < 0 THEN -x ELSE x
Sgn(x)     == IF x > 0 THEN 1 ELSE IF x < 0 THEN -1 ELSE 0
Min2(a, b) == IF a <= b THEN a ELSE b
Max2(a, b) == IF a >= b THEN a ELSE b
SeqRange(s) == {s[i] : i \in 1..Len(s)}
InSeq(x, s) == \E i \in 1..Len(s) : s[i] = x
RemoveAt(s, i) == SubSeq(s, 1, i - 1) \o SubSeq(s, i + 1, Len(s))
SetMax(S) == CHOOSE m \in S : \A x \in S : x <= m
SetMin(S) == CHOOSE m \in S : \A x \in S : m <= x

(* Exact sign of d2*B^2 + d1*B + d0 for integers of magnitude < 2^30.  \div and % are floor      *)
(* division and non-negative remainder, so d = c*B + r with 0 <= r < B also for negative d.      *)
Sign3(d2, d1, d0) ==
    LET c0 == d0 \div B   r0 == d0 % B
        e1 == d1 + c0
        c1 == e1 \div B   r1 == e1 % B
        top == d2 + c1
    IN IF top > 0 THEN 1 ELSE IF top < 0 THEN -1 ELSE IF r1 > 0 \/ r0 > 0 THEN 1 ELSE 0

(* sign(a*b - c*d) for |a|,|b|,|c|,|d| < 1.3e8 without overflowing 32 bits *)
ProdDiffSign(a, b, c, d) ==
    LET a1 == a \div B  a0 == a % B   b1 == b \div B  b0 == b % B
        c1 == c \div B  c0 == c % B   d1 == d \div B  d0 == d % B
    IN Sign3(a1 * b1 - c1 * d1, a1 * b0 + a0 * b1 - c1 * d0 - c0 * d1, a0 * b0 - c0 * d0)

(* sign(x^2 + 3*y^2 - w^2) for 0 <= x, y, w < 1.3e8 *)
QuadSign(x, y, w) ==
    LET x1 == x \div B  x0 == x % B   y1 == y \div B  y0 == y % B   w1 == w \div B  w0 == w % B
    IN Sign3(x1 * x1 + 3 * y1 * y1 - w1 * w1,
             2 * x1 * x0 + 6 * y1 * y0 - 2 * w1 * w0,
             x0 * x0 + 3 * y0 * y0 - w0 * w0)

ASSUME (-7) \div 2 = -4 /\ (-7) % 2 = 1
ASSUME \A a \in {-20003, -7, 0, 5, 12345, 30001}, b \in {1, 9999, 10001}, c \in {-10000, 3, 20001}, d \in {2, 10000} :
          ProdDiffSign(a, b, c, d) = Sgn(a * b - c * d)
ASSUME \A x \in {0, 3, 9999, 10000, 20001}, y \in {0, 4, 10001, 11547}, w \in {0, 5, 17321, 20000, 28285} :
          QuadSign(x, y, w) = Sgn(x * x + 3 * y * y - w * w)

-----------------------------------------------------------------------------
(* The infrastructure (acnsim.interface.InfrastructureInfo) *)
NSt      == Len(net.st)
St       == 1..NSt
StSeq    == [i \in St |-> i]
Zeros    == [i \in St |-> 0]
IsFin(s) == net.st[s].kind = "fin"
Lv(s)    == net.st[s].lv                                            \* allowable_pilots, ascending, with 0
MaxP(s)  == IF IsFin(s) THEN Lv(s)[Len(Lv(s))] ELSE net.st[s].max   \* max_pilot
MinP(s)  == IF IsFin(s)                                             \* min_pilot: smallest positive level
            THEN LET P == {a \in SeqRange(Lv(s)) : a > 0} IN IF P = {} THEN 0 ELSE SetMin(P)
            ELSE 0
VT(s)    == net.st[s].volt * net.T
Tracing  == obs # <<>>

(* Phase group of a station: 30 deg (or single-phase 0 deg) -> 1, -90 -> 2, 150 -> 3 *)
Ph(s) == IF net.st[s].ang = -90 THEN 2 ELSE IF net.st[s].ang = 150 THEN 3 ELSE 1

(* The aggregate current of constraint c under rates r is the phasor                              *)
(*   I = A e^{i30} + B e^{-i90} + C e^{i150},  A, B, C = signed sums over the three groups,       *)
(* whose magnitude satisfies  4|I|^2 = 3(A-C)^2 + (A-2B+C)^2  exactly.                            *)
RECURSIVE ABCTo(_, _, _)        \* <<A, B, C>> over the stations 1..n
ABCTo(c, r, n) == IF n = 0 THEN <<0, 0, 0>>
                  ELSE IF c.coef[n] = 0 THEN ABCTo(c, r, n - 1)
                  ELSE [ABCTo(c, r, n - 1) EXCEPT ![Ph(n)] = @ + c.coef[n] * r[n]]

(* tolerance of infrastructure_constraints_feasible / ChargingNetwork.is_feasible:                *)
(* max(1e-5 A, 1e-7 * limit) = 1 unit for limits up to 100 A (assumed of every infrastructure).   *)
Tol(c) == 1
W(c)   == 2 * (c.lim + Tol(c))                  \* compared with 2|I|

(* rounding of observed pilots to the unit moves 2|I| by at most the row's absolute sum *)
RECURSIVE RowAbsTo(_, _)
RowAbsTo(c, n) == IF n = 0 THEN 0 ELSE RowAbsTo(c, n - 1) + Abs(c.coef[n])
Slack(c) == 1 + (IF Tracing THEN RowAbsTo(c, NSt) ELSE 0)

ConOK(c, r, s) == LET t == ABCTo(c, r, NSt)                      \* |I| <= lim + tol + s/2
                  IN QuadSign(Abs(t[1] - 2 * t[2] + t[3]), Abs(t[1] - t[3]), W(c) + s) <= 0
\* 0: inside even with the slack against it, 2: outside even with the slack in favour, 1: too close
ConCls(c, r) == LET t == ABCTo(c, r, NSt)
                    x == Abs(t[1] - 2 * t[2] + t[3])
                    y == Abs(t[1] - t[3])
                IN IF QuadSign(x, y, W(c) - Slack(c)) <= 0 THEN 0
                   ELSE IF QuadSign(x, y, W(c) + Slack(c)) > 0 THEN 2 ELSE 1
Cons == 1..Len(net.con)
Feasible(r)  == \A k \in Cons : ConOK(net.con[k], r, 0)
DefFeas(r)   == \A k \in Cons : ConCls(net.con[k], r) = 0
DefInfeas(r) == \E k \in Cons : ConCls(net.con[k], r) = 2
\* the decision does not hinge on half a unit (or on the rounding of observed pilots)
Sure(r)      == LET cl == [k \in Cons |-> ConCls(net.con[k], r)]
                IN (\A k \in Cons : cl[k] = 0) \/ (\E k \in Cons : cl[k] = 2)

-----------------------------------------------------------------------------
(* Sessions (acnsim.interface.SessionInfo as produced by Interface.active_sessions) *)
Plugged(s) == ses[s].on
Rem(s)     == ses[s].rem                        \* Interface.remaining_amp_periods
\* EV.fully_charged: remaining energy <= 1e-3 kWh = 60 W*min; energy = rem/U * V * T  W*min
Active(s)  == Plugged(s) /\ ProdDiffSign(Rem(s), VT(s), 60, U) > 0
RemTime(s) == Max2(Min2(ses[s].dep - ses[s].arr, ses[s].dep - opt.now), 0)   \* SessionInfo.remaining_time
Cmp(a, b)  == Abs(a - b) > (IF Tracing THEN 1 ELSE 0)  \* a float comparison of a with b is decisive
ActiveSure(s) == Tracing => ProdDiffSign(Rem(s) - 1, VT(s), 60, U) = ProdDiffSign(Rem(s) + 1, VT(s), 60, U)

(* The five sort orders.  Before(i, j, m): session i is served strictly before j, robustly against *)
(* an error of m units in the remaining demands.  Laxity and remaining processing time are        *)
(* quotients by the station's maximum pilot; they are compared by cross-multiplication.            *)
LaxNum(s) == (ses[s].edep - opt.now) * MaxP(s) - Rem(s)    \* laxity = LaxNum / MaxP   [periods]
Before(i, j, m) ==
    CASE opt.sort = "fcfs" -> ses[i].arr < ses[j].arr
      [] opt.sort = "lcfs" -> ses[i].arr > ses[j].arr
      [] opt.sort = "edf"  -> ses[i].edep < ses[j].edep
      [] opt.sort = "llf"  -> ProdDiffSign(LaxNum(i) + m, MaxP(j), LaxNum(j) - m, MaxP(i)) < 0
      [] opt.sort = "lrpt" -> ProdDiffSign(Rem(i) - m, MaxP(j), Rem(j) + m, MaxP(i)) > 0
DistinctKeys(S) == \A i, j \in S : i # j => Before(i, j, 1) \/ Before(j, i, 1)

(* sorted(q, key=...): stable; with distinct keys the unique minimum is extracted each time *)
RECURSIVE SortKey(_)
SortKey(q) ==
    IF q = <<>> THEN <<>>
    ELSE LET M == {i \in 1..Len(q) : \A j \in 1..Len(q) : ~Before(q[j], q[i], 0)}
             i == SetMin(M)
         IN <<q[i]>> \o SortKey(RemoveAt(q, i))
RECURSIVE SortRemTime(_)                        \* sorted(q, key=remaining_time), ties keep list order
SortRemTime(q) ==
    IF q = <<>> THEN <<>>
    ELSE LET M == {i \in 1..Len(q) : \A j \in 1..Len(q) : RemTime(q[i]) <= RemTime(q[j])}
             i == SetMin(M)
         IN <<q[i]>> \o SortRemTime(RemoveAt(q, i))

-----------------------------------------------------------------------------
Log(r) == IF Rec THEN Append(hist, r) ELSE hist
\* the decisiveness ghost is only maintained where somebody reads it (generation, trace validation)
Dec(x) == IF Rec \/ Tracing THEN dec /\ x ELSE dec
NoLvl  == [n |-> 0, first |-> 0, step |-> 0, seq |-> <<>>]
LevelAt(l, k) == IF l.seq # <<>> THEN l.seq[k + 1] ELSE l.first + k * l.step    \* k from 0

InitRest(n) ==
    LET z == [i \in 1..Len(n.st) |-> 0] IN
    /\ pc = "pre" /\ actv = <<>> /\ lb = z /\ ub = z /\ mq = <<>> /\ mrate = z /\ queue = <<>>
    /\ pilot = z /\ lvl = [i \in 1..Len(n.st) |-> NoLvl] /\ ridx = z
    /\ stopAt = [i \in 1..Len(n.st) |-> <<>>] /\ served = <<>> /\ dec = TRUE /\ verdict = "ok"
    /\ hist = <<>>

Vacant == [on |-> FALSE, arr |-> 0, dep |-> 1, edep |-> 1, rem |-> 0, dlv |-> 0, est |-> -1]

(* The lattice of cases: infrastructure x assignment of session profiles to stations x options,   *)
(* restricted to DISTINCT priority keys among the plugged sessions (the property's scope).        *)
Init ==
    \E n \in Infras, o \in Opts :
      \E f \in [1..Len(n.st) -> Profiles \cup {Vacant}] :
        /\ \E s \in 1..Len(n.st) : f[s].on
        /\ net = n /\ ses = f /\ opt = o /\ obs = <<>>
        /\ o.algo # "unc" => DistinctKeys({s \in 1..Len(n.st) : f[s].on})
        /\ InitRest(n)

-----------------------------------------------------------------------------
(* BaseAlgorithm.run -> schedule(): preprocessing                                                  *)
Preprocess ==
    /\ pc = "pre" /\ opt.algo # "unc"
    /\ LET plug == SelectSeq(StSeq, Active)                              \* Interface.active_sessions()
           keep == SelectSeq(plug, LAMBDA s : Rem(s) > MinP(s))          \* remove_finished_sessions
           \* enforce_pilot_limit, then apply_upper_bound_estimate: the bound the estimator
           \* returned for THIS SESSION (reconcile is a no-op: min_rates are still 0)
           bound(s) == IF opt.est /\ ses[s].est >= 0 THEN Min2(MaxP(s), ses[s].est) ELSE MaxP(s)
       IN /\ ub' = [s \in St |-> IF InSeq(s, keep) THEN bound(s) ELSE 0]
          /\ dec' = Dec(/\ \A s \in SeqRange(plug) : Cmp(Rem(s), MinP(s))
                        /\ \A s \in St : Plugged(s) => ActiveSure(s))
          /\ IF opt.unint
             THEN /\ mq' = SortRemTime(keep) /\ actv' = SortRemTime(keep)   \* the list returned is the sorted one
                  /\ pc' = IF keep = <<>> THEN "sort" ELSE "min"
             ELSE /\ mq' = <<>> /\ actv' = keep /\ pc' = "sort"
    /\ hist' = Log([a |-> "pre", ub |-> ub', actv |-> actv'])
    /\ UNCHANGED <<net, ses, opt, obs, lb, mrate, queue, pilot, lvl, ridx, stopAt, served, verdict>>

TruncA(x) == (x \div U) * U        \* whole amperes (what storing a float into an integer numpy array does; see MinRate)

(* apply_minimum_charging_rate, one session: it gets the EVSE's minimum pilot as lower bound if   *)
(* it still needs that much and the minimum pilots granted so far plus this one are feasible;      *)
(* otherwise it is not charged at all in this period.                                              *)
MinRate ==
    /\ pc = "min" /\ mq # <<>>
    /\ LET s  == Head(mq)
           r  == [mrate EXCEPT ![s] = MinP(s)]
           ok == MinP(s) <= Rem(s) /\ Feasible(r)
           \* (Until fix d6a4472 in /repo the Interface built session.min_rates as an INTEGER array, so this
           \* assignment truncated a fractional minimum pilot, 7.5 A -> 7: the other sessions were then raised
           \* against a lower bound that is no level, the 7.5 A station fell to 0, and with phasor sums the
           \* schedule could become infeasible - found by TLC as a violation of OutputFeasible on the
           \* infrastructure frac3p with the truncation modelled, and by the closed loop on the real code.)
           nl == Max2(MinP(s), lb[s])
       IN /\ IF ok
             THEN /\ lb' = [lb EXCEPT ![s] = nl]
                  /\ ub' = [ub EXCEPT ![s] = Max2(ub[s], nl)]   \* reconcile_max_and_min
                  /\ mrate' = r
             ELSE /\ lb' = [lb EXCEPT ![s] = 0] /\ ub' = [ub EXCEPT ![s] = 0] /\ UNCHANGED mrate
          /\ dec' = Dec(Sure(r) /\ Cmp(MinP(s), Rem(s)))
          /\ hist' = Log([a |-> "min", st |-> s, ok |-> ok])
    /\ mq' = Tail(mq)
    /\ pc' = IF Tail(mq) = <<>> THEN "sort" ELSE "min"
    /\ UNCHANGED <<net, ses, opt, obs, actv, queue, pilot, lvl, ridx, stopAt, served, verdict>>

(* round_robin: the levels a session may step through *)
UbRR(s) == Min2(Min2(ub[s], MaxP(s)), Rem(s))
RRLevels(s) ==
    IF IsFin(s)
    THEN LET q == SelectSeq(Lv(s), LAMBDA a : lb[s] <= a /\ a <= UbRR(s))
         IN [n |-> Len(q), first |-> 0, step |-> 0, seq |-> q]
    ELSE \* np.arange(min_rate, max_rate + inc/2, inc) filtered to [lb, ub]
         IF UbRR(s) < lb[s] THEN NoLvl
         ELSE [n |-> (UbRR(s) - lb[s]) \div opt.inc + 1, first |-> lb[s], step |-> opt.inc, seq |-> <<>>]

\* an observed (rounded) estimator bound within a unit of a level cannot be compared with it
UbSure(s, a) == Tracing => (ub[s] = MaxP(s) \/ ub[s] = lb[s] \/ Cmp(a, ub[s]))
\* an observed (rounded) bound within a unit of a level: the number of levels is not decidable
RRTopSure(s) == \/ UbRR(s) = Min2(ub[s], MaxP(s))
                \/ LET m == (UbRR(s) - lb[s]) % opt.inc IN 1 < m /\ m < opt.inc - 1

(* sort_fn, then every session starts at its lower bound; "Charging all sessions at their lower   *)
(* bound is not feasible" is the ValueError state.                                                 *)
Sort ==
    /\ pc = "sort"
    /\ LET q == SortKey(actv)
           L == [s \in St |-> IF opt.algo = "rr" /\ InSeq(s, actv) THEN RRLevels(s) ELSE NoLvl]
           start == [s \in St |-> IF ~InSeq(s, actv) THEN 0
                                  ELSE IF opt.algo = "greedy" THEN lb[s]
                                  ELSE IF L[s].n > 0 THEN LevelAt(L[s], 0) ELSE 0]
           \* an observed schedule that charges a station whose session preprocessing removed
           stray == Tracing /\ \E s \in St : ~InSeq(s, actv) /\ obs[s] # 0
       IN /\ queue' = q /\ lvl' = L /\ pilot' = start
          /\ verdict' = IF stray THEN "sorted:pilot-for-removed-session" ELSE verdict
          /\ dec' = Dec(/\ Sure(start) /\ DistinctKeys(SeqRange(actv))
                        /\ \A s \in SeqRange(actv) : IsFin(s) => \A a \in SeqRange(Lv(s)) : Cmp(a, Rem(s)) /\ UbSure(s, a)
                        /\ \A s \in SeqRange(actv) : (Tracing /\ opt.algo = "rr" /\ ~IsFin(s)) => RRTopSure(s))
          /\ pc' = IF ~Feasible(start) THEN "error" ELSE IF stray THEN "reject"
                   ELSE IF q = <<>> THEN "done" ELSE "serve"
          /\ hist' = Log([a |-> "sort", order |-> q, start |-> start])
    /\ UNCHANGED <<net, ses, opt, obs, actv, lb, ub, mq, mrate, ridx, stopAt, served>>

-----------------------------------------------------------------------------
(* Greedy allocation *)
Base(s, x) == [pilot EXCEPT ![s] = x]
UbE(s)     == Min2(ub[s], Rem(s))       \* ub = min(session.max_rates[0], remaining_amp_periods)

(* discrete_max_feasible_rate: walk down the allowable levels within [lb, ub]; 0 if none fits *)
RECURSIVE WalkDown(_, _, _)
WalkDown(s, cand, k) == IF k = 0 THEN 0
                        ELSE IF Feasible(Base(s, cand[k])) THEN cand[k] ELSE WalkDown(s, cand, k - 1)
FinCand(s)  == SelectSeq(Lv(s), LAMBDA a : lb[s] <= a /\ a <= UbE(s))
FinGrant(s) == WalkDown(s, FinCand(s), Len(FinCand(s)))
\* the levels the walk actually tests (those not below the one it returns) are decided robustly
FinSure(s)  == LET g == FinGrant(s) IN \A a \in SeqRange(FinCand(s)) : a >= g => Sure(Base(s, a))

(* The continuous case.  A rate r is an acceptable answer of max_feasible_rate iff                 *)
(*   it respects the session's bounds, is feasible together with what is already granted, and is   *)
(*   the upper bound itself or cannot be raised by eps.                                            *)
GreedyContAccept(s, r) ==
    /\ lb[s] <= r /\ r <= UbE(s)
    /\ Feasible(Base(s, r))
    /\ r = UbE(s) \/ ~Feasible(Base(s, r + EPS))

(* largest lattice rate in [lo, hi] that is feasible, given lo is (feasible sets are intervals:    *)
(* |I|^2 is a convex quadratic in one station's rate)                                              *)
RECURSIVE Bisect(_, _, _)
Bisect(s, lo, hi) == IF hi - lo <= 1 THEN lo
                     ELSE LET mid == (lo + hi) \div 2
                          IN IF Feasible(Base(s, mid)) THEN Bisect(s, mid, hi) ELSE Bisect(s, lo, mid)
MaxFeas(s) == IF Feasible(Base(s, UbE(s))) THEN UbE(s) ELSE Bisect(s, lb[s], UbE(s))
\* representative acceptable answers explored by the model checker: the exact maximum and the
\* lowest rate the tolerance still admits
ContChoices(s) == LET g == MaxFeas(s) IN IF g = UbE(s) THEN {g} ELSE {g, Max2(lb[s], g - EPS + 1)}

(* judgement of an OBSERVED continuous rate: only definite violations (robust against rounding)   *)
ContVerdict(s, r) ==
    IF r < lb[s] - 1 THEN "cont:below-lower-bound"
    ELSE IF r > UbE(s) + 1 THEN "cont:above-upper-bound"
    ELSE IF DefInfeas(Base(s, r)) THEN "cont:infeasible"
    ELSE IF r + EPS + MARGIN <= UbE(s) /\ DefFeas(Base(s, r + EPS + MARGIN)) THEN "cont:not-maximal"
    ELSE "ok"

Grant(s, r, v) ==
    /\ IF v = "ok"
       THEN /\ pilot' = Base(s, r) /\ verdict' = verdict
            /\ pc' = IF Tail(queue) = <<>> THEN "done" ELSE "serve"
       ELSE /\ pilot' = pilot /\ verdict' = v /\ pc' = "reject"
    /\ queue' = Tail(queue) /\ served' = Append(served, s)
    /\ hist' = Log([a |-> "grant", st |-> s, pre |-> pilot, r |-> r,
                     nc |-> IF IsFin(s) THEN Len(FinCand(s)) ELSE -1])

ServeGreedy ==
    /\ pc = "serve" /\ opt.algo = "greedy"
    /\ LET s == Head(queue) IN
       /\ IF IsFin(s)
          THEN /\ dec' = Dec(FinSure(s))
               /\ IF Tracing
                  THEN Grant(s, FinGrant(s), IF obs[s] = FinGrant(s) THEN "ok" ELSE "greedy:finite-level")
                  ELSE Grant(s, FinGrant(s), "ok")
          ELSE /\ dec' = dec
               /\ IF Tracing
                  THEN Grant(s, obs[s], ContVerdict(s, obs[s]))
                  ELSE \E r \in ContChoices(s) : GreedyContAccept(s, r) /\ Grant(s, r, "ok")
    /\ UNCHANGED <<net, ses, opt, obs, actv, lb, ub, mq, mrate, lvl, ridx, stopAt>>

(* Round robin: the head tries its next level *)
HasNext(s) == ridx[s] < lvl[s].n - 1
NextLv(s)  == LevelAt(lvl[s], ridx[s] + 1)
RRStep ==
    /\ pc = "serve" /\ opt.algo = "rr"
    /\ LET s   == Head(queue)
           try == Base(s, NextLv(s))
           ok  == HasNext(s) /\ Feasible(try)
           q2  == IF ok THEN Append(Tail(queue), s) ELSE Tail(queue)
           p2  == IF ok THEN try ELSE pilot
           bad == Tracing /\ q2 = <<>> /\ p2 # obs
       IN /\ pilot' = p2 /\ queue' = q2
          /\ ridx' = IF ok THEN [ridx EXCEPT ![s] = @ + 1] ELSE ridx
          /\ stopAt' = IF ok THEN stopAt ELSE [stopAt EXCEPT ![s] = pilot]    \* reverted and dropped
          /\ dec' = Dec(HasNext(s) => Sure(try))
          /\ hist' = Log([a |-> "try", st |-> s, lv |-> IF HasNext(s) THEN NextLv(s) ELSE -1, ok |-> ok])
          /\ verdict' = IF bad THEN "rr:final-schedule" ELSE verdict
          /\ pc' = IF bad THEN "reject" ELSE IF q2 = <<>> THEN "done" ELSE "serve"
    /\ UNCHANGED <<net, ses, opt, obs, actv, lb, ub, mq, mrate, lvl, served>>

(* UncontrolledCharging.schedule: the station's maximum pilot for every active session *)
Uncontrolled ==
    /\ pc = "pre" /\ opt.algo = "unc"
    /\ pilot' = [s \in St |-> IF Active(s) THEN MaxP(s) ELSE 0]
    /\ actv' = SelectSeq(StSeq, Active)
    /\ verdict' = IF Tracing /\ pilot' # obs THEN "unc:schedule" ELSE verdict
    /\ pc' = IF Tracing /\ pilot' # obs THEN "reject" ELSE "done"
    /\ hist' = Log([a |-> "unc"])
    /\ UNCHANGED <<net, ses, opt, obs, lb, ub, mq, mrate, queue, lvl, ridx, stopAt, served, dec>>

-----------------------------------------------------------------------------
(* The five C07 predicates on an arbitrary schedule p (used as invariants on `pilot` and, for      *)
(* observed schedules, with one unit of rounding slack, to judge `obs`).                            *)
Sl == IF Tracing THEN 1 ELSE 0
PFeasible(p)  == IF Tracing THEN ~DefInfeas(p) ELSE Feasible(p)
PLevels(p)    == \A s \in St : IF IsFin(s) THEN p[s] \in SeqRange(Lv(s))
                               ELSE -Sl <= p[s] /\ p[s] <= MaxP(s) + Sl
PDemand(p)    == \A s \in St : Plugged(s) => p[s] <= Rem(s) + Sl
PEstimator(p) == opt.est => \A s \in St : (Plugged(s) /\ ses[s].est >= 0) =>
                     p[s] <= Max2(ses[s].est, IF opt.unint THEN MinP(s) ELSE 0) + Sl
PInactive(p)  == \A s \in St : (~Active(s) /\ ActiveSure(s)) => p[s] = 0   \* (an observed demand within a unit of 1e-3 kWh is not decidable)
SafetyFails(p) ==
    (IF PFeasible(p) THEN {} ELSE {"OutputFeasible"}) \cup (IF PLevels(p) THEN {} ELSE {"LevelsAllowed"})
    \cup (IF PDemand(p) THEN {} ELSE {"WithinDemand"}) \cup (IF PEstimator(p) THEN {} ELSE {"WithinEstimatorOrMin"})
    \cup (IF PInactive(p) THEN {} ELSE {"ZeroForInactive"})

ActiveVec == [s \in St |-> Active(s)]
Finish ==
    /\ pc \in {"done", "error", "reject"}
    /\ IF Tracing
       THEN PrintT(<<"TRC", ToJson([tid |-> opt.tid, end |-> pc, verdict |-> verdict, dec |-> dec,
                                    fails |-> IF opt.algo = "unc" THEN {} ELSE SafetyFails(obs),
                                    pilot |-> pilot])>>)
       ELSE IF Rec
       THEN PrintT(<<"BHV", ToJson([net |-> net, ses |-> ses, opt |-> opt, end |-> pc, dec |-> dec,
                                    active |-> ActiveVec, actv |-> actv, lb |-> lb, ub |-> ub,
                                    pilot |-> pilot, steps |-> hist])>>)
       ELSE TRUE
    /\ pc' = "emitted"
    /\ UNCHANGED <<net, ses, opt, obs, actv, lb, ub, mq, mrate, queue, pilot, lvl, ridx, stopAt, served,
                   dec, verdict, hist>>

Terminated == pc = "emitted" /\ UNCHANGED vars

Next == Preprocess \/ MinRate \/ Sort \/ ServeGreedy \/ RRStep \/ Uncontrolled \/ Finish \/ Terminated
Spec == Init /\ [][Next]_vars

-----------------------------------------------------------------------------
(* C07: theorems on every reachable state in which a schedule exists (intermediate and final)     *)
Settled  == pc \in {"serve", "done", "emitted"}
Sorted   == opt.algo # "unc"
OutputFeasible       == (Settled /\ Sorted) => Feasible(pilot)
LevelsAllowed        == Settled => PLevels(pilot)      \* in every intermediate state too: a lower bound is a level
WithinDemand         == (Settled /\ Sorted) => PDemand(pilot)
WithinEstimatorOrMin == (Settled /\ Sorted) => PEstimator(pilot)
ZeroForInactive      == Settled => PInactive(pilot)
NeverValueError      == pc # "error"        \* the lower bounds chosen by preprocessing are always feasible
BoundsOrdered        == pc \in {"sort", "serve", "done"} => \A s \in St : 0 <= lb[s] /\ lb[s] <= ub[s]

(* C08 *)
\* the queue handed to the allocation loops is the active sessions in strictly increasing key order
QueueSorted ==
    (pc = "serve" /\ opt.algo = "greedy") =>
        /\ \A a, b \in 1..Len(queue) : a < b => Before(queue[a], queue[b], 0)
        /\ \A a \in 1..Len(served), b \in 1..Len(queue) : Before(served[a], queue[b], 0)
ServedInOrder ==
    /\ \A a, b \in 1..Len(served) : a < b => Before(served[a], served[b], 0)
    /\ (pc = "done" /\ opt.algo = "greedy") => SeqRange(served) = SeqRange(actv)

(* Independent definition of greedy maximality, on the FINAL schedule only: for each session,     *)
(* with every higher-priority session at its final pilot and every lower-priority session at its  *)
(* lower bound, the session's pilot is feasible and no larger admissible pilot is.                 *)
BaseFor(s) == [x \in St |-> IF x = s THEN pilot[s]
                            ELSE IF ~InSeq(x, actv) THEN 0
                            ELSE IF Before(x, s, 0) THEN pilot[x] ELSE lb[x]]
GreedyMaximal ==
    (pc = "done" /\ opt.algo = "greedy") =>
      \A s \in SeqRange(actv) :
        LET b == BaseFor(s)  top == Min2(ub[s], Rem(s)) IN
        /\ Feasible(b)
        /\ pilot[s] <= top
        /\ IF IsFin(s)
           THEN \A a \in SeqRange(Lv(s)) : (pilot[s] < a /\ lb[s] <= a /\ a <= top) => ~Feasible([b EXCEPT ![s] = a])
           ELSE pilot[s] >= lb[s] /\ (pilot[s] = top \/ ~Feasible([b EXCEPT ![s] = pilot[s] + EPS]))

(* Round robin: a session leaves the queue only when it has no further level within its own       *)
(* bound, or the next level was infeasible in the schedule of that moment (re-evaluated here on   *)
(* the recorded intermediate schedule); at the end everybody has left.                             *)
RRStopsOnlyWhenBlocked ==
    opt.algo = "rr" =>
      /\ \A s \in St : stopAt[s] # <<>> =>
            \/ ~HasNext(s)
            \/ ~Feasible([stopAt[s] EXCEPT ![s] = NextLv(s)])
      /\ pc = "done" => \A s \in SeqRange(actv) : stopAt[s] # <<>>
      /\ Settled => \A s \in SeqRange(actv) : lvl[s].n > 0 => pilot[s] = LevelAt(lvl[s], ridx[s])
(* one level at a time, only the head moves, a raised session goes to the back of the queue *)
RROneLevelAtATime ==
    [][(pc = "serve" /\ opt.algo = "rr" /\ pc' \in {"serve", "done"}) =>
         LET s == Head(queue) IN
         /\ \A x \in St : x # s => pilot'[x] = pilot[x]
         /\ \/ pilot' = pilot /\ queue' = Tail(queue)
            \/ HasNext(s) /\ pilot'[s] = NextLv(s) /\ ridx'[s] = ridx[s] + 1 /\ queue' = Append(Tail(queue), s)]_vars
UncontrolledExact ==
    (pc = "done" /\ opt.algo = "unc") => \A s \in St : pilot[s] = (IF Active(s) THEN MaxP(s) ELSE 0)
=============================================================================
