------------------------------ MODULE MC_EVSE ------------------------------
EXTENDS EVSE
\* currents in 1e-4 A
KindsAll == {
    [cls |-> "cont", min |-> 0, max |-> 320000],
    [cls |-> "cont", min |-> 60000, max |-> 160000],
    [cls |-> "cont", min |-> 0, max |-> 200370],
    [cls |-> "deadband", end |-> 60000, max |-> 320000],
    [cls |-> "deadband", end |-> 80000, max |-> 160000],
    [cls |-> "finite", levels |-> <<0, 80000, 160000, 240000, 320000>>],
    [cls |-> "finite", levels |-> <<320000, 60000, 60000, 130000>>],     \* unsorted, duplicate, no 0
    [cls |-> "finite", levels |-> <<100000>>],
    \* bidirectional stations: the allowable set reaches below zero (negative pilots are only ever applied to a vacant
    \* station here, see SetPilot), and every advertised value - the negative ones too - is accepted
    [cls |-> "cont", min |-> -160000, max |-> 160000],
    [cls |-> "finite", levels |-> <<160000, -80000, 80000, -160000>>] }
KindsQuick == {
    [cls |-> "cont", min |-> -160000, max |-> 160000],
    [cls |-> "finite", levels |-> <<160000, -80000, 80000, -160000>>],
    [cls |-> "cont", min |-> 60000, max |-> 160000],
    [cls |-> "deadband", end |-> 60000, max |-> 320000],
    [cls |-> "finite", levels |-> <<320000, 60000, 60000, 130000>>] }
OffsetsAll == {-20, -11, -9, -5, 0, 5, 9, 11, 20}
ExtraAll == {-100000, 30000, 100000, 123456, 400000}
EVsTwo == << [cap |-> 100000, init |-> 20000, pw |-> 7000], [cap |-> 30000, init |-> 29000, pw |-> 3000] >>
View == <<kind, occ, pilot, evE, chg, nops, last>>
=============================================================================
