---------------------------- MODULE EventGenObs ----------------------------
(* Observed results of the real batt_cap_fn, for the "obs" family of EventGen.tla.          *)
(* The harness (harness/props_eventgen.py) overwrites this module in TLC's scratch directory *)
(* with the (cap, init) pairs the implementation returned for the fit lattice; the entries   *)
(* below are two correct observations and only keep the module parseable on its own.         *)
(* req, cap in W*min; iLo/iHi = floor/ceiling of init/cap * 2^28.                            *)
ObsData == <<
    [req |-> 180000, stay |-> 12, V |-> 208, P |-> 5, cap |-> 480000, iLo |-> 165682341, iHi |-> 165682342],
    [req |-> 30000, stay |-> 100, V |-> 208, P |-> 5, cap |-> 480000, iLo |-> 251658240, iHi |-> 251658241] >>
=============================================================================
