------------------------- MODULE MC_DataClientTime -------------------------
EXTENDS DataClientTimeCases
\* Lattice constants (seconds).  Quick: years on both sides of the 2007 change of the US rules, the
\* first EU-rule year, leap and non-leap years, a century leap year, the ACN-Data years, the last
\* year of the 32-bit range.  Thorough: every year the rules are transcribed for.
ZonesAll == ZoneNames
YearsQuick == {1996, 2000, 2006, 2007, 2018, 2019, 2020, 2021, 2037}
YearsAll == 1987..2037
MonthsQuick == {1, 3, 7, 11, 12}
MonthsAll == 1..12
DeltasQuick == {-86400, -3601, -3600, -1, 0, 1, 1800, 3599, 3600, 7200}
DeltasAll == {-86400, -7200, -3601, -3600, -3599, -1800, -1, 0, 1, 59, 60, 1799, 1800, 3599, 3600, 3601, 7199, 7200, 86399}
=============================================================================
