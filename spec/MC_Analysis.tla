---------------------------- MODULE MC_Analysis ----------------------------
(* Model-checking constants for Analysis.tla (referenced from spec/cfg/Analysis_*.cfg).          *)
(*                                                                                               *)
(* The Q-lattice (Q = 10, T = 5 min, voltages among 208/240/120 V, lcm 3120):                    *)
(*   every energy quantity is a multiple of 3120*5/10 = 1560 W*min and every battery power a     *)
(*   multiple of 312 W, so every charging rate is a multiple of 0.1 A on every station           *)
(*   (invariant Quantised) - pilot-limited (integers), power-limited (e.g. 19.5 A) and           *)
(*   capacity-limited (e.g. 7.8 A) rates all occur.                                              *)
EXTENDS Analysis

\* ---- stations: heterogeneous voltages inside every phase group ----------------------------------
Volt3 == <<208, 240, 120>>
Phase3 == <<30, -90, 150>>
Volt4 == <<208, 240, 120, 240>>
Phase4 == <<30, -90, 150, 30>>
Volt6 == <<208, 240, 120, 240, 120, 208>>
Phase6 == <<30, -90, 150, 30, -90, 150>>
Phase6U == <<-90, -90, -90, -90, -90, -90>>     \* a single-phase site on line BC: every station at the same, non-zero angle

\* ---- constraint sets (coefficients over CoefDen = 4), in network order; deliberately not sorted ---
\*   phA/phB/phC: line currents (collinear unit rows partitioning the stations)
\*   all:  sum of every station (three directions)       dAB: A - B (delta-wye like, mixed signs)
\*   prim: quarter coefficients with a negative one (0.25, 0.25, -0.5)   pod: a sub-panel
Names6 == <<"phB", "all", "phA", "dAB", "phC", "prim">>
Coef3 == << <<0, 4, 0>>, <<4, 4, 4>>, <<4, 0, 0>>, <<4, -4, 0>>, <<0, 0, 4>>, <<1, 1, -2>> >>
Coef4 == << <<0, 4, 0, 0>>, <<4, 4, 4, 4>>, <<4, 0, 0, 4>>, <<4, -4, 0, 4>>, <<0, 0, 4, 0>>,
            <<1, 1, -2, 1>> >>
Names7 == <<"phB", "all", "phA", "dAB", "phC", "prim", "pod">>
Coef6 == << <<0, 4, 0, 0, 4, 0>>, <<4, 4, 4, 4, 4, 4>>, <<4, 0, 0, 4, 0, 0>>, <<4, -4, 0, 4, -4, 0>>,
            <<0, 0, 4, 0, 0, 4>>, <<1, 1, -2, 1, 1, -2>>, <<4, 4, 4, 0, 0, 0>> >>

\* requests evaluated for every behaviour: subsets, permutations, everything reversed, nothing
Reqs6 == << <<"phA", "phB", "phC">>, <<"phC", "phB", "phA">>, <<"prim", "all">>, <<"dAB">>,
            <<"prim", "phC", "dAB", "phA", "all", "phB">>, <<>>, <<"dAB", "phA", "all">> >>
Reqs7 == << <<"phA", "phB", "phC">>, <<"phC", "phB", "phA">>, <<"prim", "all">>, <<"pod">>,
            <<"pod", "prim", "phC", "dAB", "phA", "all", "phB">>, <<>>, <<"dAB", "pod", "all">> >>
ReqsFew == << <<"phC", "phB", "phA">>, <<"prim", "all">> >>

\* phase-id triples for current_unbalance: the three lines, the same lines in another order,
\* and three non-collinear rows (magnitudes are square roots: compared in radical form)
Nema6 == << <<"phA", "phB", "phC">>, <<"phC", "phA", "phB">>, <<"all", "dAB", "prim">> >>

\* ---- sessions ---------------------------------------------------------------------------------
ReqLat == {9360, 31200, 48360}                      \* 6, 20, 31 lattice units
ReqOneA == {31200}
ReqTwoA == {9360, 31200}
BattLat == {[cap |-> 0, init |-> 0, pw |-> 6240],            \* exactly fits the request
            [cap |-> 123600, init |-> 30000, pw |-> 3120],   \* roomy (can take more than requested), power-limited
            [cap |-> 0, init |-> 7000, pw |-> 4680]}
BattTwo == {[cap |-> 0, init |-> 0, pw |-> 6240], [cap |-> 123600, init |-> 30000, pw |-> 3120]}
BattFit == {[cap |-> 0, init |-> 0, pw |-> 4680]}

\* thresholds (W*min): 0, just above 0, the "fully charged" 1e-3 kWh, the default 0.1 kWh,
\* every requested energy (an EV that never charged has remaining demand = request exactly)
ThrLat == {0, 1, 60, 6000, 9360, 20000, 31200, 48360}

\* ---- scripted schedules (pilots every EVSE class accepts) ------------------------------------------
Menu3 == <<
    [kind |-> "ok", len |-> 0, rows |-> <<>>],
    [kind |-> "ok", len |-> 1, rows |-> (1 :> <<32>> @@ 2 :> <<16>> @@ 3 :> <<24>>)],
    [kind |-> "ok", len |-> 2, rows |-> (1 :> <<16, 8>> @@ 2 :> <<16, 32>> @@ 3 :> <<16, 0>>)],
    [kind |-> "ok", len |-> 3, rows |-> (2 :> <<24, 0, 32>>)] >>
Menu3s == <<
    [kind |-> "ok", len |-> 1, rows |-> (1 :> <<32>> @@ 2 :> <<16>> @@ 3 :> <<24>>)],
    [kind |-> "ok", len |-> 2, rows |-> (1 :> <<16, 8>> @@ 2 :> <<16, 32>> @@ 3 :> <<16, 0>>)] >>
Menu4 == <<
    [kind |-> "ok", len |-> 0, rows |-> <<>>],
    [kind |-> "ok", len |-> 1, rows |-> (1 :> <<32>> @@ 2 :> <<16>> @@ 3 :> <<24>> @@ 4 :> <<8>>)],
    [kind |-> "ok", len |-> 2, rows |-> (1 :> <<16, 8>> @@ 2 :> <<16, 32>> @@ 3 :> <<16, 0>> @@ 4 :> <<16, 24>>)],
    [kind |-> "ok", len |-> 3, rows |-> (2 :> <<24, 0, 32>> @@ 4 :> <<32, 32, 8>>)],
    [kind |-> "ok", len |-> 4, rows |-> (1 :> <<8, 16, 24, 32>> @@ 3 :> <<32, 24, 16, 8>>)] >>
Menu4s == <<
    [kind |-> "ok", len |-> 1, rows |-> (1 :> <<32>> @@ 2 :> <<16>> @@ 3 :> <<24>> @@ 4 :> <<8>>)],
    [kind |-> "ok", len |-> 2, rows |-> (1 :> <<16, 8>> @@ 2 :> <<16, 32>> @@ 3 :> <<16, 0>> @@ 4 :> <<16, 24>>)] >>
Menu6 == <<
    [kind |-> "ok", len |-> 0, rows |-> <<>>],
    [kind |-> "ok", len |-> 1, rows |-> (1 :> <<32>> @@ 2 :> <<16>> @@ 3 :> <<24>> @@ 4 :> <<8>> @@ 5 :> <<32>> @@ 6 :> <<16>>)],
    [kind |-> "ok", len |-> 2, rows |-> (1 :> <<16, 8>> @@ 2 :> <<16, 32>> @@ 3 :> <<16, 0>> @@ 4 :> <<16, 24>>
                                         @@ 5 :> <<16, 8>> @@ 6 :> <<16, 32>>)],
    [kind |-> "ok", len |-> 3, rows |-> (2 :> <<24, 0, 32>> @@ 4 :> <<32, 32, 8>> @@ 6 :> <<8, 24, 24>>)],
    [kind |-> "ok", len |-> 4, rows |-> (1 :> <<8, 16, 24, 32>> @@ 3 :> <<32, 24, 16, 8>> @@ 5 :> <<24, 24, 0, 16>>)],
    [kind |-> "ok", len |-> 2, rows |-> (1 :> <<24, 24>> @@ 2 :> <<24, 24>> @@ 3 :> <<24, 24>> @@ 4 :> <<24, 24>>
                                         @@ 5 :> <<24, 24>> @@ 6 :> <<24, 24>>)] >>

MRAll == {0, 1, 2}
MRNone == {0}
MRTwo == {0, 2}
NoRecomp == {{}}
OneRecomp == {{}, {1}}
SomeRecomp == {{}, {1}, {0, 3}}

\* energy price per period (cents/kWh) and demand charge ($/kW)
Price13 == <<12, 12, 30, 30, 45, 9, 9, 12, 30, 45, 12, 9, 30>>

\* The selection of rows and names is right for every subset of the ids in every order
\* (a statement about constants only: TLC decides it once, before exploring states).
ASSUME SelectionRight

\* hist is path information only: model checking identifies states without it.
ViewA == <<pc, durable, sigma, ghost, pick>>
=============================================================================
