---------------------------- MODULE RampdownDefs ----------------------------
(***************************************************************************)
(* Pure definitions shared by Rampdown.tla (the estimator as a state       *)
(* machine in a closed loop) and RampdownTrace.tla (validation of logged   *)
(* executions of the real code): the update rule of                        *)
(* acnportal/algorithms/upper_bound_estimator.py::SimpleRampdown for ONE   *)
(* session, the effect of the preprocessing chain of                       *)
(* acnportal/algorithms/preprocessing.py on the session's rate bounds, and *)
(* the C07 clause for a granted pilot.                                     *)
(*                                                                         *)
(* All quantities are currents as integers in one common unit (1e-2 A in   *)
(* the model-checking configurations, 1e-6 A in trace validation); only    *)
(* additions, subtractions and comparisons occur, so nothing is rounded.   *)
(***************************************************************************)
EXTENDS Integers, FiniteSets

Min2(a, b) == IF a <= b THEN a ELSE b
Max2(a, b) == IF a >= b THEN a ELSE b
Clip(x, a, b) == IF x < a THEN a ELSE IF x > b THEN b ELSE x      \* np.clip(x, a_min=a, a_max=b), a <= b

(* SimpleRampdown.get_maximum_rates, body of the loop for a session that has an
   observation.  u = the table entry before the call (the station's maximum pilot
   if the session is seen for the first time), p / r = pilot applied to / current
   actually drawn by the session in the last period, mx = maximum pilot of the
   session's station, up / dn / inc = up_threshold / down_threshold / up_increment.

       if previous_pilot - previous_rate > down_threshold:  ub = previous_rate + up_increment
       elif ub - previous_rate < up_threshold:              ub += up_increment
       ub = clip(ub, 0, max_pilot)                                                     *)
RampDown(p, r, dn) == p - r > dn
RampUp(u, r, up) == u - r < up
RampRaw(u, p, r, up, dn, inc) ==
    IF RampDown(p, r, dn) THEN r + inc
    ELSE IF RampUp(u, r, up) THEN u + inc
    ELSE u
RampP(u, p, r, mx, up, dn, inc) == Clip(RampRaw(u, p, r, up, dn, inc), 0, mx)

(* The same rule when the numbers are only known to within eps (logged floats
   rounded to the unit): every result that some resolution of the threshold tests
   lying within eps of their threshold (margin in (-eps, eps]) would give.  With
   eps = 0 this is {RampP(...)} (checked as an invariant of Rampdown.tla).        *)
RampCands(u, p, r, mx, up, dn, inc, eps) ==
    LET d == p - r - dn          \* > 0: ramp down
        q == up - (u - r)        \* > 0: ramp up
        down == IF d > eps THEN {TRUE} ELSE IF d <= -eps THEN {FALSE} ELSE {TRUE, FALSE}
        rise == IF q > eps THEN {TRUE} ELSE IF q <= -eps THEN {FALSE} ELSE {TRUE, FALSE}
    IN { Clip(IF a THEN r + inc ELSE IF b THEN u + inc ELSE u, 0, mx) : a \in down, b \in rise }
RampDecisive(u, p, r, up, dn, eps) ==
    LET d == p - r - dn
        q == up - (u - r)
    IN (d > eps \/ d <= -eps) /\ (d > eps \/ q > eps \/ q <= -eps)

(* The rate bounds [lo, hi] a sorting algorithm works with for a listed session
   (SortedSchedulingAlgo.run_preprocessing), given that Interface.active_sessions
   hands over min_rates = 0 and max_rates = inf:
     enforce_pilot_limit           hi := min(inf, mx)
     apply_upper_bound_estimate    hi := min(hi, table.get(session_id, inf));  reconcile: hi := max(hi, lo)
     apply_minimum_charging_rate   (only with uninterrupted_charging)
        accepted:  lo := max(mn, lo);  reconcile: hi := max(hi, lo)
        refused :  lo := 0; hi := 0     (the minimum pilot exceeds the remaining demand or is infeasible)
   bound = the table entry AFTER the estimator's call of this invocation, or -1 if
   the table has no entry for the session (then there is no estimator limit).     *)
HiAfterEstimate(mx, bound) == IF bound < 0 THEN mx ELSE Max2(Min2(mx, bound), 0)
LoHi(mx, mn, bound, unint, refused) ==
    LET h == HiAfterEstimate(mx, bound) IN
    IF ~unint THEN <<0, h>>
    ELSE IF refused THEN <<0, 0>>
    ELSE <<Max2(mn, 0), Max2(h, Max2(mn, 0))>>

(* C07: a granted pilot g "never exceeds ... the estimator's bound for that session
   (or the uninterrupted-charging minimum pilot, if that is larger)".               *)
WithinBound(g, bound, mn, unint, eps) == g <= Max2(bound, IF unint THEN mn ELSE 0) + eps
=============================================================================
