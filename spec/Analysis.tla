------------------------------ MODULE Analysis ------------------------------
(***************************************************************************)
(* The analysis functions of acnportal/acnsim/analysis/__init__.py written *)
(* as operators over the trajectory that the simulator specification       *)
(* AcnSim.tla records (property C18).                                      *)
(*                                                                         *)
(*   analysis function                 operator                            *)
(*   aggregate_current(sim)            AggregateCurrent   (AggCurN)        *)
(*   aggregate_power(sim)              AggregatePower     (AggPowN)        *)
(*   constraint_currents(sim, ids)     ConstraintCurrents(req)             *)
(*   total_energy_delivered(sim)       TotalDelivered                      *)
(*   total_energy_requested(sim)       TotalRequested                      *)
(*   proportion_of_energy_delivered    TotalDelivered / TotalRequested     *)
(*   proportion_of_demands_met(sim,th) Met(th) / Cardinality(seen)         *)
(*   current_unbalance(sim, ids)       Unbalance(ids)  (NEMA)              *)
(*   datetimes_array(sim)              DatetimeOffsets                     *)
(*   energy_cost / demand_charge       EnergyCostN / DemandChargeN         *)
(*                                                                         *)
(* Everything is an exact integer or a rational kept as numerator with a   *)
(* stated denominator:                                                     *)
(*   rate of station s in period k   = dE[s][k+1] / (Volt[s]*T)        [A]  *)
(*                                   = RateN(s,k) / (VL*T)                  *)
(*                                   = RateQ(s,k) / Q      (Q-lattice)      *)
(*   constraint coefficient          = ConCoef[c][s] / CoefDen              *)
(*   squared constraint current      = ConSq(c,k) / (Q*CoefDen)^2    [A^2]  *)
(* The Q-lattice: the model-checking constants are chosen so that every    *)
(* rate is a multiple of 1/Q A (invariant Quantised); this keeps squares   *)
(* below 2^31 (TLC integers are 32 bit).                                   *)
(*                                                                         *)
(* Phase angles are restricted to the family {30, -90, 150} degrees (the   *)
(* three line-to-line phases of the ACN sites).  For currents a, b, c on   *)
(* these three directions                                                  *)
(*   |a e^{j30} + b e^{-j90} + c e^{j150}|^2 = a^2+b^2+c^2 - ab - bc - ca   *)
(* because every pair of directions is 120 degrees apart (cos = -1/2).     *)
(*                                                                         *)
(* constraint_currents returns complex phasors or their magnitudes          *)
(* depending on return_magnitudes; the specification fixes the squared     *)
(* magnitude (both settings are compared as magnitudes).                   *)
(*                                                                         *)
(* Magnitudes (32-bit TLC integers; pilots <= 32 A, VL = 3120, T = 5):     *)
(* dE <= 32*240*5 = 38400, RateN <= 32*VL*T = 499200, AggPowN <=           *)
(* 6*240*499200 < 7.2e8, RateQ <= 320, |Grp| <= 2*4*320, ConSq and         *)
(* LinBound^2 < 6e7, cost sums < 2e8.                                      *)
(*                                                                         *)
(* The module adds one variable (pick: the constraint-id request the       *)
(* caller builds), the actions ExtendPick / ClosePick (pc "Done" ->        *)
(* "Picked") and the terminal action FinishA, which replaces               *)
(* AcnSim!Finish: it emits the behaviour followed by one record with the   *)
(* value of every analysis function.  NextA is AcnSim's next-state         *)
(* relation with these actions instead of Finish.                          *)
(***************************************************************************)
EXTENDS AcnSim

CONSTANTS
    Phase,      \* <<angle_1,...,angle_NS>> in degrees, each in {30,-90,150}
    CoefDen,    \* common denominator of the constraint coefficients
    ConNames,   \* constraint ids in NETWORK order (ChargingNetwork.constraint_index)
    ConCoef,    \* ConCoef[c][s] = numerator of the coefficient of station s in row c
    Q,          \* rates are multiples of 1/Q A in the configurations checked
    Requests,   \* sequence of requests (sequences of ids) evaluated for every behaviour
    MinSess,    \* scenarios start with at least this many sessions (0: every AcnSim scenario)
    PickLen,    \* ExtendPick builds any repetition-free request of at most this length
    MinPick,    \* ... and at least this length
    ThmLen,     \* RightNames is checked for all repetition-free requests up to this length
    NemaIds,    \* sequence of triples <<idA, idB, idC>> for current_unbalance
    ThrSet,     \* thresholds for proportion_of_demands_met (W*min)
    Price,      \* Price[k+1] = energy price in period k (cents/kWh)
    DemandRate  \* demand charge ($/kW)

VARIABLE pick   \* the request (sequence of constraint ids) the caller has built so far

varsA == <<vars, pick>>

Angles == {30, -90, 150}
NC == Len(ConNames)
SeqRange(q) == {q[i] : i \in 1..Len(q)}
AbsI(x) == IF x < 0 THEN -x ELSE x
MaxOf(S) == CHOOSE m \in S : \A x \in S : x <= m
MinOf(S) == CHOOSE m \in S : \A x \in S : m <= x

ASSUME /\ Len(Phase) = NS /\ \A s \in Stations : Phase[s] \in Angles
       /\ CoefDen \in Nat \ {0} /\ Q \in Nat \ {0}
       /\ MinSess \in 0..MaxSess /\ MinPick \in 0..PickLen /\ PickLen <= Len(ConNames)
       /\ Len(ConCoef) = NC /\ \A c \in 1..NC : Len(ConCoef[c]) = NS
       /\ \A a, b \in 1..NC : a # b => ConNames[a] # ConNames[b]      \* ids are unique
       /\ \A j \in 1..Len(Requests) : SeqRange(Requests[j]) \subseteq SeqRange(ConNames)
       /\ \A j \in 1..Len(NemaIds) : Len(NemaIds[j]) = 3 /\ SeqRange(NemaIds[j]) \subseteq SeqRange(ConNames)
       /\ Len(Price) >= H + 1

\* Sum of f[1..n] (stations are 1..NS).
RECURSIVE SumSeq(_, _)
SumSeq(f, n) == IF n = 0 THEN 0 ELSE f[n] + SumSeq(f, n - 1)
SumSt(f) == SumSeq(f, NS)

\* The periods simulated so far: charging_rates has a column for each.
Periods == 0..(t - 1)

-----------------------------------------------------------------------------
\* ---- aggregate_current, aggregate_power ------------------------------------
\* charging_rates[s, k] as numerator over VL*T.
RateN(s, k) == dE[s][k + 1] * (VL \div Volt[s])

\* aggregate_current: sim.charging_rates.sum(axis=0)            [A], over VL*T
AggCurN(k) == SumSt([s \in Stations |-> RateN(s, k)])
AggregateCurrent == [k \in 1..t |-> AggCurN(k - 1)]

\* aggregate_power: voltages . charging_rates / 1000            [kW], over 1000*VL*T
\* (each station's current weighted by ITS voltage)
AggPowN(k) == SumSt([s \in Stations |-> Volt[s] * RateN(s, k)])
AggregatePower == [k \in 1..t |-> AggPowN(k - 1)]

\* Energy delivered by the whole site in period k (W*min).
PeriodEnergy(k) == SumSt([s \in Stations |-> dE[s][k + 1]])

-----------------------------------------------------------------------------
\* ---- constraint_currents ----------------------------------------------------
\* Rates on the Q-lattice.
RateQ(s, k) == (dE[s][k + 1] * Q) \div (Volt[s] * T)
QuantisedAll == \A s \in Stations : \A k \in 0..H : (dE[s][k + 1] * Q) % (Volt[s] * T) = 0

\* Row c restricted to the stations on direction ang: a real (signed) current.
Grp(c, k, ang) ==
    SumSt([s \in Stations |-> IF Phase[s] = ang THEN ConCoef[c][s] * RateQ(s, k) ELSE 0])

\* |sum_s coef[c][s] * rate[s][k] * e^{j Phase[s]}|^2, over (Q*CoefDen)^2.
ConSq(c, k) ==
    LET a == Grp(c, k, 30)  b == Grp(c, k, -90)  g == Grp(c, k, 150)
    IN a * a + b * b + g * g - a * b - b * g - g * a

\* The row uses stations of one direction only: the phasor sum is an ordinary sum.
Support(c) == {s \in Stations : ConCoef[c][s] # 0}
Collinear(c) == \A s1, s2 \in Support(c) : Phase[s1] = Phase[s2]
ConLin(c, k) == AbsI(SumSt([s \in Stations |-> ConCoef[c][s] * RateQ(s, k)]))
\* sum_s |coef| * rate: what linear=True computes for non-negative rows; bounds |I|.
LinBound(c, k) == SumSt([s \in Stations |-> AbsI(ConCoef[c][s]) * RateQ(s, k)])

NetIdx(nm) == CHOOSE i \in 1..NC : ConNames[i] = nm

\* Structured like the code.  network.constraint_current(rates, constraints=ids) computes
\*   constraint_matrix[indices] @ phasor_schedule
\* i.e. the rows of the full product (CurrentMatrix, here as squared magnitudes) ...
CurrentMatrix == [c \in 1..NC |-> [k \in 1..t |-> ConSq(c, k - 1)]]
\* ... whose id is in ids, IN NETWORK ORDER ...
SelIdx(req) == SelectSeq([i \in 1..NC |-> i], LAMBDA i : ConNames[i] \in SeqRange(req))
CurrentsList(idx, M) == [j \in 1..Len(idx) |-> M[idx[j]]]
\* ... and the requested ids are re-ordered to network order before they are zipped with the rows:
\*   {constraint_ids[i]: currents_list[i] for i in range(len(constraint_ids))}
NamesList(idx) == [j \in 1..Len(idx) |-> ConNames[idx[j]]]
Zip(names, rows) == [nm \in SeqRange(names) |-> rows[CHOOSE j \in 1..Len(names) : names[j] = nm]]
\* (M is passed in so that TLC computes the matrix once for many requests)
ConstraintCurrentsM(req, M) == Zip(NamesList(SelIdx(req)), CurrentsList(SelIdx(req), M))
ConstraintCurrents(req) == ConstraintCurrentsM(req, CurrentMatrix)

\* All repetition-free sequences of at most n ids ("all subsets and orderings").
RECURSIVE ReqUniverse(_)
ReqUniverse(n) ==
    IF n = 0 THEN {<<>>}
    ELSE LET P == ReqUniverse(n - 1)
         IN P \cup UNION {{Append(q, x) : x \in SeqRange(ConNames) \ SeqRange(q)} :
                              q \in {p \in P : Len(p) = n - 1}}

-----------------------------------------------------------------------------
\* ---- energy totals and proportions -------------------------------------------
\* sums over sim.ev_history (= the sessions plugged in so far), W*min; kWh = /60000
TotalDelivered == SumSet([i \in 1..MaxSess |-> evE[i]], seen)
TotalRequested == SumSet([i \in 1..MaxSess |-> IF i <= Len(sess) THEN sess[i].req ELSE 0], seen)
\* proportion_of_energy_delivered = TotalDelivered / TotalRequested   (undefined without sessions)

Remaining(i) == sess[i].req - evE[i]                       \* EV.remaining_demand
Met(th) == Cardinality({i \in seen : Remaining(i) < th})     \* strictly below the threshold
\* proportion_of_demands_met(th) = Met(th) / Cardinality(seen)
\* A float can decide "remaining < th" unless remaining = th after arithmetic on delivered energy.
ThrDecisive(th) == \A i \in seen : Remaining(i) = th => evE[i] = 0

-----------------------------------------------------------------------------
\* ---- current_unbalance (NEMA) --------------------------------------------------
\* currents_dict = constraint_currents(sim, constraint_ids=phase_ids); one row per entry of
\* phase_ids; (max - mean) / mean over the three magnitudes, per period.
\* Squared magnitudes (exact for any rows): PhaseSq(ids)[j][k+1] = |I_(ids[j])|^2 in period k
\* (np.vstack([currents_dict[phase] for phase in phase_ids]): one row per entry of phase_ids)
PhaseSqM(ids, M) == [j \in 1..3 |-> ConstraintCurrentsM(ids, M)[ids[j]]]
PhaseSq(ids) == PhaseSqM(ids, CurrentMatrix)
\* Magnitudes when all three rows are collinear (exact): over Q*CoefDen
AllCollinear(ids) == \A j \in 1..3 : Collinear(NetIdx(ids[j]))
PhaseMag(ids, k) == [j \in 1..3 |-> ConLin(NetIdx(ids[j]), k)]
\* (max - mean)/mean = (3 max - sum) / sum   as <<numerator, denominator>>; undefined if sum = 0
NemaOf(m) == LET sm == m[1] + m[2] + m[3]  mx == MaxOf({m[1], m[2], m[3]}) IN <<3 * mx - sm, sm>>
NemaFrac(ids, k) == CHOOSE f \in {NemaOf(m) : m \in {PhaseMag(ids, k)}} : TRUE
UnbalanceM(ids, M) ==
    [sq |-> PhaseSqM(ids, M),
     collinear |-> AllCollinear(ids),
     frac |-> IF AllCollinear(ids) THEN [k \in 1..t |-> NemaFrac(ids, k - 1)] ELSE <<>>]
Unbalance(ids) == UnbalanceM(ids, CurrentMatrix)

-----------------------------------------------------------------------------
\* ---- datetimes_array -------------------------------------------------------------
\* one entry per simulated period: start + k*T minutes, k = 0..t-1 (minute offsets from start)
DatetimeOffsets == [k \in 1..t |-> (k - 1) * T]

\* ---- energy_cost, demand_charge ----------------------------------------------------
\* (both are computed from aggregate_power in the code; A_Energy: AggPowN(k) = VL * PeriodEnergy(k))
\* energy_cost = sum_k price_k * power_k * T/60 = sum_k Price[k+1] * PeriodEnergy(k) / (100*60000)  [$]
EnergyCostN == SumSet([k \in 0..H |-> Price[k + 1] * PeriodEnergy(k)], Periods)
\* demand_charge = rate * max_k power_k = DemandRate * max_k PeriodEnergy(k) / (T*1000)             [$]
MaxPeriodEnergy == IF t = 0 THEN 0 ELSE MaxOf({PeriodEnergy(k) : k \in Periods})
DemandChargeN == DemandRate * MaxPeriodEnergy

-----------------------------------------------------------------------------
\* ============================ actions =========================================
InitA == Init /\ pick = <<>>

\* The caller decides which constraint ids to ask for, in which order: it builds its request one id
\* at a time (any repetition-free sequence of at most PickLen ids) and then calls the functions.
ExtendPick ==
    /\ pc = "Done" /\ Len(pick) < PickLen
    /\ \E x \in SeqRange(ConNames) \ SeqRange(pick) : pick' = Append(pick, x)
    /\ UNCHANGED vars

ClosePick ==
    /\ pc = "Done" /\ Len(pick) >= MinPick /\ pc' = "Picked"
    /\ UNCHANGED <<durable, sigma, ghost, hist, pick>>

DoneRec == [a |-> "done", t |-> t, pilots |-> pilots, dE |-> dE, evE |-> evE, chg |-> chg,
            peakN |-> peakN, evHist |-> evHist, seen |-> seen, schedHist |-> schedHist,
            occ |-> occ, qlen |-> Cardinality(queue)]

RECURSIVE Ascending(_)
Ascending(S) == IF S = {} THEN <<>> ELSE <<MinOf(S)>> \o Ascending(S \ {MinOf(S)})
ThrSeq == Ascending(ThrSet)

AnaRec ==
    LET M == CurrentMatrix IN
    [a |-> "analysis",
     \* the configuration the values refer to
     phase |-> Phase, conNames |-> ConNames, conCoef |-> ConCoef, coefDen |-> CoefDen, q |-> Q,
     vl |-> VL, T |-> T, t |-> t,
     \* the values
     aggCurN |-> AggregateCurrent,
     aggPowN |-> AggregatePower,
     ccAll |-> ConstraintCurrentsM(ConNames, M),           \* constraint_ids = None
     bound |-> [c \in 1..NC |-> [k \in 1..t |-> LinBound(c, k - 1)]],
     cc |-> [j \in 1..Len(Requests) |-> [req |-> Requests[j], ans |-> ConstraintCurrentsM(Requests[j], M)]],
     pick |-> [req |-> pick, ans |-> ConstraintCurrentsM(pick, M)],
     delivered |-> TotalDelivered, requested |-> TotalRequested, nsess |-> Cardinality(seen),
     met |-> [j \in 1..Len(ThrSeq) |-> [thr |-> ThrSeq[j], n |-> Met(ThrSeq[j]),
                                         decisive |-> ThrDecisive(ThrSeq[j])]],
     nema |-> [j \in 1..Len(NemaIds) |-> [ids |-> NemaIds[j], u |-> UnbalanceM(NemaIds[j], M)]],
     dt |-> DatetimeOffsets,
     price |-> [k \in 1..t |-> Price[k]], costN |-> EnergyCostN,
     demandRate |-> DemandRate, demandN |-> DemandChargeN]

\* run() has returned: evaluate every analysis function, hand behaviour + values to the harness.
FinishA ==
    /\ pc = "Picked"
    /\ IF Rec THEN PrintT(<<"BHV", ToJson(hist \o <<DoneRec, AnaRec>>)>>) ELSE TRUE
    /\ pc' = "Emitted"
    /\ UNCHANGED <<durable, sigma, ghost, hist, pick>>

\* AcnSim's actions (all but Finish) leave pick alone.  One definition per action so that
\* TLC's coverage report names them.
AddSessionA == (\E v \in SessVals : AddSession(v)) /\ UNCHANGED pick
\* (generation only: MinSess > 0 steers the random walk to scenarios with several sessions; a scenario
\* that cannot take another session may always start)
StartA == (Len(sess) >= MinSess \/ ~ENABLED AddSessionA) /\ (\E R \in RecompSets, mr \in MRSet : Start(R, mr)) /\ UNCHANGED pick
LoopA == Loop /\ UNCHANGED pick
ProcA == Proc /\ UNCHANGED pick
DecideA == Decide /\ UNCHANGED pick
SchedReturnA == (\E m \in DOMAIN Menu : SchedReturn(m)) /\ UNCHANGED pick
InterruptA == (SchedRaise \/ Resume \/ DumpLoad \/ Reject) /\ UNCHANGED pick
UpdateA == Update /\ UNCHANGED pick
ApplyA == Apply /\ UNCHANGED pick

TerminatedA == pc = "Emitted" /\ UNCHANGED varsA

NextA ==
    \/ AddSessionA \/ StartA
    \/ LoopA \/ ProcA \/ DecideA
    \/ SchedReturnA \/ InterruptA
    \/ UpdateA \/ ApplyA
    \/ ExtendPick \/ ClosePick
    \/ FinishA
    \/ TerminatedA

SpecA == InitA /\ [][NextA]_varsA

-----------------------------------------------------------------------------
\* ============================ theorems (C18) ====================================
\* Checked by TLC as invariants of SpecA; they tie the definitions above to each other and to the
\* simulator's own bookkeeping (evE, peakN), so a slip in one definition is caught by the model checker.

\* The analysis functions take "a Simulator object which has been run": the costlier theorems are
\* stated for completed trajectories (checked once per trajectory, when run() has returned); the cheap
\* ones hold - and are checked - in every state.
Completed == pc = "Done" /\ pick = <<>>
\* The recorded arrays only change in Apply (and seen in Proc); the facts about them that hold in every
\* state are evaluated between periods and at the end, which visits every value the arrays ever take.
Settled == pc \in {"Loop", "Done"}

\* the configuration is on the Q-lattice (precondition of RateQ, hence of every phasor value)
Quantised == Settled => QuantisedAll

\* total energy delivered = sum of the sessions' energies = integral of aggregate power;
\* aggregate power is VL * energy per period (numerators), i.e. power = energy / time.
A_Energy ==
    Settled =>
    /\ TotalDelivered = SumSet([k \in 0..H |-> PeriodEnergy(k)], Periods)
    /\ \A k \in Periods : AggPowN(k) = VL * PeriodEnergy(k)
    /\ TotalDelivered = SumSet([i \in 1..MaxSess |-> evE[i]], 1..Len(sess))     \* unseen sessions got nothing

\* proportions are proportions
Fits == \A i \in seen : sess[i].cap - sess[i].init <= sess[i].req
A_Proportion ==
    Completed =>
    /\ 0 <= TotalDelivered
    /\ Fits => TotalDelivered <= TotalRequested
    /\ \A th \in ThrSet : Met(th) \in 0..Cardinality(seen)
    /\ \A a, b \in ThrSet : a <= b => Met(a) <= Met(b)
    /\ \A th \in ThrSet : (\A i \in seen : Remaining(i) < th) <=> Met(th) = Cardinality(seen)

\* the simulator's peak is the maximum of aggregate_current
A_Peak ==
    Settled =>
    /\ \A k \in Periods : AggCurN(k) <= peakN
    /\ t > 0 => \E k \in Periods : AggCurN(k) = peakN
    /\ t = 0 => peakN = 0

\* phasor arithmetic
UnitRow(c) == \A s \in Stations : ConCoef[c][s] \in {0, CoefDen}
A_Phasor ==
    Completed =>
    \A c \in 1..NC : \A k \in Periods :
        \A sq \in {ConSq(c, k)}, lb \in {LinBound(c, k)}, ln \in {ConLin(c, k)} :
           /\ 0 <= sq
           /\ sq <= lb * lb                                            \* triangle inequality
           \* the same phasor in rectangular coordinates: e^{j30} = (r/2, 1/2), e^{-j90} = (0, -1),
           \* e^{j150} = (-r/2, 1/2) with r = sqrt(3), so  4|I|^2 = 3 (a - g)^2 + (a + g - 2b)^2
           /\ \A a \in {Grp(c, k, 30)}, b \in {Grp(c, k, -90)}, g \in {Grp(c, k, 150)} :
                 /\ 4 * sq = 3 * (a - g) * (a - g) + (a + g - 2 * b) * (a + g - 2 * b)
                 /\ (a = b /\ b = g) => sq = 0                         \* balanced three-phase load
           /\ Collinear(c) => sq = ln * ln
           \* a collinear row of ones is the plain sum of its stations' rates ...
           /\ (Collinear(c) /\ UnitRow(c)) =>
                 ln * VL * T
                   = CoefDen * Q * SumSt([s \in Stations |-> IF s \in Support(c) THEN RateN(s, k) ELSE 0])
\* ... so three such rows that partition the stations add up to aggregate_current
PartitionRows(ids) ==
    /\ \A j \in 1..3 : Collinear(NetIdx(ids[j])) /\ UnitRow(NetIdx(ids[j]))
    /\ \A s \in Stations : Cardinality({j \in 1..3 : s \in Support(NetIdx(ids[j]))}) = 1
A_PhaseSum ==
    Completed =>
    \A n \in 1..Len(NemaIds) : PartitionRows(NemaIds[n]) =>
        \A k \in Periods :
            \A m \in {PhaseMag(NemaIds[n], k)} :
                (m[1] + m[2] + m[3]) * VL * T = CoefDen * Q * AggCurN(k)

\* "returned under the right names whatever order they were requested in": the answer for a request
\* is a function on exactly the requested ids whose value at an id is that constraint's own current.
RightAnswer(req, M) ==
    \A cc \in {ConstraintCurrentsM(req, M)} :
        /\ DOMAIN cc = SeqRange(req)
        /\ \A nm \in SeqRange(req) : cc[nm] = M[NetIdx(nm)]
\* (\A x \in {e} binds x to the VALUE of e: TLC then evaluates e once, not at every use)
A_RightNames ==
    /\ Completed =>
          \A M \in {CurrentMatrix} :
              /\ \A c \in 1..NC : M[c] = [k \in 1..t |-> ConSq(c, k - 1)]
              /\ \A req \in ReqUniverse(ThmLen) : RightAnswer(req, M)
              /\ \A j \in 1..Len(Requests) : RightAnswer(Requests[j], M)
    /\ pc = "Picked" => \A M \in {CurrentMatrix} : RightAnswer(pick, M)
\* The index bookkeeping does not depend on the state: decided once, for every subset in every order.
SelectionRight ==
    \A req \in ReqUniverse(NC) :
        \A idx \in {SelIdx(req)} : \A names \in {NamesList(idx)} :
           /\ SeqRange(names) = SeqRange(req) /\ Len(names) = Len(req)
           /\ \A j \in 1..Len(idx) : names[j] = ConNames[idx[j]]
           /\ \A a, b \in 1..Len(idx) : a < b => idx[a] < idx[b]

\* NEMA unbalance of collinear phases: in [0, 2], 0 iff balanced, independent of the order of the ids
A_Nema ==
    Completed =>
    \A n \in 1..Len(NemaIds) : AllCollinear(NemaIds[n]) =>
        \A sq \in {PhaseSq(NemaIds[n])} : \A k \in Periods :
            \A f \in {NemaFrac(NemaIds[n], k)}, m \in {PhaseMag(NemaIds[n], k)} :
               /\ 0 <= f[1] /\ f[1] <= 2 * f[2]
               \* anchor values of the NEMA formula: one loaded phase -> 200 %; two equal, one idle -> 50 %
               /\ Cardinality({j \in 1..3 : m[j] > 0}) = 1 => f[1] = 2 * f[2]
               /\ (\E x \in 1..3 : m[x] = 0 /\ \A y, z \in (1..3) \ {x} : m[y] = m[z] /\ m[y] > 0) => 2 * f[1] = f[2]
               \* (max - mean) / mean, cross-multiplied with mean = sum/3
               /\ \A mx \in {m[1], m[2], m[3]} : (\A j \in 1..3 : m[j] <= mx) =>
                      f[1] * (m[1] + m[2] + m[3]) = (3 * mx - (m[1] + m[2] + m[3])) * f[2]
               /\ (f[2] > 0 /\ f[1] = 0) <=> (m[1] = m[2] /\ m[2] = m[3] /\ m[1] > 0)
               /\ \A j \in 1..3 : sq[j][k + 1] = m[j] * m[j]
               /\ \A n2 \in 1..Len(NemaIds) :
                      SeqRange(NemaIds[n2]) = SeqRange(NemaIds[n]) => NemaFrac(NemaIds[n2], k) = f

\* one datetime per simulated period, spaced by the period, starting at start
A_Datetimes ==
    /\ Len(DatetimeOffsets) = t
    /\ t > 0 => DatetimeOffsets[1] = 0
    /\ \A k \in 1..(t - 1) : DatetimeOffsets[k + 1] - DatetimeOffsets[k] = T

\* cost is between cheapest and dearest price times the energy; demand charge is non-negative
A_Cost ==
    Settled =>
    LET P == {Price[k + 1] : k \in 0..H}
    IN /\ MinOf(P) * TotalDelivered <= EnergyCostN /\ EnergyCostN <= MaxOf(P) * TotalDelivered
       /\ 0 <= DemandChargeN
       /\ DemandChargeN * Cardinality(Periods) >= DemandRate * TotalDelivered   \* max >= mean

PickOnlyAtEnd == pick # <<>> => pc \in {"Done", "Picked", "Emitted"}
PickChangesNothing == [][ExtendPick => UNCHANGED vars]_varsA
=============================================================================
