------------------------------ MODULE Currents ------------------------------
(***************************************************************************)
(* The constraint set of a ChargingNetwork                                 *)
(* (acnportal/acnsim/network/charging_network.py) and the Current algebra  *)
(* it is fed with (acnportal/acnsim/network/current.py).  Property C12.    *)
(*                                                                         *)
(* The code keeps THREE PARALLEL ARRAYS                                    *)
(*     constraint_matrix (rows x stations), magnitudes, constraint_index   *)
(* and edits them by different mechanisms (DataFrame concat + fillna +     *)
(* reindex for add, np.delete / list.remove for remove, remove+add for     *)
(* update).  The spec keeps the same three arrays (matrix, mags, names),   *)
(* edited the same way, and next to them a ghost variable `cons`: the list *)
(* of constraints as the user stated them, [name, coef, limit], where coef *)
(* is the finite-support function station -> coefficient the Current       *)
(* expression denotes.  The property is the alignment of the arrays with   *)
(* the ghost (RowsAligned, LimitsAligned, NamesAligned), the registration  *)
(* guard, and the row/column selection of constraint_current (QueryRows).  *)
(*                                                                         *)
(* Units: coefficients in 1/8 (every coefficient of the menus is a dyadic  *)
(* rational, so the float arithmetic of the implementation is exact too);  *)
(* limits and schedule entries in A; query results in 1/8 A; periods are   *)
(* 0-based indices as in the code.  Every station has phase angle 0, so    *)
(* the aggregate current of a row is the plain weighted sum (the phasor    *)
(* geometry is C06's business).                                            *)
(*                                                                         *)
(* Actions = the public calls: Register, AddConstraint, RemoveConstraint,  *)
(* UpdateConstraint, Query (constraint_current), RoundTrip (to_json /      *)
(* from_json: the identity).  A refused call (exception) changes nothing.  *)
(***************************************************************************)
EXTENDS Integers, Sequences, FiniteSets, TLC, Json

CONSTANTS
    InitStations,   \* set of station sequences: the registration order the behaviour starts from
    Universe,       \* all station ids (those not registered are "unknown" to the network)
    Menus,          \* set of menus; a menu is a sequence of Current expression trees: the currents the caller
                    \* has at hand in this behaviour (add_constraint may use all, update_constraint the first NUpd)
    NUpd,           \* update_constraint is offered menu[1..NUpd]
    Limits,         \* limits (A)
    AddNames,       \* names offered to add_constraint; "" stands for name=None (default name)
    NewNames,       \* new_name offered to update_constraint; "" stands for None (keep the name)
    Missing,        \* a constraint name that never exists
    Sched,          \* station id -> sequence of NT currents (A): that station's row of the schedule matrix
    NT,             \* periods of the schedule matrix
    TimesMenu,      \* time_indices offered to constraint_current: ascending sequences; <<>> stands for None
    MaxCons,        \* add_constraint is not offered beyond this many constraints (bounds the model)
    MaxOps,         \* calls per behaviour
    Rec             \* TRUE: record the behaviour in `hist` and emit it at the end

VARIABLES
    menu,       \* the expression trees at hand (chosen in Init, never changes)
    stations,   \* sequence of registered station ids = ChargingNetwork.station_ids (OrderedDict order)
    locked,     \* constraint_matrix is not None  (a constraint has been added at some time)
    matrix,     \* constraint_matrix: sequence of rows, each a sequence over `stations` (1/8)
    mags,       \* magnitudes
    names,      \* constraint_index
    cons,       \* ghost: sequence of [name, coef : station -> 1/8 (finite support), limit]
    qres,       \* the last call if it was a query: [all, asked, times, res]; NoQ otherwise
    last,       \* outcome of the last call: "init" | "ok" | "refused" | "emitted"
    nops,       \* calls made
    hist        \* recorded calls (only if Rec)
vars == <<menu, stations, locked, matrix, mags, names, cons, qres, last, nops, hist>>
netvars == <<stations, locked, matrix, mags, names, cons>>

NoQ == [all |-> FALSE, asked |-> {}, times |-> <<>>, res |-> <<-1>>]

-----------------------------------------------------------------------------
\* generic helpers
Range(s) == {s[i] : i \in DOMAIN s}
InSeq(x, s) == \E i \in DOMAIN s : s[i] = x
FirstIdx(x, s) == CHOOSE i \in DOMAIN s : s[i] = x /\ \A j \in 1..(i - 1) : s[j] # x   \* list.index(x)
DelAt(s, i) == [j \in 1..(Len(s) - 1) |-> IF j < i THEN s[j] ELSE s[j + 1]]            \* np.delete(s, i-1, axis=0)

-----------------------------------------------------------------------------
(***************************************************************************)
(* The Current algebra.  A Current is a pandas Series: a function from an   *)
(* index (a finite set of station ids; explicit zeros stay in the index)    *)
(* to coefficients.  Expression trees (depth <= 2 in the menus):            *)
(*   [t |-> "none"]                     Current()                           *)
(*   [t |-> "str",  s |-> id]           Current(id)              coef 1     *)
(*   [t |-> "list", l |-> <<ids>>]      Current([ids])           coef 1, any order, duplicates collapse *)
(*   [t |-> "dict", d |-> <<<<id,c>>>>] Current({id: c/8, ...})  in the listed order *)
(*   [t |-> "add",  a, b]               a + b                               *)
(*   [t |-> "sub",  a, b]               a - b                               *)
(*   [t |-> "lmul", k, a]               k * a      k = [n, d], the scalar n/d *)
(*   [t |-> "rmul", k, a]               a * k                               *)
(***************************************************************************)
ENone == [t |-> "none"]
EStr(s) == [t |-> "str", s |-> s]
ELst(l) == [t |-> "list", l |-> l]
EDct(d) == [t |-> "dict", d |-> d]
EAdd(a, b) == [t |-> "add", a |-> a, b |-> b]
ESub(a, b) == [t |-> "sub", a |-> a, b |-> b]
ELMul(k, a) == [t |-> "lmul", k |-> k, a |-> a]
ERMul(a, k) == [t |-> "rmul", k |-> k, a |-> a]

Coef(f, s) == IF s \in DOMAIN f THEN f[s] ELSE 0                    \* "0 if absent"
Plus(f, g) == [s \in DOMAIN f \cup DOMAIN g |-> Coef(f, s) + Coef(g, s)]     \* Series.add(other, fill_value=0)
Scale(k, f) == [s \in DOMAIN f |-> (k.n * f[s]) \div k.d]                    \* exact: see Exact below
Minus(f, g) == Plus(f, Scale([n |-> -1, d |-> 1], g))                        \* self.add(-1 * other, fill_value=0)
DictFn(d) == [s \in {d[i][1] : i \in DOMAIN d} |-> d[CHOOSE i \in DOMAIN d : d[i][1] = s][2]]

RECURSIVE Eval(_)
Eval(e) ==
    CASE e.t = "none" -> [s \in {} |-> 0]
      [] e.t = "str"  -> [s \in {e.s} |-> 8]
      [] e.t = "list" -> [s \in Range(e.l) |-> 8]
      [] e.t = "dict" -> DictFn(e.d)
      [] e.t = "add"  -> Plus(Eval(e.a), Eval(e.b))
      [] e.t = "sub"  -> Minus(Eval(e.a), Eval(e.b))
      [] e.t \in {"lmul", "rmul"} -> Scale(e.k, Eval(e.a))

RECURSIVE Depth(_)
Depth(e) == CASE e.t \in {"none", "str", "list", "dict"} -> 0
              [] e.t \in {"add", "sub"} -> 1 + (IF Depth(e.a) >= Depth(e.b) THEN Depth(e.a) ELSE Depth(e.b))
              [] e.t \in {"lmul", "rmul"} -> 1 + Depth(e.a)

\* every scalar multiplication of the tree stays on the 1/8 lattice (menus are filtered with this)
RECURSIVE Exact(_)
Exact(e) == CASE e.t \in {"none", "str", "list", "dict"} -> TRUE
              [] e.t \in {"add", "sub"} -> Exact(e.a) /\ Exact(e.b)
              [] e.t \in {"lmul", "rmul"} -> Exact(e.a) /\ \A s \in DOMAIN Eval(e.a) : (e.k.n * Eval(e.a)[s]) % e.k.d = 0

\* what the behaviour records for the replay: the value the spec assigns to every node of the tree
Pairs(f) == {<<s, f[s]>> : s \in DOMAIN f}
RECURSIVE ValTree(_)
ValTree(e) == CASE e.t \in {"none", "str", "list", "dict"} -> [v |-> Pairs(Eval(e))]
                [] e.t \in {"add", "sub"} -> [v |-> Pairs(Eval(e)), a |-> ValTree(e.a), b |-> ValTree(e.b)]
                [] e.t \in {"lmul", "rmul"} -> [v |-> Pairs(Eval(e)), a |-> ValTree(e.a)]

-----------------------------------------------------------------------------
(***************************************************************************)
(* The network's constraint arrays, edited as the code edits them.  The    *)
(* operators work on a record N = [matrix, mags, names, cons] so that      *)
(* update_constraint can be written as the code writes it: remove, then    *)
(* add.                                                                    *)
(***************************************************************************)
Net == [matrix |-> matrix, mags |-> mags, names |-> names, cons |-> cons]
Pos(s) == CHOOSE j \in DOMAIN stations : stations[j] = s
Known(cur) == DOMAIN cur \subseteq Range(stations)      \* otherwise KeyError "Station ... not found"

\* constraints_as_df(): rows as functions over the column labels
AsFrame(N) == [i \in DOMAIN N.matrix |-> [s \in Range(stations) |-> N.matrix[i][Pos(s)]]]

\* name=None -> "_const_<number of constraints now>"; a name already present gets "_v2" appended
\* (once, without looking again: names can repeat, exactly as in the code)
FinalName(N, name) ==
    LET n0 == IF name = "" THEN "_const_" \o ToString(Len(N.names)) ELSE name
    IN  IF InSeq(n0, N.names) THEN n0 \o "_v2" ELSE n0

\* add_constraint for a current whose stations are all registered:
\* concat the current as a new row (columns it does not mention are filled with 0; the first constraint
\* takes the other branch of the code, which must come to the same), then reindex(columns=station_ids).
Added(N, cur, limit, name) ==
    LET nm == FinalName(N, name)
        frame == Append(AsFrame(N), [s \in Range(stations) |-> Coef(cur, s)])
    IN  [matrix |-> [i \in DOMAIN frame |-> [j \in DOMAIN stations |-> frame[i][stations[j]]]],
         mags   |-> Append(N.mags, limit),
         names  |-> Append(N.names, nm),
         cons   |-> Append(N.cons, [name |-> nm, coef |-> cur, limit |-> limit])]

\* remove_constraint for a name that is present: the first constraint with this name goes, from all arrays
Removed(N, name) ==
    LET i == FirstIdx(name, N.names)
        g == CHOOSE g \in DOMAIN N.cons : N.cons[g].name = name /\ \A h \in 1..(g - 1) : N.cons[h].name # name
    IN  [matrix |-> DelAt(N.matrix, i), mags |-> DelAt(N.mags, i), names |-> DelAt(N.names, i),
         cons |-> DelAt(N.cons, g)]

\* constraint_current(schedule, constraints=asked | None, time_indices=times | None) with all phase angles 0.
\* Rows: the constraints whose name is asked for, in NETWORK order (whatever the order of the list asked);
\* columns: the periods asked for.  Schedule row j belongs to stations[j].
Cols(times) == IF times = <<>> THEN [t \in 1..NT |-> t - 1] ELSE times
RECURSIVE Dot(_, _, _)
Dot(row, t, j) == IF j = 0 THEN 0 ELSE row[j] * Sched[stations[j]][t + 1] + Dot(row, t, j - 1)
QueryMatrix(all, asked, times) ==        \* as the code computes it: from constraint_index and constraint_matrix
    LET idx == SelectSeq([i \in 1..Len(names) |-> i], LAMBDA i : all \/ names[i] \in asked)
        cols == Cols(times)
    IN  [i \in DOMAIN idx |-> [c \in DOMAIN cols |-> Dot(matrix[idx[i]], cols[c], Len(stations))]]
QueryGhost(all, asked, times) ==         \* as the property defines it: from the constraints themselves
    LET sel == SelectSeq(cons, LAMBDA c : all \/ c.name \in asked)
        cols == Cols(times)
    IN  [i \in DOMAIN sel |-> [c \in DOMAIN cols |->
            Dot([j \in DOMAIN stations |-> Coef(sel[i].coef, stations[j])], cols[c], Len(stations))]]

-----------------------------------------------------------------------------
Log(r) == IF Rec THEN Append(hist, r) ELSE hist
Post == [stations |-> stations', locked |-> locked', matrix |-> matrix', mags |-> mags', names |-> names']
SetNet(N) == matrix' = N.matrix /\ mags' = N.mags /\ names' = N.names /\ cons' = N.cons
Step == nops < MaxOps /\ nops' = nops + 1 /\ UNCHANGED menu

Init ==
    /\ menu \in Menus
    /\ stations \in InitStations
    /\ locked = FALSE /\ matrix = <<>> /\ mags = <<>> /\ names = <<>> /\ cons = <<>>
    /\ qres = NoQ /\ last = "init" /\ nops = 0
    /\ hist = IF Rec THEN <<[op |-> "init", res |-> "ok",
                              post |-> [stations |-> stations, locked |-> FALSE, matrix |-> <<>>,
                                        mags |-> <<>>, names |-> <<>>]]>>
                     ELSE <<>>

\* register_evse(EVSE(s), 240, 0).  Docstring: "can only be called before any constraints have been
\* registered"; the code refuses (EVSERegistrationError) once constraint_matrix is not None.
Register(s) ==
    /\ Step /\ s \in Universe \ Range(stations)
    /\ IF locked THEN last' = "refused" /\ UNCHANGED stations
                 ELSE last' = "ok" /\ stations' = Append(stations, s)
    /\ UNCHANGED <<locked, matrix, mags, names, cons>> /\ qres' = NoQ
    /\ hist' = Log([op |-> "register", s |-> s, res |-> last', post |-> Post])

\* add_constraint(<e>, limit, name)
AddConstraint(e, limit, name) ==
    /\ Step /\ Len(names) < MaxCons
    /\ LET cur == Eval(e) IN
         IF Known(cur)
         THEN /\ SetNet(Added(Net, cur, limit, name)) /\ locked' = TRUE /\ last' = "ok"
         ELSE /\ last' = "refused" /\ UNCHANGED <<locked, matrix, mags, names, cons>>     \* KeyError, nothing changed
    /\ UNCHANGED stations /\ qres' = NoQ
    /\ hist' = Log([op |-> "add", e |-> e, vals |-> ValTree(e), limit |-> limit, name |-> name,
                    res |-> last', post |-> Post])

\* remove_constraint(name)
RemoveConstraint(name) ==
    /\ Step
    /\ IF InSeq(name, names)
       THEN SetNet(Removed(Net, name)) /\ last' = "ok"
       ELSE last' = "refused" /\ UNCHANGED <<matrix, mags, names, cons>>                  \* KeyError
    /\ UNCHANGED <<stations, locked>> /\ qres' = NoQ
    /\ hist' = Log([op |-> "remove", name |-> name, res |-> last', post |-> Post])

\* update_constraint(name, <e>, limit, new_name) = remove_constraint(name); add_constraint(<e>, limit, new_name or name).
\* Only offered with currents over registered stations: with an unknown station the code has already removed
\* the old constraint when add_constraint raises; the property says nothing about that call.
UpdateConstraint(name, e, limit, newname) ==
    /\ Step
    /\ LET cur == Eval(e) IN
         /\ Known(cur)
         /\ IF InSeq(name, names)
            THEN SetNet(Added(Removed(Net, name), cur, limit, IF newname = "" THEN name ELSE newname)) /\ last' = "ok"
            ELSE last' = "refused" /\ UNCHANGED <<matrix, mags, names, cons>>             \* KeyError
    /\ UNCHANGED <<stations, locked>> /\ qres' = NoQ
    /\ hist' = Log([op |-> "update", name |-> name, e |-> e, vals |-> ValTree(e), limit |-> limit,
                    newname |-> newname, res |-> last', post |-> Post])

\* constraint_current(S, constraints = None if all else a list of the names `asked`, time_indices = times or None).
\* Before the first constraint the matrix is None and the call is meaningless: not offered.
Query(all, asked, times) ==
    /\ Step /\ locked
    /\ qres' = [all |-> all, asked |-> asked, times |-> times, res |-> QueryMatrix(all, asked, times)]
    /\ last' = "ok" /\ UNCHANGED netvars
    /\ hist' = Log([op |-> "query", all |-> all, asked |-> asked, times |-> times, res |-> qres'.res,
                    post |-> Post])

\* update_constraint(name, <e over an UNREGISTERED station>, ...): KeyError.  The code has removed the old constraint by
\* the time add_constraint raises (post); an implementation that rolls back would leave the network as it was (alt).
\* The statement decides neither, but in both cases rows, limits and names stay aligned and the network stays usable:
\* the replay accepts either outcome (and nothing else), asks for every constraint current afterwards, and the behaviour
\* ends with this call (last = "partial": only Finish follows).
UpdateUnknown(name, e, limit, newname) ==
    /\ nops = MaxOps - 1 /\ Step /\ InSeq(name, names) /\ ~Known(Eval(e))
    /\ SetNet(Removed(Net, name)) /\ last' = "partial"
    /\ UNCHANGED <<stations, locked>> /\ qres' = NoQ
    /\ hist' = Log([op |-> "update_unknown", name |-> name, e |-> e, vals |-> ValTree(e), limit |-> limit,
                    newname |-> newname, res |-> "refused", post |-> Post,
                    alt |-> [stations |-> stations, locked |-> locked, matrix |-> matrix, mags |-> mags, names |-> names]])

\* ChargingNetwork.from_json(net.to_json()): the identity on the abstract state
RoundTrip ==
    /\ Step /\ last' = "ok" /\ qres' = NoQ /\ UNCHANGED netvars
    /\ hist' = Log([op |-> "roundtrip", res |-> "ok", post |-> Post])

Finish ==
    /\ nops = MaxOps /\ last # "emitted"
    /\ IF Rec THEN PrintT(<<"BHV", ToJson([sched |-> Sched, nt |-> NT, ops |-> hist])>>) ELSE TRUE
    /\ last' = "emitted"
    /\ UNCHANGED <<menu, stations, locked, matrix, mags, names, cons, qres, nops, hist>>

Terminated == last = "emitted" /\ UNCHANGED vars

\* Named so that -coverage reports them.  TLC -simulate first picks one of these disjuncts uniformly (a
\* disabled one passes its turn to the next in the list), then one of its successors: quantifier domains
\* are therefore state-dependent (a constant domain would be split into one disjunct per element), and
\* Finish / Terminated, disabled until the end, stand before DoAdd.
Absent == IF names = <<>> THEN {} ELSE {Missing}     \* a name that is not there (on an empty list only via Query)
DoRegister == \E s \in Universe \ Range(stations) : Register(s)
DoAdd == \E e \in Range(menu), l \in Limits, n \in AddNames : AddConstraint(e, l, n)
DoRemove == \E n \in Range(names) \cup Absent : RemoveConstraint(n)
DoUpdate == \E n \in Range(names) \cup Absent, i \in 1..NUpd, l \in Limits, nn \in NewNames :
                UpdateConstraint(n, menu[i], l, nn)
DoUpdateUnknown == \E n \in Range(names), i \in 1..NUpd, l \in Limits, nn \in NewNames : UpdateUnknown(n, menu[i], l, nn)
DoQuery == \E P \in SUBSET (DOMAIN names \cup {0}), ts \in TimesMenu :
               \/ P = {0} /\ Query(TRUE, {}, ts)                                              \* constraints=None
               \/ Query(FALSE, {names[p] : p \in P \ {0}} \cup (IF 0 \in P THEN {Missing} ELSE {}), ts)
Next ==
    \/ DoRegister
    \/ Finish \/ Terminated
    \/ DoAdd
    \/ DoRemove
    \/ DoUpdate \/ DoUpdateUnknown
    \/ DoQuery
    \/ RoundTrip

Spec == Init /\ [][Next]_vars

\* the menus stay on the 1/8 lattice and within depth 2
ASSUME \A m \in Menus : NUpd <= Len(m) /\ \A i \in DOMAIN m : Exact(m[i]) /\ Depth(m[i]) <= 2

-----------------------------------------------------------------------------
\* C12
Shape == Len(matrix) = Len(mags) /\ Len(mags) = Len(names) /\ Len(names) = Len(cons)
                /\ (~locked => names = <<>>)
RowsAligned ==      \* row i holds, for each station, exactly the coefficient of that station in constraint i
    /\ Len(matrix) = Len(cons)
    /\ \A i \in DOMAIN cons :
         /\ Len(matrix[i]) = Len(stations)
         /\ \A j \in DOMAIN stations : matrix[i][j] = Coef(cons[i].coef, stations[j])
         /\ DOMAIN cons[i].coef \subseteq Range(stations)              \* and no coefficient got lost
LimitsAligned == Len(mags) = Len(cons) /\ \A i \in DOMAIN cons : mags[i] = cons[i].limit
NamesAligned == Len(names) = Len(cons) /\ \A i \in DOMAIN cons : names[i] = cons[i].name
QueryRows == qres # NoQ => qres.res = QueryGhost(qres.all, qres.asked, qres.times)
\* stations cannot be registered once constraints exist
RegisterRefusedAfterConstraint == [][(names # <<>> \/ locked) => stations' = stations]_vars
RefusedChangesNothing == [][last' = "refused" => UNCHANGED netvars]_vars
\* a call that keeps the number of constraints but changes them is an update: it leaves the other
\* constraints in place and in order and puts the new one last
UpdateIsRemoveAppend ==
    [][(Len(cons') = Len(cons) /\ cons' # cons) =>
          \E d \in DOMAIN cons : \A i \in 1..(Len(cons) - 1) : cons'[i] = DelAt(cons, d)[i]]_vars
=============================================================================
