---------------------------- MODULE MC_DataClient ----------------------------
EXTENDS DataClient

BaseUrl == "https://ev.caltech.edu/api/v1/"

\* ---- documents (instants in s since 1970-01-01Z); zones rotate, instants sit on DST switches,
\* ---- year / month ends and leap days; `done`, `cc`, `ps` are optional (JSON null)
DocsAll == <<
  \* 1: Los Angeles, across the end of DST 2018-11-04 09:00Z (01:59:59 PDT -> 01:00:00 PST)
  [zone |-> "America/Los_Angeles", conn |-> 1541321999, disc |-> 1541322000, done |-> <<1541325599>>,
   mod |-> 1541318400, req |-> 1541325600, cc |-> << <<1541321999, 1541322000, 1541322001>> >>, ps |-> << <<1541318400>> >>],
  \* 2: London, across the start of DST 2019-03-31 01:00Z (00:59:59 GMT -> 02:00:00 BST)
  [zone |-> "Europe/London", conn |-> 1553993999, disc |-> 1553994000, done |-> <<>>,
   mod |-> 1553990400, req |-> 1553997600, cc |-> << <<1553993999, 1553994000>> >>, ps |-> <<>>],
  \* 3: Kolkata, New Year's midnight local (2019-12-31 18:30Z) and the leap day 2020
  [zone |-> "Asia/Kolkata", conn |-> 1577816999, disc |-> 1577817000, done |-> <<1582934400>>,
   mod |-> 1582914600, req |-> 1583020799, cc |-> << <<>> >>, ps |-> << <<1577816999, 1577817000>> >>],
  \* 4: UTC, last representable year
  [zone |-> "UTC", conn |-> 2145916797, disc |-> 2145916798, done |-> <<2145916798>>,
   mod |-> 1577836800, req |-> 1577836799, cc |-> <<>>, ps |-> <<>>],
  \* 5: Los Angeles, across the start of DST 2019-03-10 10:00Z (01:59:59 PST -> 03:00:00 PDT)
  [zone |-> "America/Los_Angeles", conn |-> 1552211999, disc |-> 1552212000, done |-> <<1552215600>>,
   mod |-> 1552208400, req |-> 1552240800, cc |-> << <<1552211999, 1552212000, 1552212001, 1552215600>> >>, ps |-> << <<1552211999>> >>],
  \* 6: London, across the end of DST 2019-10-27 01:00Z (01:59:59 BST -> 01:00:00 GMT)
  [zone |-> "Europe/London", conn |-> 1572137999, disc |-> 1572138000, done |-> <<1572141600>>,
   mod |-> 1572134400, req |-> 1572141599, cc |-> << <<1572137999, 1572138000>> >>, ps |-> << <<1572138000>> >>],
  \* 7: Los Angeles under the pre-2007 rules (2006-04-02 10:00Z, 2006-10-29 09:00Z)
  [zone |-> "America/Los_Angeles", conn |-> 1143971999, disc |-> 1143972000, done |-> <<1162112399>>,
   mod |-> 1162112400, req |-> 1162116000, cc |-> <<>>, ps |-> << <<1143971999, 1162112400>> >>],
  \* 8: Los Angeles, an ordinary ACN-Data session (2018-04-25) and local New Year 2020
  [zone |-> "America/Los_Angeles", conn |-> 1524654484, disc |-> 1524662410, done |-> <<>>,
   mod |-> 1577865599, req |-> 1577865600, cc |-> << <<1524654484, 1524654494, 1524654504>> >>, ps |-> << <<1524654484, 1524654494, 1524654504>> >>],
  \* 9: Kolkata seen at the Los Angeles switches (no switch there)
  [zone |-> "Asia/Kolkata", conn |-> 1552211999, disc |-> 1552212000, done |-> <<1541322000>>,
   mod |-> 1541321999, req |-> 1553994000, cc |-> << <<1552212000>> >>, ps |-> <<>>],
  \* 10: UTC at the London switches
  [zone |-> "UTC", conn |-> 1553993999, disc |-> 1553994000, done |-> <<>>,
   mod |-> 1572137999, req |-> 1572138000, cc |-> << <<1553993999, 1553994000>> >>, ps |-> << <<>> >>],
  \* 11: Los Angeles, 2007 (first year of the new rules): 2007-03-11 10:00Z, 2007-11-04 09:00Z
  [zone |-> "America/Los_Angeles", conn |-> 1173607199, disc |-> 1173607200, done |-> <<1194166799>>,
   mod |-> 1194166800, req |-> 1194170400, cc |-> <<>>, ps |-> <<>>],
  \* 12: London, leap day and year end
  [zone |-> "Europe/London", conn |-> 1582934399, disc |-> 1582934400, done |-> <<1583020800>>,
   mod |-> 1577836799, req |-> 1577836800, cc |-> << <<1582934399, 1582934400>> >>, ps |-> << <<1583020799>> >>]
>>

\* ---- calls
NoV == <<>>
GS(site, cond, project, sort, ts) ==
    [api |-> "get_sessions", site |-> site, cond |-> cond, project |-> project, sort |-> sort, ts |-> ts,
     start |-> NoV, end |-> NoV, minE |-> NoV, count |-> FALSE]
BT(site, start, end, minE, ts, count) ==
    [api |-> "get_sessions_by_time", site |-> site, cond |-> NoV, project |-> NoV, sort |-> NoV, ts |-> ts,
     start |-> start, end |-> end, minE |-> minE, count |-> count]
CS(site, cond) ==
    [api |-> "count_sessions", site |-> site, cond |-> cond, project |-> NoV, sort |-> NoV, ts |-> FALSE,
     start |-> NoV, end |-> NoV, minE |-> NoV, count |-> TRUE]

C1 == <<"kWhDelivered >= 10">>
C2 == <<"connectionTime >= \"Wed, 25 Apr 2018 11:08:04 GMT\" and spaceID == \"CA-496\"">>
P1 == <<"{\"kWhDelivered\": 1, \"spaceID\": 1}">>
S1 == <<"connectionTime">>
S2 == <<"-kWhDelivered">>
\* aware datetimes for the time window: 01:59:59 PDT just before the 2018 switch back; 03:00:00 PDT just
\* after the 2019 switch forward; local New Year's midnight in Kolkata
A1 == <<[zone |-> "America/Los_Angeles", t |-> 1541321999]>>
A2 == <<[zone |-> "America/Los_Angeles", t |-> 1552212000]>>
A3 == <<[zone |-> "Asia/Kolkata", t |-> 1577817000]>>
A4 == <<[zone |-> "Europe/London", t |-> 1553994000]>>

CallsQuick == {
    GS("caltech", NoV, NoV, NoV, FALSE), GS("jpl", C1, NoV, S1, FALSE), GS("office001", C2, P1, S2, TRUE),
    GS("caltech", NoV, P1, NoV, TRUE), GS("Caltech", C1, NoV, NoV, FALSE), GS("ucla", NoV, NoV, S1, TRUE),
    BT("caltech", A1, A2, <<5>>, FALSE, FALSE), BT("jpl", NoV, NoV, NoV, FALSE, FALSE),
    BT("office001", A3, NoV, NoV, TRUE, FALSE), BT("caltech", NoV, A4, <<12>>, FALSE, FALSE),
    BT("office001", NoV, A2, <<5>>, FALSE, TRUE), BT("ucla", A1, NoV, NoV, FALSE, FALSE),
    BT("ucla", NoV, NoV, NoV, FALSE, TRUE),
    \* a bound of 0 kWh is a bound ("sessions that received any energy"), not "no bound"
    BT("caltech", A1, NoV, <<0>>, FALSE, FALSE), BT("jpl", NoV, NoV, <<0>>, FALSE, TRUE),
    CS("caltech", NoV), CS("jpl", C1), CS("ucla", C1) }

CallsLive == {
    GS("jpl", C1, NoV, S1, FALSE), GS("ucla", NoV, NoV, S1, TRUE), BT("office001", A3, NoV, NoV, TRUE, FALSE),
    BT("office001", NoV, A2, <<5>>, FALSE, TRUE), CS("ucla", C1) }

SitesAll == {"caltech", "jpl", "office001", "Caltech", "ucla"}
CallsAll ==
    {GS(s, c, p, o, b) : s \in SitesAll, c \in {NoV, C1, C2}, p \in {NoV, P1}, o \in {NoV, S1, S2}, b \in BOOLEAN}
    \cup {BT(s, a, e, m, b, n) : s \in {"caltech", "office001", "ucla"}, a \in {NoV, A1, A3}, e \in {NoV, A2, A4},
                                 m \in {NoV, <<5>>, <<0>>}, b \in BOOLEAN, n \in BOOLEAN}
    \cup {CS(s, c) : s \in {"caltech", "jpl", "ucla"}, c \in {NoV, C1, C2}}

=============================================================================
