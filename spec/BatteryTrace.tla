---------------------------- MODULE BatteryTrace ----------------------------
(***************************************************************************)
(* Code -> spec: validation of logged executions of the real battery       *)
(* classes against the physical envelope InEnvelope of Battery.tla.        *)
(*                                                                         *)
(* The harness drives real Battery / Linear2StageBattery objects (through  *)
(* EVSE.set_pilot -> EV.charge, with REAL numpy noise and random,          *)
(* off-lattice parameters) and logs one line per call,                     *)
(*   [tid, c0, c1, e, pe, me]                                              *)
(* in fine units of the battery's own capacity (capacity = CAP), every     *)
(* float rounded outward to an integer interval <<floor, ceil>> (pe, me:   *)
(* ceil):  c0 / c1 stored charge before / after, e energy the returned     *)
(* rate amounts to, pe / me pilot / max-power energy of the call.          *)
(* All traces of a batch are concatenated; tid changes where a new battery *)
(* starts.  The state variables are those of Battery.tla: after line i     *)
(* [lo, hi] is the logged charge, [eLo, eHi] the logged energy.            *)
(*                                                                         *)
(* A line is accepted iff the logged intervals contain integers that       *)
(* satisfy the envelope (one fine unit = 2.4e-8 of the capacity is the     *)
(* resolution) and the call starts from the charge the previous call left. *)
(* Rejected lines are collected (with the envelope conjunct that fails)    *)
(* and printed at the end; validation continues after a rejection.         *)
(***************************************************************************)
EXTENDS Battery

Trace == ndJsonDeserialize("battery_trace.ndjson")

VARIABLES i,    \* next line
          tid,  \* trace the last line belonged to
          rej   \* rejected lines so far

tvars == <<vars, i, tid, rej>>

Dummy == [kind |-> "ideal", init |-> 0, mn |-> 0, md |-> 1, tn |-> 1, td |-> 1, noisy |-> FALSE]

TraceInit ==
    /\ i = 1 /\ tid = -1 /\ rej = <<>>
    /\ bat = Dummy /\ lo = 0 /\ hi = 0 /\ eLo = 0 /\ eHi = 0 /\ dLo = 0 /\ dHi = 0 /\ pE = 0 /\ mE = 0
    /\ dec = TRUE /\ tab = <<>> /\ base = 0 /\ nops = 0 /\ last = "init" /\ hist = <<>>

\* the envelope, on intervals: do integers in the logged intervals satisfy it?
Fits(r) ==
    \E c \in r.c0[1]..r.c0[2], e \in r.e[1]..r.e[2], c2 \in r.c1[1]..r.c1[2] :
        InEnvelope(CAP, c, c2, e, r.pe, r.me) /\ Abs(c2 - c - e) <= 1
Continues(r) == r.tid = tid => r.c0 = <<lo, hi>>

\* which conjunct of the envelope cannot be satisfied (for the report)
Why(r) ==
    IF ~Continues(r) THEN "starts-from-other-charge"
    ELSE IF r.e[2] < 0 THEN "negative-rate"
    ELSE IF r.e[1] > r.pe THEN "rate-above-pilot"
    ELSE IF r.e[1] > r.me THEN "power-above-max"
    ELSE IF r.c1[2] < r.c0[1] THEN "charge-decreases"
    ELSE IF r.c1[1] > CAP THEN "charge-above-capacity"
    ELSE "returned-rate-vs-stored-charge"

Take(r) ==
    /\ lo' = r.c1[1] /\ hi' = r.c1[2] /\ eLo' = r.e[1] /\ eHi' = r.e[2] /\ pE' = r.pe /\ mE' = r.me
    /\ tid' = r.tid /\ i' = i + 1 /\ nops' = nops + 1 /\ last' = "charge"
    /\ UNCHANGED <<bat, dLo, dHi, dec, tab, base, hist>>

Accept == i <= Len(Trace) /\ LET r == Trace[i] IN Continues(r) /\ Fits(r) /\ Take(r) /\ UNCHANGED rej
Reject == i <= Len(Trace) /\ LET r == Trace[i] IN
              /\ ~(Continues(r) /\ Fits(r)) /\ Take(r)
              /\ rej' = Append(rej, [line |-> i, tid |-> r.tid, why |-> Why(r)])
Done ==
    /\ i = Len(Trace) + 1 /\ last # "emitted"
    /\ PrintT(<<"REJ", ToJson([lines |-> Len(Trace), rejected |-> rej])>>)
    /\ last' = "emitted"
    /\ UNCHANGED <<bat, lo, hi, eLo, eHi, dLo, dHi, pE, mE, dec, tab, base, nops, hist, i, tid, rej>>
TraceTerminated == last = "emitted" /\ UNCHANGED tvars

TraceNext == Accept \/ Reject \/ Done \/ TraceTerminated
TraceSpec == TraceInit /\ [][TraceNext]_tvars

\* every accepted line leaves a state in which the C03 bounds of Battery.tla hold for some
\* integers of the logged intervals (this is Fits again, as a state predicate)
AcceptedWithinBounds ==
    (last = "charge" /\ (rej = <<>> \/ rej[Len(rej)].line # i - 1)) =>
        /\ eHi >= 0 /\ eLo <= pE /\ eLo <= mE /\ lo <= CAP
=============================================================================
