----------------------------- MODULE AcnSimStep -----------------------------
(***************************************************************************)
(* The second entry point of the simulator, Simulator.step(new_schedule)   *)
(* (gym-style stepping: the caller supplies the schedule, there need be no *)
(* scheduler), over the same state as AcnSim.tla and built from the same   *)
(* pieces (UpdateAt, ApplyAt, ProcE).  One call of step() is               *)
(*                                                                         *)
(*   StepCall(m)   the caller passes schedule number m                     *)
(*   SLoop         the while-test:  queue not empty  and  not _resolve     *)
(*                 and (max_recompute is None                              *)
(*                      or iteration - _last_schedule_update < max_rec.)   *)
(*                 false: step() returns  event_queue.empty()              *)
(*   SLoopError    the test itself raises TypeError (max_recompute set but *)
(*                 no schedule update has happened yet: iteration - None)  *)
(*   SUpdate       _update_schedules + bookkeeping          (= UpdateAt)   *)
(*   SApply        update_pilots, store rates, post_charging_update,       *)
(*                 iteration += 1                           (= ApplyAt)    *)
(*   SEvents       get_current_events(iteration)   -- AFTER the increment  *)
(*   SProc         one _process_event                       (= ProcE)      *)
(*                                                                         *)
(* This module models what the code does, including two behaviours that    *)
(* differ from run() and that the listed properties do not speak about:    *)
(*                                                                         *)
(*  * events are fetched after the period was applied, so an event with    *)
(*    timestamp 0 is handled in period 1 (LateOnlyAtZero);                 *)
(*  * every processed event sets _resolve, the while-test requires         *)
(*    not _resolve, and only the loop body clears it: after the first      *)
(*    event step() returns at once, forever (StepStuck);                   *)
(*  * a session arriving at 0 and followed back-to-back on its station     *)
(*    makes step() raise StationOccupiedError (SProcOccupied).             *)
(*    The model makes these visible instead of idealising them away.       *)
(***************************************************************************)
EXTENDS AcnSim

StartStep(R, mr) ==
    /\ pc = "Setup" /\ R \in RecompSets /\ mr \in MRSet
    /\ Len(sess) > 0 \/ R # {}
    /\ ExtraOK(R)
    /\ recomp' = R /\ MR' = mr
    /\ queue' = {[kind |-> "Plugin", ts |-> sess[i].arr, id |-> i] : i \in 1..Len(sess)}
                \cup ExtraEvents(R)
    /\ pc' = "SIdle"
    /\ hist' = Log([a |-> "start", sess |-> sess, recomp |-> R, volt |-> Volt, T |-> T,
                    mr |-> mr, ns |-> NS, vl |-> VL, menu |-> Menu, kindtab |-> KindTab,
                    accepts |-> [k \in DOMAIN KindDefs |-> MenuAcceptedBy(k, Menu)]])
    /\ UNCHANGED <<sess, t, resolve, lastUpd, batch, occ, evsePilot, pilots, dE, evE, chg,
                   lastE, peakN, evHist, seen, schedHist, sigma, ghost>>

\* the caller invokes step(schedule m); calls are counted in ncrash (a ghost) to bound the model
StepCall(m) ==
    /\ pc = "SIdle" /\ m \in MenuIds /\ Good(m) /\ ncrash < MaxCrash
    /\ sigma' = m /\ pc' = "SLoop" /\ ncrash' = ncrash + 1
    /\ hist' = Log([a |-> "step", m |-> m])
    /\ UNCHANGED <<durable, subs, invLog, snap, resumed>>

LoopTestRaises == queue # {} /\ ~resolve /\ MR # 0 /\ lastUpd = -1
LoopTest == queue # {} /\ ~resolve /\ (MR = 0 \/ t - lastUpd < MR)

Snapshot == [a |-> "ret", done |-> (queue = {}), t |-> t, pilots |-> pilots, dE |-> dE, evE |-> evE,
             chg |-> chg, peakN |-> peakN, occ |-> occ, nev |-> Len(evHist),
             qlen |-> Cardinality(queue), resolve |-> resolve, schedHist |-> schedHist]

SLoop ==
    /\ pc = "SLoop" /\ ~LoopTestRaises
    /\ IF LoopTest THEN pc' = "SUpdate" /\ hist' = hist
       ELSE pc' = "SIdle" /\ hist' = Log(Snapshot)          \* step() returns queue.empty()
    /\ UNCHANGED <<durable, sigma, ghost>>

SLoopError ==
    /\ pc = "SLoop" /\ LoopTestRaises
    /\ pc' = "SIdle" /\ hist' = Log([a |-> "typeerror", t |-> t])
    /\ UNCHANGED <<durable, sigma, ghost>>

SUpdate == UpdateAt("SUpdate", "SApply")
SApply == ApplyAt(IdealE, "SApply", "SEvents")

SEvents ==
    /\ pc = "SEvents"
    /\ LET due == {e \in queue : e.ts <= t}
       IN batch' = SortEvents(due) /\ queue' = queue \ due /\ pc' = "SProc"
    /\ UNCHANGED <<sess, recomp, MR, t, resolve, lastUpd, occ, evsePilot, pilots, dE, evE, chg,
                   lastE, peakN, evHist, seen, schedHist, sigma, ghost, hist>>

SProc ==
    /\ pc = "SProc"
    /\ IF batch = <<>>
       THEN /\ pc' = "SLoop"
            /\ UNCHANGED <<batch, queue, occ, evsePilot, seen, resolve, lastUpd, evHist>>
       ELSE /\ pc' = "SProc" /\ ProcE(Head(batch), Tail(batch))
    /\ UNCHANGED ProcRest

\* Because events are fetched late, a session that arrives at 0 and is followed back-to-back on
\* the same station is still plugged in when its successor's Plugin (same batch) is processed:
\* network.plugin raises StationOccupiedError, which leaves step().  The event was already appended
\* to the event history; the rest of the batch (a local variable of step) is lost.
SProcOccupied ==
    /\ pc = "SProc" /\ batch # <<>>
    /\ LET e == Head(batch) IN
       /\ e.kind = "Plugin" /\ occ[sess[e.id].st] # 0
       /\ evHist' = Append(evHist, [kind |-> e.kind, ts |-> e.ts, id |-> e.id, at |-> t])
    /\ batch' = <<>> /\ pc' = "SIdle"
    /\ hist' = Log([a |-> "occupied", t |-> t])
    /\ UNCHANGED <<sess, recomp, MR, queue, t, resolve, lastUpd, occ, evsePilot, pilots, dE, evE,
                   chg, lastE, peakN, seen, schedHist, sigma, ghost>>

\* hand the behaviour to the replay harness (at any point between two calls)
SFinish ==
    /\ pc = "SIdle"
    /\ IF Rec /\ hist # <<>> THEN hist[Len(hist)].a \in {"ret", "typeerror", "occupied"} ELSE TRUE
    /\ ncrash = MaxCrash \/ queue = {}
    /\ IF Rec THEN PrintT(<<"BHV", ToJson(hist)>>) ELSE TRUE
    /\ pc' = "Emitted"
    /\ UNCHANGED <<durable, sigma, ghost, hist>>

StepNext ==
    \/ \E v \in SessVals : AddSession(v)
    \/ \E R \in RecompSets, mr \in MRSet : StartStep(R, mr)
    \/ \E m \in MenuIds : StepCall(m)
    \/ SLoop \/ SLoopError \/ SUpdate \/ SApply \/ SEvents \/ SProc \/ SProcOccupied
    \/ SFinish \/ Terminated

StepSpec == Init /\ [][StepNext]_vars

-----------------------------------------------------------------------------
\* What carries over from run(): the ledger, the pilots, plug-in discipline
\* (TypeOK, EventOrder, PlugOnce, OneOccupant, Ledger, VacantZero, NotYetZero, PeakIsMax,
\*  RateBounds, PilotsMatchSubmissions are INVARIANTs of the step configuration as well).

\* What does not: events are handled after the increment, so only timestamp 0 is late.
LateOnlyAtZero ==
    \A a \in 1..Len(evHist) : evHist[a].at = (IF evHist[a].ts = 0 THEN 1 ELSE evHist[a].ts)

\* A session is connected from the period after its Plugin was handled.
StepConnected ==
    pc = "SApply" => \A i \in 1..N : occ[sess[i].st] = i => sess[i].arr <= t

\* Once an event has been processed the loop condition can never hold again:
\* step() returns immediately and changes nothing.
StepStuck == [][(pc = "SLoop" /\ resolve) => (pc' = "SIdle" /\ UNCHANGED durable)]_vars
ResolveIsForever == [][resolve => resolve']_vars

\* At most one schedule update per period, and only inside the loop.
StepUpdatesOncePerPeriod == \A a, b \in 1..Len(invLog) : a # b => invLog[a] # invLog[b]

\* What step() returns is whether the queue is empty at that moment - nothing else.
StepReturnHonest ==
    (Rec /\ hist # <<>> /\ hist[Len(hist)].a = "ret" /\ pc = "SIdle")
        => hist[Len(hist)].done = (queue = {})
=============================================================================
