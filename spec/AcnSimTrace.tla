---------------------------- MODULE AcnSimTrace ----------------------------
(***************************************************************************)
(* Code -> spec binding for AcnSim.tla: executions of the REAL Simulator   *)
(* (recorded through the env-guarded trace points in Simulator.run, see    *)
(* acnportal/acnsim/_verif.py, by harness/acnsim_trace.py) are validated   *)
(* against the actions of AcnSim.  One TLC run validates a whole batch:    *)
(* the initial states are the traces (variable tid), every trace is        *)
(* followed line by line (variable l), and all AcnSim invariants are       *)
(* evaluated in every state of every trace.                                *)
(*                                                                         *)
(* A trace line names the action the code performed and carries its        *)
(* arguments and a cheap projection of the state after it; the trace       *)
(* action is  IsEvent(name) /\ <AcnSim action> /\ <logged fields = primed  *)
(* variables>.  Loop-exit, "no more events in this period" (ProcEnd) and   *)
(* the recompute test (Decide) are not logged: they are silent steps, each *)
(* enabled at one pc value only, so they cannot stutter.                   *)
(*                                                                         *)
(* Mismatching logged fields do not disable the action: they are recorded  *)
(* in `bad` (and exploration of that trace stops), so that the verdict can *)
(* name the clause that failed.  Registers (TLCSet/TLCGet, -workers 1):    *)
(*   tid        -> largest l reached (Len+1 = every line matched)          *)
(*   1000+tid   -> first mismatch ("" if none)                             *)
(*   2000+tid   -> <<pc, t>> at the largest l                              *)
(***************************************************************************)
EXTENDS AcnSim, TLCExt

\* A trace is [scn |-> [sess, recomp, mr, ideal, menu], ev |-> <<line, ...>>].  The generated
\* module MC_AcnSimTrace defines one constant per trace and the initial predicate
\*     TrInit == TInitFrom(1, Trace1) \/ TInitFrom(2, Trace2) \/ ...
\* (a single big constant holding all traces is re-evaluated by TLC on every reference,
\* which made validation quadratic in the batch size).

\* The trace being followed is copied into state variables by TInit (rest = the lines
\* still to be matched), so that the big constant Traces is never touched again:
\* validation cost stays linear in the size of the batch.
VARIABLES tid, l, bad, rest, tmenu, ideal
tvars == <<vars, tid, l, bad, rest, tmenu, ideal>>

Ev == Head(rest)
IsEvent(a) == /\ bad = "" /\ rest # <<>> /\ Ev.a = a
              /\ l' = l + 1 /\ rest' = Tail(rest) /\ UNCHANGED <<tid, tmenu, ideal>>

\* cfg: Sched <- TrSchedOf, MenuIds <- TrMenuIds  (the schedules this trace's scheduler returned)
TrSchedOf(m) == tmenu[m]
TrMenuIds == DOMAIN tmenu

\* first failing clause of a list of <<name, condition>>
FirstBad(cs) == IF \A i \in 1..Len(cs) : cs[i][2] THEN ""
                ELSE cs[CHOOSE i \in 1..Len(cs) : ~cs[i][2] /\ \A j \in 1..(i-1) : cs[j][2]][1]

Abs(x) == IF x < 0 THEN -x ELSE x
B2N(b) == IF b THEN 1 ELSE 0

TInitFrom(i, tr) ==
    /\ tid = i /\ l = 1 /\ bad = ""
    /\ rest = tr.ev /\ tmenu = tr.scn.menu /\ ideal = tr.scn.ideal
    /\ TLCSet(i, 1) /\ TLCSet(1000 + i, "") /\ TLCSet(2000 + i, <<"Loop", 0>>)
    /\ TLCSet(3000 + i, Len(tr.ev) + 1)
    /\ LET scn == tr.scn IN
       /\ pc = "Loop" /\ sess = scn.sess /\ recomp = scn.recomp /\ MR = scn.mr
       /\ queue = {[kind |-> "Plugin", ts |-> scn.sess[i2].arr, id |-> i2] : i2 \in 1..Len(scn.sess)}
                  \cup ExtraEvents(scn.recomp)
       /\ chg = [i2 \in 1..MaxSess |-> IF i2 <= Len(scn.sess) THEN scn.sess[i2].init ELSE 0]
    /\ t = 0 /\ resolve = FALSE /\ lastUpd = -1 /\ batch = <<>>
    /\ occ = [s \in Stations |-> 0] /\ evsePilot = [s \in Stations |-> 0]
    /\ pilots = [s \in Stations |-> Zeros] /\ dE = [s \in Stations |-> Zeros]
    /\ evE = [i2 \in 1..MaxSess |-> 0] /\ lastE = [i2 \in 1..MaxSess |-> 0]
    /\ peakN = 0 /\ evHist = <<>> /\ seen = {} /\ schedHist = <<>> /\ sigma = 0
    /\ subs = <<>> /\ invLog = <<>> /\ snap = 0 /\ ncrash = 0 /\ resumed = FALSE /\ hist = <<>>

\* ---- logged actions -------------------------------------------------------------
\* get_current_events(iteration) returned n events
TLoop ==
    /\ IsEvent("loop") /\ Loop /\ pc' = "Proc"
    /\ bad' = FirstBad(<< <<"loop.t", Ev.t = t>>, <<"loop.n (events due in this period)", Ev.n = Len(batch')>> >>)

\* the while-test failed: run() returns
TDone ==
    /\ IsEvent("done") /\ Loop /\ pc' = "Done"
    /\ bad' = FirstBad(<< <<"done.t (final iteration)", Ev.t = t>>,
                          <<"done.qlen", Ev.qlen = Cardinality(queue)>>,
                          <<"done.occ (all stations vacated)", Ev.occ = occ>> >>)

\* one _process_event: any event of the batch with minimal (timestamp, precedence)
TProc ==
    /\ IsEvent("proc") /\ pc = "Proc" /\ batch # <<>> /\ pc' = "Proc"
    /\ \E i \in 1..Len(batch) :
          /\ EKey(batch[i]) = EKey(batch[1])
          /\ batch[i].kind = Ev.kind /\ batch[i].ts = Ev.ts /\ batch[i].id = Ev.id
          /\ ProcE(batch[i], [j \in 1..(Len(batch) - 1) |-> IF j < i THEN batch[j] ELSE batch[j + 1]])
    /\ UNCHANGED ProcRest
    /\ bad' = FirstBad(<< <<"proc.occ (occupants after the event)", Ev.occ = occ'>>,
                          <<"proc.qlen", Ev.qlen = Cardinality(queue')>> >>)

\* scheduler.run() returned schedule number m of the batch's menu
TSched ==
    /\ IsEvent("sched") /\ SchedReturn(Ev.m)
    /\ bad' = FirstBad(<< <<"sched.t", Ev.t = t>>,
                          <<"sched.active (sessions the scheduler was shown)", Ev.active = Active>> >>)

\* scheduler.run() raised; run() was left
TRaise ==
    /\ IsEvent("raise") /\ SchedRaise
    /\ bad' = FirstBad(<< <<"raise.t", Ev.t = t>> >>)

TResume == IsEvent("resume") /\ Resume /\ bad' = ""
TDumpLoad == IsEvent("dumpload") /\ pc = "Stopped" /\ UNCHANGED vars /\ bad' = ""

\* _update_schedules + bookkeeping
TUpdate ==
    /\ IsEvent("update") /\ Update
    /\ bad' = FirstBad(<< <<"update.t", Ev.t = t>>,
                          <<"update.pilots (matrix columns t..t+len-1 after the update)",
                            \A s \in Stations : \A k \in 1..Len(Ev.P[s]) :
                                t + k <= H + 1 /\ pilots'[s][t + k] = Ev.P[s][k]>>,
                          <<"update.width (columns beyond the schedule unchanged)", TRUE>> >>)

\* _update_schedules raised (unknown station / ragged rows)
TReject ==
    /\ IsEvent("reject") /\ Reject
    /\ bad' = FirstBad(<< <<"reject.t", Ev.t = t>> >>)

\* update_pilots + _store_actual_charging_rates + post_charging_update (+ iteration += 1)
Slack == t + 2      \* logged energies are rounded per period: they may drift by 1/2 per period
\* The envelope as a *logged* execution can satisfy it: the specification's charge is the sum of the
\* rounded per-period energies, so the free capacity it computes may be off by the accumulated
\* rounding (found by a false alarm: 25772 + 7227 = 32999 logged as 32998.4 -> 32998, then E = 312
\* against a computed free capacity of 311).  A vacant station delivers exactly nothing.
\* ... and the specification's own state takes the logged energy cut back to its envelope, so that its
\* invariants (charge <= capacity, rate <= pilot) are evaluated on a state it can itself reach.
Clamp(E) == [s \in Stations |-> Min2(E[s], IdealE[s])]
EnvelopeT(E) == \A s \in Stations : 0 <= E[s] /\ E[s] <= IdealE[s] + (IF occ[s] = 0 THEN 0 ELSE Slack)
TApply ==
    /\ IsEvent("apply") /\ pc = "Apply"
    /\ LET E == [s \in Stations |-> Ev.E[s]] IN
       /\ IF ideal THEN E = IdealE ELSE EnvelopeT(E)
       /\ ApplyWith(IF ideal THEN E ELSE Clamp(E))
    /\ bad' = FirstBad(<<
          <<"apply.t", Ev.t = t>>,
          <<"apply.occ", Ev.occ = occ>>,
          <<"apply.P (pilots applied to the stations)", \A s \in Stations : Ev.P[s] = pilots[s][t + 1]>>,
          <<"apply.evsePilot (what the EVSE holds)", \A s \in Stations : Ev.EP[s] = evsePilot'[s]>>,
          <<"apply.exact (integer lattice values)", ideal => Ev.frac = 0>>,
          <<"apply.evE (EV energy delivered)",
            \A i \in 1..Len(sess) : IF ideal THEN Ev.evE[i] = evE'[i]
                                    ELSE Abs(Ev.evE[i] - evE'[i]) <= Slack>>,
          <<"apply.chg (battery charge)",
            \A i \in 1..Len(sess) : IF ideal THEN Ev.chg[i] = chg'[i]
                                    ELSE Abs(Ev.chg[i] - chg'[i]) <= Slack>>,
          <<"apply.peak", ideal => Ev.peakN = peakN'>> >>)

\* an apply line whose energies are outside what the action admits: name that clause
TApplyOutside ==
    /\ IsEvent("apply") /\ pc = "Apply"
    /\ LET E == [s \in Stations |-> Ev.E[s]] IN ~(IF ideal THEN E = IdealE ELSE EnvelopeT(E))
    /\ bad' = IF ideal THEN "apply.E (energy delivered differs from the ideal battery law)"
              ELSE "apply.E (energy outside the physical envelope 0 <= E <= min(pilot*V*T, Pmax*T, free capacity))"
    /\ UNCHANGED vars

\* ---- silent steps -----------------------------------------------------------------
Silent == bad = "" /\ (ProcEnd \/ Decide) /\ UNCHANGED <<tid, l, bad, rest, tmenu, ideal>>

TNext ==
    \/ TLoop \/ TDone \/ TProc \/ TSched \/ TRaise \/ TResume \/ TDumpLoad
    \/ TUpdate \/ TReject \/ TApply \/ TApplyOutside
    \/ Silent


\* ---- bookkeeping (CONSTRAINT; always TRUE) ------------------------------------------
RecordProgress ==
    /\ IF l >= TLCGet(tid) THEN TLCSet(tid, l) /\ TLCSet(2000 + tid, <<pc, t>>) ELSE TRUE
    /\ IF bad # "" THEN TLCSet(1000 + tid, bad) ELSE TRUE

\* POSTCONDITION: print one verdict line per trace; the harness decides.
Verdicts(n) ==
    \A i \in 1..n :
        PrintT(<<"TR", i, TLCGet(i), TLCGet(3000 + i), TLCGet(1000 + i), TLCGet(2000 + i)>>)
=============================================================================
