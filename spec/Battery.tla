------------------------------ MODULE Battery ------------------------------
(***************************************************************************)
(* The battery models of acnportal/acnsim/models/battery.py as one state   *)
(* machine:                                                                *)
(*                                                                         *)
(*   "ideal"       Battery.charge                                          *)
(*   "stepwise"    Linear2StageBattery(charge_calculation="stepwise")      *)
(*   "continuous"  Linear2StageBattery(charge_calculation="continuous")    *)
(*                                                                         *)
(* State: the stored charge (Battery._current_charge), the energy drawn in *)
(* the last call (Battery.current_charging_power * period = returned rate  *)
(* * voltage * period) and the energy delivered since the last reset       *)
(* (EV.energy_delivered of the EV that carries the battery).  Actions:     *)
(* Charge(P, d, Z) = one call charge(pilot, voltage, period) (reached in   *)
(* the simulator through EVSE.set_pilot -> EV.charge -> Battery.charge)    *)
(* and Reset = EV.reset()/Battery.reset().                                 *)
(*                                                                         *)
(* UNITS.  Everything is an integer multiple of one "fine unit" of energy; *)
(* the capacity of every battery is CAP fine units (CAP = 2^16 * 5^4).     *)
(* Only RATIOS are modelled: a pilot is given as the energy P it would     *)
(* deliver in one full period (P = pilot*voltage*period, in fine units),   *)
(* the maximum power as the energy M = CAP*mn/md it delivers in one full   *)
(* period, a noise draw as the energy Z = draw*period (signed).  The       *)
(* harness maps one lattice point to several physical (capacity kWh,       *)
(* voltage V, period min) triples; the state of charge must not depend on  *)
(* that choice.  A call lasts d half-periods (d = 2 is "the" period T,     *)
(* d = 1 is T/2, d = 4 is 2T), which is what the period-splitting and      *)
(* monotone-in-T theorems of C14 vary.                                     *)
(*                                                                         *)
(* EXACT AND BRACKETED LAWS.  The charge is kept as a bracket [lo, hi]     *)
(* that contains the real number the law defines.  The ideal law and the   *)
(* stepwise law are piecewise linear; on the lattice used almost every     *)
(* division is exact and then lo = hi (the harness compares to 1e-9).  The *)
(* documented continuous law                                               *)
(*                                                                         *)
(*    d soc/dt = min(p, m) while soc < tau',   m*(1-soc)/(1-tau) after     *)
(*    (tau' is where both expressions meet: the rate is                    *)
(*     min(min(p,m), m*(1-soc)/(1-tau)) everywhere)                        *)
(*                                                                         *)
(* has an exponential solution that TLA+ cannot express.  It is enclosed   *)
(* rigorously: the right-hand side f(soc) is non-increasing in soc, so     *)
(*    explicit Euler   x = c + h*f(c)   is an UPPER bound,                 *)
(*    implicit Euler   x = c + h*f(x)   is a LOWER bound                   *)
(* of the exact flow over a micro-step h; both maps are monotone in c      *)
(* (the explicit one as long as h*|f'| <= 1, ASSUMEd below), and every     *)
(* division is rounded outward.  K micro-steps per call.                   *)
(***************************************************************************)
EXTENDS Integers, Sequences, FiniteSets, TLC, Json, SequencesExt

CONSTANTS
    CAP,        \* fine units per battery capacity
    K,          \* Euler micro-steps per charge call (a power of two)
    Bats,       \* battery descriptions: [kind, init, mn, md, tn, td, noisy]
                \*   init      initial charge (fine units, <= CAP)
                \*   mn/md     max power * full period / capacity
                \*   tn/td     1 - transition_soc   (tn = td = 1 for "ideal")
                \*   noisy     noise_level > 0
    Pilots,     \* pilot energies per full period (fine units); contains 0
    Durs,       \* call durations in half-periods, subset of {1, 2, 4}
    Noises,     \* noise draws (energy per full period, signed) for noisy batteries
    MaxOps,     \* length of the call sequences
    AllowReset, \* BOOLEAN: Reset is one of the calls
    Probing,    \* BOOLEAN: keep the probe table (C14 configurations; needs noise-free batteries)
    ProbeDurs,  \* durations the probe table covers (superset of Durs)
    Rec         \* BOOLEAN: keep the history variable and emit behaviours

M(b) == (CAP \div b.md) * b.mn       \* energy at maximum power over one full period
RECURSIVE GCD(_, _)
GCD(x, y) == IF y = 0 THEN x ELSE GCD(y, x % y)
\* m/(1-tau) = A/B in lowest terms: the slope of the declining maximum power
A(b) == (b.mn * b.td) \div GCD(b.mn * b.td, b.md * b.tn)
B(b) == (b.md * b.tn) \div GCD(b.mn * b.td, b.md * b.tn)

ASSUME /\ CAP \in Nat /\ K \in Nat \ {0} /\ MaxOps \in Nat
       /\ Durs \subseteq {1, 2, 4} /\ ProbeDurs \subseteq {1, 2, 4} /\ (Probing => Durs \subseteq ProbeDurs)
       /\ 0 \in Pilots
       \* lattice divisibility: pilot / max-power energy of one micro-step is an integer
       /\ \A P \in Pilots : P \in Nat /\ P % (2 * K) = 0
       /\ \A Z \in Noises : Z % 2 = 0
       /\ \A b \in Bats :
            /\ b.kind \in {"ideal", "stepwise", "continuous"}
            /\ CAP % b.md = 0 /\ M(b) % (2 * K) = 0
            /\ 0 <= b.init /\ b.init <= CAP
            /\ 0 < b.tn /\ b.tn <= b.td            \* transition_soc in [0, 1)
            \* 32-bit arithmetic: (CAP - c) * A(b) must not overflow
            /\ A(b) <= 2147483647 \div CAP
            \* Euler maps are monotone: micro-step * slope <= 1
            /\ \A d \in Durs \cup ProbeDurs : A(b) * d <= B(b) * 2 * K /\ (2 * K) % d = 0
            \* stepwise tail term (CAP - c) * A * d / (2B) is only formed when A*d < 2B
            /\ \A d \in Durs \cup ProbeDurs : A(b) * d >= 2 * B(b) \/ A(b) * d <= 2147483647 \div CAP
            /\ Probing => ~b.noisy

VARIABLES
    bat,        \* the battery under test (chosen in Init)
    lo, hi,     \* bracket of Battery._current_charge
    eLo, eHi,   \* bracket of the energy drawn by the last call
    dLo, dHi,   \* bracket of the energy delivered since the last reset (EV.energy_delivered)
    pE, mE,     \* pilot energy / max-power energy of the last call (what C03 bounds eHi by)
    dec,        \* FALSE once a floating-point implementation could legitimately take the other
                \*   branch of a discontinuous law (stepwise + noise exactly at transition_soc)
    tab,        \* auxiliary (Probing only): the law's answer to EVERY call (P, d) from the current
                \*   bracket, tab[<<P, d>>] = <<E(lo) down, E(lo) up, E(hi) down, E(hi) up>>.  Computed
                \*   once per state: the C14 theorems are statements about this table, Charge reads
                \*   its result from it, and the harness runs every entry against the real code.
    base,       \* the charge the battery was last reset to: bat.init, unless reset(c) named another one
    nops, last, hist
vars == <<bat, lo, hi, eLo, eHi, dLo, dHi, pE, mE, dec, tab, base, nops, last, hist>>

Abs(x) == IF x < 0 THEN -x ELSE x
Min2(a, b) == IF a <= b THEN a ELSE b
Max2(a, b) == IF a >= b THEN a ELSE b
Min3(a, b, c) == Min2(a, Min2(b, c))
CDiv(a, b) == (a + b - 1) \div b            \* ceiling, for a >= 0, b > 0
Div(a, b, dir) == IF dir = "up" THEN CDiv(a, b) ELSE a \div b

Half(E, d) == (E * d) \div 2                \* energy over d half-periods; E is even (ASSUME)
Micro == [i \in 1..K |-> i]

-----------------------------------------------------------------------------
(* Battery.charge: min(pilot power, max power, power that exactly fills)   *)
IdealE(b, c, P, d) == Min3(Half(P, d), Half(M(b), d), CAP - c)

-----------------------------------------------------------------------------
(* Linear2StageBattery._charge_stepwise: the maximum power is evaluated    *)
(* once, at the state of charge at the start of the call.                  *)
InTail(b, c) == c * b.td >= (b.td - b.tn) * CAP        \* not (soc < transition_soc)
AtTau(b, c) == c * b.td = (b.td - b.tn) * CAP

\* (1 - soc)/(1 - tau) * max power * duration.  When the slope A*d/(2B) is >= 1 the term is
\* >= CAP - c, and every min() it occurs in also contains rate_to_full = CAP - c.
TailE(b, c, d, dir) ==
    IF A(b) * d >= 2 * B(b) THEN CAP - c
    ELSE Div((CAP - c) * A(b) * d, 2 * B(b), dir)

StepwiseE(b, c, P, d, Z, dir) ==
    LET pe == Half(P, d)
        me == Half(M(b), d)
        full == CAP - c
        ne == Half(Z, d)
    IN IF ~InTail(b, c)
       THEN LET e == Min3(pe, me, full)
            IN IF b.noisy THEN Max2(e - Abs(ne), 0) ELSE e
       ELSE LET e == Min3(pe, TailE(b, c, d, dir), full)
            IN IF b.noisy THEN Min2(Min2(Max2(e + ne, 0), pe), Min2(me, full)) ELSE e

-----------------------------------------------------------------------------
(* Linear2StageBattery._charge: the documented two-stage law, integrated.   *)
(* Rates are energies per full period; a micro-step lasts h = d/(2K)        *)
(* periods.  With f(c) = min(pc, (CAP - c) * A/B):                          *)
(*   explicit Euler  x = c + h*f(c)   >= exact flow  (f(c(s)) <= f(c))      *)
(*   implicit Euler  x = c + h*f(x)   <= exact flow  (f(c(s)) >= f(x))      *)
(* and x = c + h*f(x) has the closed solution                               *)
(*   x = c + min(h*pc, (CAP - c) * A / ((2K/d)*B + A)).                     *)
(* h*pc is an integer on the lattice (ASSUME); the other term is rounded    *)
(* outward.  Both maps are non-decreasing in c.                             *)
IntUp(b, pc, d, c) ==
    LET pinc == (pc * d) \div (2 * K)
        a == A(b)
        den == ((2 * K) \div d) * B(b)
    IN FoldLeft(LAMBDA acc, i : Min2(acc + Min2(pinc, CDiv((CAP - acc) * a, den)), CAP), c, Micro)
IntDn(b, pc, d, c) ==
    LET pinc == (pc * d) \div (2 * K)
        a == A(b)
        den == ((2 * K) \div d) * B(b) + A(b)
    IN FoldLeft(LAMBDA acc, i : acc + Min2(pinc, ((CAP - acc) * a) \div den), c, Micro)

ContLawE(b, c, P, d, dir) ==
    IF P = 0 THEN 0
    ELSE LET pc == Min2(P, M(b))
         IN (IF dir = "up" THEN IntUp(b, pc, d, c) ELSE IntDn(b, pc, d, c)) - c

\* "subtractive noise": the law minus |noise|, and - this is what C03 demands of every model -
\* never less than nothing.
ContE(b, c, P, d, Z, dir) ==
    LET e == ContLawE(b, c, P, d, dir)
    IN IF b.noisy THEN Max2(e - Abs(Half(Z, d)), 0) ELSE e

-----------------------------------------------------------------------------
\* Energy drawn by one call from charge c; dir = "dn" / "up" is the rounding direction.
Energy(b, c, P, d, Z, dir) ==
    CASE b.kind = "ideal"      -> IdealE(b, c, P, d)
      [] b.kind = "stepwise"   -> StepwiseE(b, c, P, d, Z, dir)
      [] b.kind = "continuous" -> ContE(b, c, P, d, Z, dir)

\* the same without noise (C14 is stated for noise off)
LawE(b, c, P, d, dir) == Energy([b EXCEPT !.noisy = FALSE], c, P, d, 0, dir)

Log(r) == IF Rec THEN Append(hist, r) ELSE hist

Probes == Pilots \X ProbeDurs
ProbeSeq == SetToSeq(Probes)
Row(b, l, h, x) ==
    LET ld == LawE(b, l, x[1], x[2], "dn")
        lu == LawE(b, l, x[1], x[2], "up")
    IN IF l = h THEN <<ld, lu, ld, lu>>
       ELSE <<ld, lu, LawE(b, h, x[1], x[2], "dn"), LawE(b, h, x[1], x[2], "up")>>
\* built entry by entry (an explicit function, not a lazily evaluated [x \in Probes |-> ...]):
\* every integration is done exactly once per state
TableAt(b, l, h) ==
    IF ~Probing THEN <<>>
    ELSE FoldLeft(LAMBDA acc, x : acc @@ (x :> Row(b, l, h, x)), <<>>, ProbeSeq)
TabJson(t) == IF ~Probing THEN {} ELSE {[p |-> x[1], d |-> x[2], v |-> t[x]] : x \in Probes}

Init ==
    /\ bat \in Bats
    /\ lo = bat.init /\ hi = bat.init
    /\ eLo = 0 /\ eHi = 0 /\ dLo = 0 /\ dHi = 0 /\ pE = 0 /\ mE = 0
    /\ dec = TRUE /\ nops = 0 /\ last = "init" /\ base = bat.init
    /\ tab = TableAt(bat, bat.init, bat.init)
    /\ hist = IF Rec THEN <<[op |-> "init", lo |-> bat.init, hi |-> bat.init, eLo |-> 0, eHi |-> 0,
                            dLo |-> 0, dHi |-> 0, dec |-> TRUE, tab |-> TabJson(tab)]>>
              ELSE <<>>

(* One call charge(pilot, voltage, period) from a charge known to lie in    *)
(* [lo, hi].  For every model c |-> c + E(c) is non-decreasing and          *)
(* c |-> E(c) is non-increasing, so                                         *)
(*     new charge in [lo + E_dn(lo), hi + E_up(hi)],                        *)
(*     energy drawn in [E_dn(hi), E_up(lo)];                                *)
(* BracketSound below has TLC confirm this on every transition it takes.    *)
Charge(P, d, Z) ==
    /\ nops < MaxOps
    /\ LET t == IF Probing THEN tab[<<P, d>>] ELSE <<>>
           aDn == IF Probing THEN t[1] ELSE Energy(bat, lo, P, d, Z, "dn")
           aUp == IF Probing THEN t[2] ELSE Energy(bat, lo, P, d, Z, "up")
           bDn == IF Probing THEN t[3] ELSE IF lo = hi THEN aDn ELSE Energy(bat, hi, P, d, Z, "dn")
           bUp == IF Probing THEN t[4] ELSE IF lo = hi THEN aUp ELSE Energy(bat, hi, P, d, Z, "up")
       IN /\ lo' = lo + aDn /\ hi' = hi + bUp
          /\ eLo' = bDn /\ eHi' = aUp
          /\ dLo' = dLo + bDn /\ dHi' = dHi + aUp
    /\ pE' = Half(P, d) /\ mE' = Half(M(bat), d)
    /\ dec' = (dec /\ (bat.kind = "stepwise" /\ bat.noisy =>
                         InTail(bat, lo) = InTail(bat, hi) /\ ~AtTau(bat, lo) /\ ~AtTau(bat, hi)))
    /\ nops' = nops + 1 /\ last' = "charge"
    /\ tab' = TableAt(bat, lo', hi')
    /\ hist' = Log([op |-> "charge", p |-> P, d |-> d, z |-> Z, lo |-> lo', hi |-> hi',
                    eLo |-> eLo', eHi |-> eHi', dLo |-> dLo', dHi |-> dHi', dec |-> dec',
                    tab |-> TabJson(tab')])
    /\ UNCHANGED <<bat, base>>

(* EV.reset(): energy_delivered = 0 and Battery.reset(): charge back to the *)
(* initial charge, charging power 0.                                        *)
Reset ==
    /\ AllowReset /\ nops < MaxOps /\ last \in {"charge", "resetto", "resetbad", "roundtrip"}
    /\ lo' = bat.init /\ hi' = bat.init /\ base' = bat.init
    /\ eLo' = 0 /\ eHi' = 0 /\ dLo' = 0 /\ dHi' = 0 /\ pE' = 0 /\ mE' = 0
    /\ dec' = TRUE
    /\ nops' = nops + 1 /\ last' = "reset"
    /\ tab' = TableAt(bat, bat.init, bat.init)
    /\ hist' = Log([op |-> "reset", lo |-> lo', hi |-> hi', eLo |-> 0, eHi |-> 0, dLo |-> 0, dHi |-> 0,
                    dec |-> TRUE, tab |-> TabJson(tab')])
    /\ UNCHANGED bat

(* Battery.reset(c): the charge is set to c (and the EV's counter is reset   *)
(* with it); this does NOT redefine the initial charge - a later reset()    *)
(* goes back to the charge the battery was constructed with.  reset(c) with *)
(* c above the capacity is refused (ValueError) and changes nothing.        *)
ResetCharges == {0, CAP \div 4, CAP}
ResetTo(c) ==
    /\ AllowReset /\ nops < MaxOps /\ last \in {"init", "charge"}
    /\ lo' = c /\ hi' = c /\ base' = c
    /\ eLo' = 0 /\ eHi' = 0 /\ dLo' = 0 /\ dHi' = 0 /\ pE' = 0 /\ mE' = 0
    /\ dec' = TRUE
    /\ nops' = nops + 1 /\ last' = "resetto"
    /\ tab' = TableAt(bat, c, c)
    /\ hist' = Log([op |-> "resetto", c |-> c, lo |-> c, hi |-> c, eLo |-> 0, eHi |-> 0, dLo |-> 0, dHi |-> 0,
                    dec |-> TRUE, tab |-> TabJson(tab')])
    /\ UNCHANGED bat
ResetRefused ==
    /\ AllowReset /\ nops < MaxOps /\ last = "charge"
    /\ nops' = nops + 1 /\ last' = "resetbad"
    /\ hist' = Log([op |-> "resetbad", c |-> CAP + CAP \div 64, lo |-> lo, hi |-> hi, eLo |-> eLo, eHi |-> eHi,
                    dLo |-> dLo, dHi |-> dHi, dec |-> dec, tab |-> TabJson(tab)])
    /\ UNCHANGED <<bat, lo, hi, eLo, eHi, dLo, dHi, pE, mE, dec, tab, base>>
DoResetTo == \E c \in ResetCharges : ResetTo(c)

(* The battery - alone, and inside its EV at its station - is written to JSON and loaded back; the caller goes on  *)
(* with the loaded objects.  Nothing changes: charge, last power, the EV's counter, and the charge a later reset() *)
(* returns to (`base` is untouched, and Reset still goes to bat.init).                                               *)
RoundTrip ==
    /\ AllowReset /\ nops < MaxOps /\ last \in {"init", "charge", "reset", "resetto"}
    /\ nops' = nops + 1 /\ last' = "roundtrip"
    /\ hist' = Log([op |-> "roundtrip", lo |-> lo, hi |-> hi, eLo |-> eLo, eHi |-> eHi,
                    dLo |-> dLo, dHi |-> dHi, dec |-> dec, tab |-> TabJson(tab)])
    /\ UNCHANGED <<bat, lo, hi, eLo, eHi, dLo, dHi, pE, mE, dec, tab, base>>

Finish ==
    /\ nops = MaxOps /\ last # "emitted"
    /\ IF Rec THEN PrintT(<<"BHV", ToJson([bat |-> bat, cap |-> CAP, k |-> K, ops |-> hist])>>)
       ELSE TRUE
    /\ last' = "emitted"
    /\ UNCHANGED <<bat, lo, hi, eLo, eHi, dLo, dHi, pE, mE, dec, tab, base, nops, hist>>

Terminated == last = "emitted" /\ UNCHANGED vars

DoCharge == \E P \in Pilots, d \in Durs, Z \in (IF bat.noisy THEN Noises ELSE {0}) : Charge(P, d, Z)
Next == DoCharge \/ Reset \/ DoResetTo \/ ResetRefused \/ RoundTrip \/ Finish \/ Terminated

Spec == Init /\ [][Next]_vars

(* The same machine driven by random choices, for sampling long call         *)
(* sequences with `tlc -simulate`: TLC's simulator expands ALL successors of *)
(* a state before it picks one, which here would integrate the law for every *)
(* (pilot, duration, draw); with RandomElement each call has one successor.  *)
(* Same actions, same invariants.                                            *)
SampleCharge ==
    Charge(RandomElement(Pilots), RandomElement(Durs), RandomElement(IF bat.noisy THEN Noises ELSE {0}))
SampleReset == RandomElement(1..4) = 1 /\ Reset
SampleResetTo == RandomElement(1..6) = 1 /\ ResetTo(RandomElement(ResetCharges))
SampleRefused == RandomElement(1..12) = 1 /\ ResetRefused
SampleRoundTrip == RandomElement(1..6) = 1 /\ RoundTrip
SampleNext == SampleCharge \/ SampleReset \/ SampleResetTo \/ SampleRefused \/ SampleRoundTrip \/ Finish \/ Terminated
SampleSpec == Init /\ [][SampleNext]_vars

-----------------------------------------------------------------------------
(* C03  physical bounds, for every model, noise draw and call sequence.     *)
RateNonNegative == eLo >= 0                        \* actual rate >= 0
RateAtMostPilot == eHi <= pE                       \* actual rate <= pilot
PowerAtMostMax == eHi <= mE                        \* drawn power <= max_power
ChargeWithinCapacity == 0 <= lo /\ hi <= CAP /\ (dec => lo <= hi)
ChargeNeverDecreases == [][last' = "charge" => lo' >= lo /\ hi' >= hi]_vars
DeliveredIsStored ==                                \* what the EV counts is what the battery stores
    dec => lo - base <= dHi /\ dLo <= hi - base

(* The physical envelope every battery model has to stay in (it is all the  *)
(* simulator relies on).  The three laws refine it (LawsRefineEnvelope);     *)
(* BatteryTrace.tla validates logged calls of the real classes, with real    *)
(* numpy noise and off-lattice parameters, against the same predicate.       *)
InEnvelope(cap, c, c2, e, pe, me) == 0 <= e /\ e <= pe /\ e <= me /\ c <= c2 /\ c2 <= cap
LawsRefineEnvelope ==
    [][last' = "charge" => /\ InEnvelope(CAP, lo, lo', eLo', pE', mE')
                           /\ InEnvelope(CAP, hi, hi', eHi', pE', mE')]_vars

(* Soundness of the bracket propagation on every transition taken (noise    *)
(* draws included): with lo <= hi,                                          *)
(*   lo + E_dn(lo) <= hi + E_dn(hi),  lo + E_up(lo) <= hi + E_up(hi)   (state map monotone)  *)
(*   E_dn(lo) >= E_dn(hi),            E_up(lo) >= E_up(hi)             (energy antitone)     *)
(* where E_dn(lo) = lo' - lo, E_up(hi) = hi' - hi, E_dn(hi) = eLo', E_up(lo) = eHi'.         *)
BracketSound ==
    [][last' = "charge" /\ dec' =>
          /\ lo' <= hi + eLo' /\ lo + eHi' <= hi'
          /\ lo' - lo >= eLo' /\ eHi' >= hi' - hi
          /\ eLo' <= eHi']_vars

-----------------------------------------------------------------------------
(* C14  the charging laws (noise off), stated about the probe table: every  *)
(* call (P, d) from every reachable state of charge.                        *)
(* v[1], v[2] start from lo (rounded down, up); v[3], v[4] start from hi.   *)
From(i) == IF i <= 2 THEN lo ELSE hi

\* the ideal battery charges at min(pilot power, max power, power that exactly fills it)
IdealIsMinOfThree ==
    bat.kind = "ideal" =>
        \A x \in Probes : \A i \in 1..4 :
            LET e == tab[x][i]
                three == {Half(x[1], x[2]), Half(M(bat), x[2]), CAP - From(i)}
            IN e \in three /\ \A y \in three : e <= y

\* a zero pilot delivers nothing
ZeroPilot == \A d \in ProbeDurs : tab[<<0, d>>] = <<0, 0, 0, 0>>

\* delivered energy is non-decreasing in the pilot and in the period length (each integrator)
Monotone ==
    \A x, y \in Probes : (x[1] <= y[1] /\ x[2] <= y[2]) => \A i \in 1..4 : tab[x][i] <= tab[y][i]

\* the two-stage battery never takes more than the ideal one, and exactly as much as long as the
\* call ends below the transition SoC (constant-power stage)
TwoStageVsIdeal ==
    bat.kind # "ideal" =>
        \A x \in Probes : \A i \in 1..4 :
            LET e == IdealE(bat, From(i), x[1], x[2])
            IN /\ tab[x][i] <= e
               /\ ~InTail(bat, From(i) + e) => tab[x][i] = e

\* in the declining stage the power is below the maximum power scaled by (1-soc)/(1-tau)
\* evaluated at the start of the call (that is the stepwise law, an upper bound of the continuous)
DecliningStage ==
    bat.kind # "ideal" =>
        \A x \in Probes : \A i \in 1..4 :
            InTail(bat, From(i)) => tab[x][i] <= TailE(bat, From(i), x[2], "up") + K
                                                    \* K: one fine unit of outward rounding per micro-step

\* charging for T equals charging for T/2 twice.  Exact for the ideal law; for the continuous
\* law both sides are enclosures of the same number, so they must overlap.  (The stepwise law is
\* the documented coarse approximation and does not have this property.)
Split ==
    bat.kind # "stepwise" =>
        \A P \in Pilots, d \in ProbeDurs :
            (d \in {2, 4} /\ d \div 2 \in ProbeDurs) =>
                LET h == d \div 2
                    m1 == lo + tab[<<P, h>>][1]
                    m2 == hi + tab[<<P, h>>][4]
                    twoLo == m1 + LawE(bat, m1, P, h, "dn")
                    twoHi == m2 + LawE(bat, m2, P, h, "up")
                    oneLo == lo + tab[<<P, d>>][1]
                    oneHi == hi + tab[<<P, d>>][4]
                IN /\ twoLo <= oneHi /\ oneLo <= twoHi
                   /\ bat.kind = "ideal" => twoLo = oneLo /\ twoHi = oneHi

\* the enclosure is tight enough to decide agreement with the law: from an exactly known charge
\* its width is at most WidthPermille/1000 of the energy min(pilot, max power) * duration
WidthPermille == IF K >= 256 THEN 2 ELSE IF K >= 128 THEN 4 ELSE 10
EnclosureTight ==
    lo = hi =>
        \A x \in Probes :
            (tab[x][2] - tab[x][1]) * 1000 <=
                WidthPermille * Min2(Half(x[1], x[2]), Half(M(bat), x[2])) + 2000 * K   \* + rounding
ExactLawsExact ==       \* the ideal law is exact on the lattice
    bat.kind = "ideal" => lo = hi /\ eLo = eHi

\* reset restores the initial state
ResetRestores ==
    last = "reset" => /\ lo = bat.init /\ hi = bat.init /\ eLo = 0 /\ eHi = 0 /\ dLo = 0 /\ dHi = 0
                      /\ Probing => tab = TableAt(bat, bat.init, bat.init)
                      /\ base = bat.init
\* reset(c) sets the charge and nothing else about the battery; a refused reset changes nothing
ResetToSets == last = "resetto" => lo = base /\ hi = base /\ dLo = 0 /\ dHi = 0
RefusedResetChangesNothing == [][last' = "resetbad" => UNCHANGED <<bat, lo, hi, eLo, eHi, dLo, dHi, base>>]_vars
=============================================================================
