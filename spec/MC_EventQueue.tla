---------------------------- MODULE MC_EventQueue ----------------------------
(* Model-checking / plan-generation wrapper of EventQueue.tla: constants as definitions. *)
EXTENDS EventQueue

KindsAll == {"Unplug", "Plugin", "Recompute"}
KindsExt == KindsAll \cup {"Urgent", "Base"}      \* plus plain events with the smallest / the default precedence (sampled plans)
Ts2 == 0..2
Ts3 == 0..3
EvArg(T) == [ts : T, kind : KindsAll]

\* add_events arguments for model checking: the empty list, every pair, and two triples
\* (descending keys: the heap has to sift; equal timestamps in reverse precedence order)
BatchesPairs(T) == {<<>>} \cup {<<a, b>> : a \in EvArg(T), b \in EvArg(T)}
                   \cup {<< [ts |-> 2, kind |-> "Unplug"], [ts |-> 1, kind |-> "Recompute"], [ts |-> 0, kind |-> "Plugin"] >>,
                         << [ts |-> 1, kind |-> "Recompute"], [ts |-> 1, kind |-> "Plugin"], [ts |-> 1, kind |-> "Unplug"] >>}
BatchesPairs2 == BatchesPairs(Ts2)
BatchesPairs3 == BatchesPairs(Ts3)

\* add_events arguments for plan generation: a small menu of the interesting shapes
BatchesMenu == {
    <<>>,
    << [ts |-> 1, kind |-> "Plugin"], [ts |-> 1, kind |-> "Unplug"] >>,          \* tie in ts, reverse precedence
    << [ts |-> 2, kind |-> "Recompute"], [ts |-> 0, kind |-> "Plugin"] >>,       \* descending ts
    << [ts |-> 1, kind |-> "Recompute"], [ts |-> 1, kind |-> "Recompute"] >>,    \* equal keys
    << [ts |-> 2, kind |-> "Unplug"], [ts |-> 1, kind |-> "Recompute"], [ts |-> 0, kind |-> "Plugin"] >>,
    << [ts |-> 0, kind |-> "Unplug"], [ts |-> 2, kind |-> "Plugin"], [ts |-> 0, kind |-> "Unplug"] >> }

\* Plan generation: the plan (hist) determines the multiset of pending (ts, kind) - equal-key
\* events differ only in their id - hence which calls are enabled later.  Identifying states with
\* equal plans therefore enumerates every plan exactly once without enumerating the result
\* choices (which plans do not contain).
GenView == <<hist, nops, fin>>

\* Sampling of longer plans with -simulate.  TLC's simulator first picks one of the disjuncts of
\* the next-state relation uniformly (disjunctions and quantifiers over CONSTANT sets are split
\* into one disjunct per element) and then one of its successors.  SimNext presents the calls as
\* one disjunct each (the quantifier bounds are made state-dependent, which prevents the split)
\* and repeats the retrievals, so that plans are not dominated by insertions.  The behaviours are
\* behaviours of Spec: SimNext => Next.
Live(S) == IF fin THEN {} ELSE S
SimAdd        == \E a \in Live([ts : Ts, kind : Kinds]) : Add(a.ts, a.kind)
SimAddMany    == \E b \in Live(Batches) : AddMany(b)
SimAddManyFail == \E b \in Live(Batches) : Len(b) >= 2 /\ AddManyFail(b, Len(b) - 1)
SimGetCurrent == \E t \in Live(Probes) : GetCurrentAt(t)
SimQuery      == \E q \in Live({1, 2, 3}) : CASE q = 1 -> QLen [] q = 2 -> QEmpty [] q = 3 -> QLastTs
SimNext ==
    \/ SimAdd \/ (SimAdd /\ nops >= 0)
    \/ SimAddMany \/ SimAddManyFail
    \/ DoGetEvent \/ (DoGetEvent /\ nops >= 0)
    \/ SimGetCurrent \/ (SimGetCurrent /\ nops >= 0)
    \/ SimQuery
    \/ RoundTrip
    \/ Finish \/ Terminated
SimSpec == Init /\ [][SimNext]_vars
=============================================================================
