------------------------- MODULE StochasticNetTrace -------------------------
(***************************************************************************)
(* Binding (C): executions of the real StochasticNetwork inside the real   *)
(* Simulator (real `random` seeds, real schedulers, real batteries) are     *)
(* validated against StochasticNet.  The file named by the environment      *)
(* variable TRACE_FILE holds one JSON object per line, one per execution:   *)
(*                                                                         *)
(*   {"tid": name, "early": bool, "sess": [{"arr","dep","req"}...],         *)
(*    "ev": [line, ...]}                                                    *)
(*                                                                         *)
(* and every line of "ev" is one call observed by the recording network:    *)
(*   {"a":"plugin", "id", "st" (station the EV got, 0 = queued), obs}       *)
(*   {"a":"unplug", "id", obs}           network.unplug from the simulator  *)
(*   {"a":"apply",  "t", "evE":[...]}    energies when post_charging_update *)
(*                                        is entered (W*min, rounded)       *)
(*   {"a":"early",  "id", obs}           unplug from post_charging_update   *)
(*                                        (obs without the "early" counter)  *)
(*   {"a":"post",   "t", obs}            post_charging_update returned      *)
(*   {"a":"done",   "t", obs}            Simulator.run returned             *)
(* obs = "occ" (session per station, 0 = vacant), "w" (waiting queue),      *)
(* "swaps", "never", "early" (the counters), all AFTER the call.            *)
(*                                                                         *)
(* A line is matched iff the specification action it names is enabled with  *)
(* the logged arguments, leads to exactly the logged observation, and the   *)
(* resulting state satisfies the state invariants and the FIFO step         *)
(* property.  Loop and ProcEnd are not visible to the network and are taken *)
(* silently.  All traces of the file are validated in one TLC run           *)
(* (-workers 1): register tr holds the number of the furthest line reached  *)
(* of trace tr; the postcondition prints one verdict per trace.             *)
(***************************************************************************)
EXTENDS StochasticNet, IOUtils

Traces == ndJsonDeserialize(IOEnv.TRACE_FILE)

VARIABLES tr,   \* index of the trace this behaviour validates
          l     \* next line to match
tvars == <<vars, tr, l>>

Trace == Traces[tr]
More == l <= Len(Trace.ev)
Line == Trace.ev[l]

TraceInit ==
    /\ tr \in 1..Len(Traces) /\ l = 1
    /\ TLCSet(tr, 1)
    /\ pc = "Loop" /\ sess = Traces[tr].sess /\ early = Traces[tr].early
    /\ Len(sess) <= MaxSess
    /\ queue = {PluginEv(i) : i \in 1..Len(sess)}
    /\ Blank /\ hist = <<>>

\* the logged observation equals the specification's post-state
ObsMatches(r) ==
    /\ occ' = r.occ /\ waiting' = r.w
    /\ swaps' = r.swaps /\ never' = r.never /\ earlyN' = r.early
\* inside post_charging_update the code increments early_unplug after unplug() has returned: the
\* counter is not observed on "early" lines (it is on the "post" line that follows)
ObsMatchesEarly(r) ==
    /\ occ' = r.occ /\ waiting' = r.w
    /\ swaps' = r.swaps /\ never' = r.never

Silent == (Loop \/ ProcEnd) /\ UNCHANGED <<tr, l>>

Matched ==
    /\ More /\ l' = l + 1 /\ tr' = tr
    /\ \/ /\ Line.a = "plugin"
          /\ Line.id \in 1..N /\ Line.st \in 0..NS
          /\ IF Line.st = 0 THEN PluginWait(Line.id) ELSE PluginStoch(Line.id, Line.st)
          /\ ObsMatches(Line)
       \/ /\ Line.a = "unplug" /\ Line.id \in 1..N
          /\ (UnplugWaiting(Line.id) \/ UnplugConnected(Line.id) \/ UnplugGone(Line.id))
          /\ ObsMatches(Line)
       \/ /\ Line.a = "apply" /\ Line.t = t
          /\ ApplyWith([i \in 1..MaxSess |-> Line.evE[i]])
          /\ UNCHANGED hist
       \/ /\ Line.a = "early" /\ Line.id \in 1..N
          /\ EarlyDeparture(Line.id)
          /\ ObsMatchesEarly(Line)
       \/ /\ Line.a = "post" /\ Line.t = t
          /\ PostEnd
          /\ ObsMatches(Line)
       \/ /\ Line.a = "done" /\ Line.t = t
          /\ Finish
          /\ ObsMatches(Line)

StateInv ==
    /\ TypeOK /\ ExactlyOnePlace /\ NoTwoInOneStation /\ NoWaitWhileFree /\ QueueInArrivalOrder
    /\ NeverChargedCounted /\ SwapsCounted /\ EarlyCounted /\ NoEarlyWhenOff /\ NoOverstay
    /\ DepartureTime /\ EarlyEffective /\ AllGoneAtEnd

\* a step is only taken if what it leads to satisfies the property's formulas: a trace on which
\* the implementation violates one of them is rejected at that line (total verdicts)
TraceNext == (Silent \/ Matched) /\ StateInv' /\ FIFOStep /\ AdmitStep
TraceSpec == TraceInit /\ [][TraceNext]_tvars

\* diagnosis of a rejected trace: the same without the filter, formulas as INVARIANT / PROPERTY
PlainNext == Silent \/ Matched
PlainSpec == TraceInit /\ [][PlainNext]_tvars
FIFOAdmissionT == [][FIFOStep /\ AdmitStep]_tvars

\* CONSTRAINT (always TRUE): remember the furthest line reached
Progress == TLCSet(tr, IF l > TLCGet(tr) THEN l ELSE TLCGet(tr))

\* POSTCONDITION: one verdict per trace; matched = number of lines matched
Verdicts ==
    \A k \in 1..Len(Traces) :
        PrintT(<<"VER", ToJson([tid |-> Traces[k].tid, matched |-> TLCGet(k) - 1,
                                len |-> Len(Traces[k].ev)])>>)
=============================================================================
