------------------------------ MODULE MC_Sites ------------------------------
(***************************************************************************)
(* Model-checking wrapper of Sites.tla: capacity lattices and lattices of  *)
(* group totals.  All totals are integers [A] within the EVSE limits        *)
(* (32 A per station), so every lattice point is a schedule the real        *)
(* network can be asked about.                                             *)
(*                                                                         *)
(* The lattice of a cell adapts to the capacity: fractions j/K of the       *)
(* balanced extreme x* = floor(limit/sqrt3) of the secondary line limit     *)
(* 25*cap/9 - AB = BC = CA = x* is where the power bound of C16 is tight -  *)
(* plus a few points up to the limit itself (one group alone).              *)
(***************************************************************************)
EXTENDS Sites

Min2(a, b) == IF a <= b THEN a ELSE b

\* floor(j/K of the secondary limit of a cap kW transformer)
SecQ(cap, j, K) == (25 * cap * j) \div (9 * K)
\* largest integer x with 3 x^2 <= (25 cap / 9)^2: AB = BC = CA = x is the largest balanced feasible point
XStar(cap) == CHOOSE v \in 0..600 : 243 * v * v <= 625 * cap * cap /\ 243 * (v + 1) * (v + 1) > 625 * cap * cap

\* lattice of a cell of n stations behind a transformer of capacity cap: K+1 points from 0 to x* (the
\* whole box [0, x*]^3 respects the secondary limits, which are monotone in the group totals), the
\* first integer beyond it, and the integers around 5/6 of and the whole secondary limit (reached by one
\* group alone; the primary limit of Caltech/Office001 stops a single group at 0.866 of it).
CellLat(n, cap, K) ==
    {Min2(MaxPilot * n, v) : v \in {(XStar(cap) * j) \div K : j \in 0..K}
                                   \cup {XStar(cap) + 1, SecQ(cap, 5, 6), SecQ(cap, 1, 1), SecQ(cap, 1, 1) + 1}}

\* the product of per-cell lattices: L is a function cell name -> set of values
RECURSIVE Prod(_)
Prod(L) ==
    LET c == CHOOSE d \in DOMAIN L : TRUE
    IN  IF DOMAIN L = {c} THEN {(c :> v) : v \in L[c]}
        ELSE {f @@ (c :> v) : f \in Prod([d \in DOMAIN L \ {c} |-> L[d]]), v \in L[c]}

NSt(s, c) == Len(CellNamed(CellsOf[s], c).ids)

\* ---- Caltech: pods on a fixed lattice around their 80 A rating, the rest capacity-adapted
PodLat == {0, 40, 80, 88}
CaltechLat(cp, K, pods) ==
    Prod([c \in Names(CaltechCells) |->
            IF c \in {"AVpod", "CCpod"} THEN pods ELSE CellLat(NSt("caltech", c), cp[1], K)])
OfficeLat(cp, K) == Prod([c \in Names(OfficeCells) |-> CellLat(NSt("office001", c), cp[1], K)])
SimpleLat(cp, K) ==
    LET vs == {(160 * j) \div K : j \in 0..K}
              \cup {(1000 * cp[1]) \div 208, (1000 * cp[1]) \div 208 + 1, (1000 * cp[1]) \div 240, (1000 * cp[1]) \div 240 + 1}
    IN  {("all" :> v) : v \in (vs \cap (0..160))}

\* ---- JPL: 14 cells.  One transformer's cells run over their product lattice while the other
\* transformer carries one of a few background patterns (a fraction bg/16 of every cell's maximum).
\* First floor (1- and 2-station cells): sixteenths fr of the cell's maximum; 9/16 gives 18 A per
\* station, which makes AB = BC = CA = 72 A = x*(45 kW) reachable (36 + 36 + 0).
\* Upper floors: x*/2 on both panels is the balanced extreme of the 3rd/4th floor transformer
\* (each panel alone is stopped earlier by its 225 A rating).
SmallLat(n, fr) == {(MaxPilot * n * f) \div 16 : f \in fr}
JplBackground(S, bgs) == {[c \in S |-> (MaxPilot * NSt("jpl", c) * f) \div 16] : f \in bgs}
UpperLat(n, cap, K) ==
    {Min2(MaxPilot * n, v) : v \in {(XStar(cap) * j) \div (2 * K) : j \in 0..K} \cup {XStar(cap) \div 2 + 1, XStar(cap)}}
JplCombine(First, Upper, bgs) ==
    {f @@ g : f \in First, g \in JplBackground(JplUpperFloors, bgs)}
    \cup {f @@ g : f \in JplBackground(JplFirstFloor, bgs), g \in Upper}
JplLat(cp, fr, K, bgs) ==
    JplCombine(Prod([c \in JplFirstFloor |-> SmallLat(NSt("jpl", c), fr)]),
               Prod([c \in JplUpperFloors |-> UpperLat(NSt("jpl", c), cp[2], K)]), bgs)
\* the small one for exhaustive generation: the "additional" main-panel cells only idle or full,
\* the upper-floor cells at 0, x*/2, x*
JplLatGen(cp) ==
    JplCombine(Prod([c \in JplFirstFloor |->
                        SmallLat(NSt("jpl", c), IF c \in {"add.ab", "add.bc", "add.ca"} THEN {0, 16} ELSE {0, 9, 16})]),
               Prod([c \in JplUpperFloors |->
                        {Min2(MaxPilot * NSt("jpl", c), v) : v \in {0, XStar(cp[2]) \div 2, XStar(cp[2])}}]), {0})

\* ---- capacity lattices [kW]
CapsQuick == {20, 50, 150, 275}
CapsAll   == {20, 36, 45, 50, 75, 100, 150, 225, 275, 300}
CapChoicesQuick(s) ==
    IF s = "jpl" THEN {<<45, 150>>, <<20, 75>>} ELSE {<<c>> : c \in CapsQuick}
CapChoicesAll(s) ==
    IF s = "jpl" THEN {<<45, 150>>, <<20, 50>>, <<75, 225>>, <<100, 275>>}
    ELSE {<<c>> : c \in CapsAll}
CapChoicesGen(s) ==
    CASE s = "jpl" -> {<<45, 150>>} [] s = "caltech" -> {<<150>>, <<50>>}
      [] s = "office001" -> {<<50>>, <<20>>, <<150>>} [] s = "simple" -> {<<20>>, <<30>>}
CapChoicesDefault(s) ==
    CASE s = "jpl" -> {<<45, 150>>, <<20, 75>>} [] s = "caltech" -> {<<150>>, <<50>>}
      [] s = "office001" -> {<<50>>, <<20>>} [] s = "simple" -> {<<20>>, <<30>>}

\* ---- the lattices used by the configurations
LatticeQuick(s, cp) ==
    CASE s = "caltech" -> CaltechLat(cp, 3, {0, 80, 88})
      [] s = "office001" -> OfficeLat(cp, 10)
      [] s = "jpl" -> JplLat(cp, {0, 9, 16}, 1, {0})
      [] s = "simple" -> SimpleLat(cp, 16)
LatticeThorough(s, cp) ==
    CASE s = "caltech" -> CaltechLat(cp, 5, PodLat)
      [] s = "office001" -> OfficeLat(cp, 16)
      [] s = "jpl" -> JplLat(cp, {0, 9, 16}, 2, {0, 6, 16})
      [] s = "simple" -> SimpleLat(cp, 40)
\* generation: small enough to emit and replay every case
LatticeGen(s, cp) ==
    CASE s = "caltech" -> CaltechLat(cp, 2, {0, 80, 88})
      [] s = "office001" -> OfficeLat(cp, 6)
      [] s = "jpl" -> JplLatGen(cp)
      [] s = "simple" -> SimpleLat(cp, 8)
LatticeNone(s, cp) == {}        \* tables only

VoltsTwo == {208, 240}
=============================================================================
