---------------------------- MODULE MC_EventGen ----------------------------
(* Model-checking constants for EventGen.tla (referenced from spec/cfg/EventGen_*.cfg). *)
EXTENDS EventGen, EventGenObs

\* ---- time zones: UTC offset off1 before instant sw, off2 from sw on.
\* America/Los_Angeles left DST on 2019-11-03 09:00:00 UTC (valid for 2019-03-10 .. 2020-03-08 and for January 2037)
ZLA   == [name |-> "America/Los_Angeles", off1 |-> -25200, sw |-> 1572771600, off2 |-> -28800]
ZUTC  == [name |-> "UTC", off1 |-> 0, sw |-> 0, off2 |-> 0]
ZIST  == [name |-> "Asia/Kolkata", off1 |-> 19800, sw |-> 0, off2 |-> 19800]         \* +05:30
ZNPT  == [name |-> "Asia/Kathmandu", off1 |-> 20700, sw |-> 0, off2 |-> 20700]       \* +05:45
ZonesAll == {ZLA, ZUTC, ZIST, ZNPT}
ZonesTwo == {ZLA, ZNPT}
ZonesLA == {ZLA}
ZonesUTC == {ZUTC}
ZonesStart == {ZUTC, ZLA}

\* 2019-11-02 00:00:00 UTC (the day before the DST switch) and 2037-01-01 00:00:00 UTC
Base2019 == {1572652800}
BasesAll == {1572652800, 2114380800}
\* start offsets (s): aligned; aligned to no period; 08:00 UTC next day = one hour before the switch
OffsSmall == {0, 1501}
OffsAll == {0, 1501, 25200, 115200, 118799}

PeriodsSmall == {5, 60}
PeriodsAll == {1, 5, 7, 15, 60}
KSmall == {0, 1, 4, 80}      \* 80 periods of 5 min at 208 V: force_feasible caps a 50 kWh document at 44.37 kWh
KMid == {0, 1, 2, 12, 13}
KAll == {0, 1, 2, 12, 13, 80, 100, 288}
\* 0.05 0.5 3.3 7.9 14.2 50 kWh in W*min
EnergiesSmall == {0, 30000, 474000, 3000000}      \* (0: a claimed session that received nothing)
EnergiesAll == {0, 3000, 30000, 198000, 474000, 852000, 3000000}
VoltsOne == {208}
VoltsAll == {208, 240}
PowersFit == {0}
PowersAll == {0, 3300, 50000}
MaxLensSmall == {-1, 3}
MaxLensAll == {-1, 0, 1, 3, 12}
BoolAll == {FALSE, TRUE}
BPsSmall == {"none", "probe", "fit"}
BPsAll == {"none", "plain", "probe", "probe2", "fit"}
BPsNoFit == {"none", "plain", "probe", "probe2"}

\* ---- rows
RowPeriodsSmall == {5, 15}
RowPeriodsAll == {1, 5, 15, 60}
RowKSmall == {0, 3, 78}
RowKAll == {0, 1, 3, 15, 78, 99, 285}
RowKDSmall == {0, 3, 12}
RowKDAll == {0, 1, 3, 12, 36, 96}
RowMaxLensSmall == {-1, 1}
RowMaxLensAll == {-1, 1, 3, 8}
RowDaysSmall == {0, 1}
RowDaysAll == {0, 1, 2}
\* 0.05 0.5 6.6 10 70 kWh in W*dm
RowEnergiesSmall == {300000, 6000000}
RowEnergiesAll == {30000, 300000, 3960000, 6000000, 42000000}
RowPowersSmall == {0, 7000}
RowPowersAll == {0, 3300, 7000}

\* ---- capacity fit
FitStaysSmall == {1, 3, 12, 24, 64}
FitStaysAll == {1, 2, 3, 6, 12, 24, 32, 64, 100, 144, 200}
\* 0.05 0.1 0.5 1 3 5 7.9 8 8.5 20 23.9 50 84 99 kWh
FitEnergiesSmall == {3000, 30000, 60000, 300000, 474000, 510000, 1200000, 3000000}
FitEnergiesAll == {3000, 6000, 30000, 60000, 96000, 180000, 300000, 384000, 450000, 474000, 480000, 510000,
                   720000, 1200000, 1434000, 1800000, 2340000, 3000000, 3540000, 4200000, 5040000, 5400000, 5940000}
\* fractions of the maximum deliverable energy (the repo's tests use 1, 1/1.001, 1/2 only)
FitFracsSmall == {<<1, 1000>>, <<1, 10>>, <<1, 2>>, <<9, 10>>, <<999, 1000>>, <<11, 10>>}
FitFracsAll == {<<1, 1000>>, <<1, 100>>, <<1, 20>>, <<1, 10>>, <<1, 4>>, <<1, 3>>, <<1, 2>>, <<2, 3>>, <<4, 5>>,
                <<9, 10>>, <<99, 100>>, <<999, 1000>>, <<1, 1>>, <<1001, 1000>>, <<11, 10>>, <<2, 1>>}
FitVoltsSmall == {208}
FitVoltsAll == {120, 208, 240}
FitPeriodsSmall == {5}
FitPeriodsAll == {1, 5, 15}

NoObs == <<>>
=============================================================================
