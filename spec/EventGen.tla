------------------------------ MODULE EventGen ------------------------------
(***************************************************************************)
(* Session generation (property C15).                                      *)
(*                                                                         *)
(* Part A  the documented two-stage ("Linear2Stage") charging law at full   *)
(*         rate, in exact fixed-point arithmetic with a rigorous enclosure  *)
(*         of exp, and the capacity fit built on it                        *)
(*         (acnportal/acnsim/models/battery.py: batt_cap_fn).              *)
(* Part B  the conversion  ACN-Data session document -> session             *)
(*         (acnportal/acnsim/events/acndata_events.py: get_evs,             *)
(*         _convert_to_ev, _datetime_to_timestamp)  and                     *)
(*         stochastic sample row -> session                                 *)
(*         (acnportal/acnsim/events/stochastic_events.py:                   *)
(*         StochasticEvents.generate_events, _convert_ev_matrix).           *)
(*                                                                         *)
(* These are pure functions, so the state machine is the "one test per     *)
(* TLC state" pattern:  Init picks a configuration, Pick an input from the *)
(* lattice of that configuration, Eval computes the specification's answer,*)
(* Finish emits configuration + input + answer as one JSON line.  The      *)
(* theorems the property states are INVARIANTs over the evaluated state.   *)
(*                                                                         *)
(* Four case families (constant Kinds selects which ones a run explores):  *)
(*   "doc"  one ACN-Data document under one get_evs configuration          *)
(*   "row"  one row (arrival h, duration h, energy kWh) of a sample matrix *)
(*   "fit"  one (requested energy, stay) pair for the capacity fit         *)
(*   "obs"  one OBSERVED result (cap, init) of the real batt_cap_fn, fed   *)
(*          back by the harness: TLC decides whether it satisfies the law  *)
(*          (code -> spec direction)                                       *)
(*                                                                         *)
(* Units.  Instants of documents: integer POSIX seconds (< 2^31: dates up  *)
(* to 2037).  Period length P: minutes.  Document energies: W*min (1 kWh = *)
(* 60000).  Powers: W.  Sample rows: time in tenths of a minute ("dm":     *)
(* 1 h = 600 dm), energy in W*dm (1 kWh = 600000).  State of charge and    *)
(* every real number of Part A: fixed point, S = 2^28 stands for 1.0.      *)
(* Every product stays below 2^31 (TLC would stop with an overflow error). *)
(***************************************************************************)
EXTENDS Integers, Sequences, FiniteSets, TLC, Json, SequencesExt

CONSTANTS
    Kinds,          \* subset of {"doc", "row", "fit", "obs"}
    \* ---- documents (get_evs configuration, then the document)
    Bases,          \* reference instants (POSIX s)
    StartOffs,      \* simulation start = base + offset (s); need not be period aligned
    Periods,        \* period lengths (min)
    Zones,          \* time zones of the documents: [name, off1, sw, off2], UTC offset (s) is
                    \*   off1 before instant sw and off2 from sw on (one DST switch; fixed: off1 = off2)
    StartZones,     \* time zones the start datetime is expressed in
    Volts,          \* network voltages (V)
    Powers,         \* max_battery_power (W); 0 stands for 32 A * voltage (the fit's assumption)
    MaxLens,        \* max_len in periods; -1 stands for None
    FFs,            \* force_feasible values
    BPs,            \* battery parameter dictionaries: "none" (battery_params=None),
                    \*   "plain" {type: Battery}, "probe" {type: Battery, capacity_fn: Probe},
                    \*   "probe2" {type: Linear2StageBattery, capacity_fn: Probe, kwargs: {transition_soc: 0.6}},
                    \*   "fit" {type: Linear2StageBattery, capacity_fn: batt_cap_fn}
    KSet,           \* connection / disconnection lie KSet periods after the start's period boundary ...
    Energies,       \* kWhDelivered values (W*min)
    \* ---- sample rows
    RowPeriods, RowVolts, RowPowers,
    RowMaxLens,     \* max_len of the stochastic converter, in HOURS (pinned by the repo tests); -1 = None
    RowBPs,
    RowDays,        \* day index d: generate_events adds 24 d hours to the arrival
    RowK, RowKD,    \* arrival / duration, in periods, before the sub-period offsets
    RowEnergies,    \* W*dm
    \* ---- capacity fit
    FitVolts, FitPeriods, FitStays,
    FitEnergies,    \* absolute requests (W*min)
    FitFracs,       \* requests as <<num, den>> fractions of the maximum 32 A can deliver in the stay
    Obs,            \* sequence of observations [req, stay, V, P, cap, iLo, iHi] (W*min; init/cap in 2^-28)
    Rec             \* BOOLEAN: emit cases as JSON lines

VARIABLES
    pc,     \* "cfg" -> "picked" -> "evaluated" -> "emitted"
    cfg,    \* the configuration (arguments shared by all documents of one get_evs call, ...)
    c,      \* the input (document / row / request / observation)
    out     \* the specification's answer
vars == <<pc, cfg, c, out>>

Nil == [kind |-> "nil"]
Min2(a, b) == IF a <= b THEN a ELSE b
Max2(a, b) == IF a >= b THEN a ELSE b
Upto(n) == [i \in 1..n |-> i]

-----------------------------------------------------------------------------
(***************************************************************************)
(* Part A.1  Fixed point with directed rounding.                           *)
(***************************************************************************)
S == 268435456          \* 2^28 = 1.0
HALF == 16384           \* 2^14

\* x*y/S for 0 <= x, y <= 2*S:   MulLo <= exact < MulLo + 2.
\* (x = x1*2^14 + x0, y likewise; the dropped terms are two fractions < 1.)
MulLo(x, y) == LET x1 == x \div HALF  x0 == x % HALF
                   y1 == y \div HALF  y0 == y % HALF
               IN  x1 * y1 + (x1 * y0 + x0 * y1) \div HALF
MulHi(x, y) == MulLo(x, y) + 2

\* floor(rem * 2^28 / b) for 0 <= rem < b, b * 128 < 2^31: long division, 4 digits of 7 bits.
LongDiv(rem, b) ==
    LET step(acc, i) == LET y == acc[2] * 128 IN <<acc[1] * 128 + y \div b, y % b>>
    IN  FoldLeft(step, <<0, rem>>, Upto(4))[1]

\* floor(a * S / b) for a / b < 7
Ratio(a, b) == (a \div b) * S + LongDiv(a % b, b)

(***************************************************************************)
(* Part A.2  Enclosure of exp(-x).  For 0 <= z < 1 the alternating Taylor  *)
(* sums bracket it:   1 - z + z^2/2 - z^3/6  <=  exp(-z)  <=  ... + z^4/24 *)
(* and both polynomials decrease in z.  exp(-f) = exp(-f/64)^64 by six     *)
(* squarings (this is the closed form of 64 Euler-type steps of u' = -u    *)
(* with a 4th order step); lower bounds round down, upper bounds round up. *)
(***************************************************************************)
Sq6Lo(b) == LET b1 == MulLo(b, b)   b2 == MulLo(b1, b1) b3 == MulLo(b2, b2)
                b4 == MulLo(b3, b3) b5 == MulLo(b4, b4) IN MulLo(b5, b5)
Sq6Hi(b) == LET b1 == MulHi(b, b)   b2 == MulHi(b1, b1) b3 == MulHi(b2, b2)
                b4 == MulHi(b3, b3) b5 == MulHi(b4, b4) IN MulHi(b5, b5)

\* exp(-f/S) for 0 <= f <= S
ExpFracLo(f) == LET z == f \div 64 + 1                       \* z >= f/64
                    z2lo == MulLo(z, z)
                    z3hi == MulHi(MulHi(z, z), z)
                IN  Sq6Lo(S - z + z2lo \div 2 - (z3hi \div 6 + 1))
ExpFracHi(f) == LET z == f \div 64                           \* z <= f/64
                    z2hi == MulHi(z, z)
                    z3lo == MulLo(MulLo(z, z), z)
                    z4hi == MulHi(MulHi(z2hi, z), z)
                IN  Min2(S, Sq6Hi(S - z + (z2hi \div 2 + 1) - z3lo \div 6 + (z4hi \div 24 + 1)))

E1Lo == ExpFracLo(S)    \* exp(-1)
E1Hi == ExpFracHi(S)
PowLo(b, m) == FoldLeft(LAMBDA acc, i : MulLo(acc, b), S, Upto(m))
PowHi(b, m) == FoldLeft(LAMBDA acc, i : Min2(S, MulHi(acc, b)), S, Upto(m))

\* exp(-y/S) for 0 <= y < 5*S
ExpLo(y) == MulLo(PowLo(E1Lo, y \div S), ExpFracLo(y % S))
ExpHi(y) == Min2(S, MulHi(PowHi(E1Hi, y \div S), ExpFracHi(y % S)))

\* exp(-5*y/S) for y >= 0;  exp(-25) < 2^-36 is below one unit
Exp5Lo(y) == IF y >= 5 * S THEN 0 ELSE PowLo(ExpLo(y), 5)
Exp5Hi(y) == IF y >= 5 * S THEN 1 ELSE PowHi(ExpHi(y), 5)

\* 2^28 / e = 98751834.98...
ASSUME ExpConstant == E1Lo <= 98751834 /\ 98751835 <= E1Hi /\ E1Hi - E1Lo < 1000

(***************************************************************************)
(* Part A.3  The two-stage law at full rate.  SoC s in [0,1]; the battery   *)
(* takes the maximum rate r (SoC per period) below the transition SoC      *)
(* tau = 0.8 and r*(1-s)/(1-tau) above (Linear2StageBattery docstring):    *)
(*        ds/dt = min(r, r (1 - s) / (1 - tau)).                           *)
(* Charging n periods from s0 (closed form of the ODE, with rn = r*n and    *)
(* y = s0 + rn - tau the overshoot of the linear phase past tau):          *)
(*   s0 >= tau          Delta = (1 - s0) (1 - exp(-5 rn))                  *)
(*   s0 < tau, y <= 0   Delta = rn                                         *)
(*   s0 < tau, y > 0    Delta = (tau - s0) + (1 - tau)(1 - exp(-5 y))      *)
(* Delta is continuous, non-decreasing in rn, non-increasing in s0, and    *)
(* never exceeds 1 - s0.  The capacity fit assumes 32 A: with capacity     *)
(* cap (W*min), voltage V, period P (min):  rn = 32 V P n / cap.           *)
(***************************************************************************)
TAU_LO == 214748364     \* floor(0.8 * 2^28); 0.8 * 2^28 = 214748364.8, so no s0 equals tau
TAU_HI == 214748365
FIFTH_LO == 53687091    \* floor / ceiling of 0.2 * 2^28
FIFTH_HI == 53687092
RnCap == 6 * S          \* beyond rn = 6 nothing changes by one unit (exp(-26) < 2^-37)

RnLo(V, P, n, cap) == LET a == 32 * V * P * n IN
                      IF a \div cap >= 6 THEN RnCap ELSE Ratio(a, cap)
RnHi(V, P, n, cap) == RnLo(V, P, n, cap) + 1

DeltaLo(s0, rnLo, rnHi) ==
    IF s0 >= TAU_HI THEN MulLo(S - s0, S - Exp5Hi(rnLo))
    ELSE LET yLo == s0 + rnLo - TAU_HI
             yHi == s0 + rnHi - TAU_LO
         IN  IF yHi <= 0 THEN rnLo
             ELSE IF yLo < 0 THEN rnLo - 3        \* within 3 units of the kink: |Delta - rn| <= |y|
             ELSE (TAU_LO - s0) + MulLo(FIFTH_LO, S - Exp5Hi(yLo))
DeltaHi(s0, rnLo, rnHi) ==
    IF s0 >= TAU_HI THEN MulHi(S - s0, S - Exp5Lo(rnHi))
    ELSE LET yLo == s0 + rnLo - TAU_HI
             yHi == s0 + rnHi - TAU_LO
         IN  IF yHi <= 0 \/ yLo < 0 THEN rnHi
             ELSE (TAU_HI - s0) + MulHi(FIFTH_HI, S - Exp5Lo(yHi))

(***************************************************************************)
(* Part A.4  The capacity fit.  batt_cap_fn(requested_energy, stay_dur,     *)
(* voltage, period) returns (cap, init): a battery from the menu that,     *)
(* charged at full rate (32 A) for the whole stay, takes exactly the       *)
(* request.  The specification does not fix WHICH init is returned (in the *)
(* linear regime every init <= tau - rn works); it states the law that any *)
(* returned pair must satisfy (Delivers), decides for every menu capacity  *)
(* whether the request is feasible at all (from an empty battery), and      *)
(* exhibits a witness init by bisection (so "feasible" is constructive).   *)
(***************************************************************************)
Menu == <<480000, 1440000, 2400000, 3600000, 5100000, 6000000>>     \* 8 24 40 60 85 100 kWh
MARGIN == 4             \* units (1.5e-8 SoC): closer than this to the enclosure = not decided

\* request as a SoC difference of capacity cap
DLo(req, cap) == Ratio(req, cap)
DHi(req, cap) == Ratio(req, cap) + 1

Candidate(req, n, V, P, cap) ==
    IF req > cap THEN [cap |-> cap, feas |-> "no", d0lo |-> 0, d0hi |-> 0]
    ELSE LET rl == RnLo(V, P, n, cap)
             lo == DeltaLo(0, rl, rl + 1)
             hi == DeltaHi(0, rl, rl + 1)
         IN  [cap |-> cap, d0lo |-> lo, d0hi |-> hi,
              feas |-> IF lo >= DHi(req, cap) + MARGIN THEN "yes"
                       ELSE IF hi + MARGIN <= DLo(req, cap) THEN "no" ELSE "maybe"]

\* largest init (on the 2^-28 grid) whose lower enclosure still reaches the request
Witness(dlo, rl) ==
    LET step(acc, i) == LET mid == (acc[1] + acc[2]) \div 2 IN
                        IF DeltaLo(mid, rl, rl + 1) >= dlo THEN <<mid, acc[2]>> ELSE <<acc[1], mid>>
    IN  FoldLeft(step, <<0, S>>, Upto(28))[1]

FitVerdict(req, n, V, P) ==
    LET cands == [i \in 1..Len(Menu) |-> Candidate(req, n, V, P, Menu[i])]
        yes == {i \in 1..Len(Menu) : cands[i].feas = "yes"}
        first == IF yes = {} THEN 0 ELSE CHOOSE i \in yes : \A j \in yes : i <= j
        before == IF first = 0 THEN 1..Len(Menu) ELSE 1..(first - 1)
    IN  [cands |-> cands,
         verdict |-> IF n < 1 \/ req < 1 THEN "degenerate"
                     ELSE IF \E j \in before : cands[j].feas = "maybe" THEN "nondecisive"
                     ELSE IF first = 0 THEN "infeasible" ELSE "feasible",
         choice |-> first]

FitAnswer(req, n, V, P) ==
    LET fv == FitVerdict(req, n, V, P) IN
    IF fv.verdict # "feasible" THEN fv
    ELSE LET cap == Menu[fv.choice]
             rl == RnLo(V, P, n, cap)
             w == Witness(DLo(req, cap), rl)
         IN  fv @@ [cap |-> cap, dlo |-> DLo(req, cap), dhi |-> DHi(req, cap), rnlo |-> rl, w |-> w,
                    wlo |-> DeltaLo(w, rl, rl + 1), whi |-> DeltaHi(w, rl, rl + 1)]

\* The law an observed (cap, init in [iLo, iHi]) must satisfy: the energy taken in the stay at
\* full rate is the request.  Delta is non-increasing in init.  SLACK covers the rounding of the
\* two enclosures and the fit's own search tolerance (1e-9 SoC = 0.27 units).
SLACK == 3
ObsAnswer(o) ==
    LET rl == RnLo(o.V, o.P, o.stay, o.cap)
        hi == DeltaHi(o.iLo, rl, rl + 1)
        lo == DeltaLo(o.iHi, rl, rl + 1)
        dlo == DLo(o.req, o.cap)
    IN  [lo |-> lo, hi |-> hi, dlo |-> dlo, dhi |-> dlo + 1,
         delivers |-> lo <= dlo + 1 + SLACK /\ hi >= dlo - SLACK,
         covers |-> S - o.iLo >= dlo - SLACK]

-----------------------------------------------------------------------------
(***************************************************************************)
(* Part B.1  Calendar: an instant is a POSIX second count e; a datetime is  *)
(* (wall clock, UTC offset).  The period index does not depend on the zone.*)
(***************************************************************************)
Off(z, e) == IF e < z.sw THEN z.off1 ELSE z.off2
Wall(z, e) == e + Off(z, e)                 \* wall-clock reading, as seconds since 1970-01-01 00:00 on that clock
Idx(e, P) == e \div (60 * P)                \* _datetime_to_timestamp: floor(e / (60 P)), e >= 0

\* capacity_fn used by the "probe" dictionaries: every argument changes the result, the free
\* capacity (cap - init) exceeds the request.  u = energy units per W*min (1 for documents, 10 for rows).
Probe(req, stay, V, P, u) == [cap |-> req + u * (600 * stay + 7 * V + 1300 * P + 60000),
                              init |-> u * (600 * stay + 1300 * P)]

BatteryFor(bp, req, stay, V, P, pw, u) ==
    CASE bp \in {"none", "plain"} -> [type |-> "Battery", cap |-> req, init |-> 0, pw |-> pw]
      [] bp = "probe"  -> [type |-> "Battery", pw |-> pw] @@ Probe(req, stay, V, P, u)
      [] bp = "probe2" -> [type |-> "Linear2StageBattery", pw |-> pw, tsoc |-> 60] @@ Probe(req, stay, V, P, u)
      [] bp = "fit"    -> [type |-> "Linear2StageBattery", pw |-> pw, fit |-> FitVerdict(req, stay, V, P),
                           \* ... and a request of nothing (a visit within one period, capped by force_feasible) is held by any battery
                           mustfit |-> (req = 0 \/ (req = 32 * V * stay * P /\ stay >= 1 /\ \E i \in 1..Len(Menu) : 5 * req <= 4 * Menu[i]))]

(***************************************************************************)
(* Part B.2  ACN-Data document -> session  (get_evs + _convert_to_ev).      *)
(***************************************************************************)
ConvertDoc(g, d) ==
    LET off  == Idx(g.start, g.P)                                   \* get_evs: offset of the start
        arr  == Idx(d.conn, g.P) - off
        dep0 == Idx(d.disc, g.P) - off
        dep  == IF g.maxlen >= 0 /\ dep0 - arr > g.maxlen THEN arr + g.maxlen ELSE dep0
        stay == dep - arr
        req  == IF g.ff THEN Min2(d.kwh, g.pw * stay * g.P) ELSE d.kwh     \* W * periods * min
    IN  [arr |-> arr, dep |-> dep, dep0 |-> dep0, stay |-> stay, req |-> req,
         batt |-> BatteryFor(g.bp, req, stay, g.V, g.P, g.pw, 1),
         \* for the harness: how the datetimes read on their clocks
         connWall |-> Wall(g.zone, d.conn), connOff |-> Off(g.zone, d.conn),
         discWall |-> Wall(g.zone, d.disc), discOff |-> Off(g.zone, d.disc),
         startWall |-> Wall(g.szone, g.start), startOff |-> Off(g.szone, g.start)]

(***************************************************************************)
(* Part B.3  sample row -> session  (_convert_ev_matrix).  Times in dm.     *)
(* The row's connection time is its arrival (hours since midnight of day 0,*)
(* the simulation start), its disconnection time arrival + duration.       *)
(* max_len caps the duration and is in the sample's unit, hours.           *)
(* The stay handed to capacity_fn is the session's stay in periods, as in   *)
(* _convert_to_ev and as batt_cap_fn documents ("Number of periods").      *)
(***************************************************************************)
RowIdx(t, P) == t \div (10 * P)
ConvertRow(g, r) ==
    LET a    == r.arr + 14400 * r.day                               \* generate_events: += 24 d hours
        dur  == IF g.maxlen >= 0 /\ r.dur > 600 * g.maxlen THEN 600 * g.maxlen ELSE r.dur
        arr  == RowIdx(a, g.P)
        dep  == RowIdx(a + dur, g.P)
        req  == IF g.ff THEN Min2(r.e, g.pw * dur) ELSE r.e         \* W * dm
    IN  [a |-> a, dur |-> dur, arr |-> arr, dep |-> dep, stay |-> dep - arr, req |-> req,
         arrRem |-> a % (10 * g.P), depRem |-> (a + dur) % (10 * g.P),
         batt |-> BatteryFor(g.bp, req, dep - arr, g.V, g.P, g.pw, 10)]

-----------------------------------------------------------------------------
(***************************************************************************)
(* Configurations and input lattices.                                      *)
(***************************************************************************)
DocCfgs == { [kind |-> "doc", P |-> p, zone |-> z, szone |-> sz, start |-> b + so, V |-> v,
              pw |-> IF w = 0 THEN 32 * v ELSE w, maxlen |-> ml, ff |-> f, bp |-> bp] :
             p \in Periods, z \in Zones, sz \in StartZones, b \in Bases, so \in StartOffs,
             v \in Volts, w \in Powers, ml \in MaxLens, f \in FFs, bp \in BPs }

\* instants around period boundaries: on it, one second after, mid period, one second before the next
Deltas(P) == {0, 1, 30 * P, 60 * P - 1}
Instants(g) == LET s0 == Idx(g.start, g.P) * 60 * g.P IN
               { e \in { s0 + k * 60 * g.P + dl : k \in KSet, dl \in Deltas(g.P) } : e >= g.start }
DocInputs(g) == { d \in { [conn |-> a, disc |-> b, kwh |-> e] :
                           a \in Instants(g), b \in Instants(g), e \in Energies } : d.conn <= d.disc }

RowCfgs == { [kind |-> "row", P |-> p, V |-> v, pw |-> IF w = 0 THEN 32 * v ELSE w,
              maxlen |-> ml, ff |-> f, bp |-> bp] :
             p \in RowPeriods, v \in RowVolts, w \in RowPowers, ml \in RowMaxLens, f \in FFs, bp \in RowBPs }
\* sub-period offsets in dm: on the boundary, 0.3 min after, mid period, 0.3 min before the next
RowInputs(g) == { r \in { [day |-> d, arr |-> ka * 10 * g.P + da, dur |-> kd * 10 * g.P + dd, e |-> e] :
                           d \in RowDays, ka \in RowK, da \in {0, 3, 5 * g.P, 10 * g.P - 3},
                           kd \in RowKD, dd \in {-3, 0, 3, 5 * g.P}, e \in RowEnergies } : r.dur > 0 }

RowArrivals(g) == { d * 14400 + ka * 10 * g.P + da : d \in RowDays, ka \in RowK, da \in {0, 3, 5 * g.P, 10 * g.P - 3} }

FitCfgs == { [kind |-> "fit", V |-> v, P |-> p] : v \in FitVolts, p \in FitPeriods }
FitInputs(g) == { [req |-> e, stay |-> n] : e \in FitEnergies, n \in FitStays } \cup
                { [req |-> ((32 * g.V * g.P * n) \div f[2]) * f[1], stay |-> n] : f \in FitFracs, n \in FitStays }

ObsCfgs == { [kind |-> "obs"] }
ObsInputs == { Obs[i] @@ [idx |-> i] : i \in 1..Len(Obs) }

Cfgs == (IF "doc" \in Kinds THEN DocCfgs ELSE {}) \cup (IF "row" \in Kinds THEN RowCfgs ELSE {}) \cup
        (IF "fit" \in Kinds THEN FitCfgs ELSE {}) \cup (IF "obs" \in Kinds THEN ObsCfgs ELSE {})
Inputs(g) == CASE g.kind = "doc" -> DocInputs(g)
               [] g.kind = "row" -> RowInputs(g)
               [] g.kind = "fit" -> FitInputs(g)
               [] g.kind = "obs" -> ObsInputs
Answer(g, x) == CASE g.kind = "doc" -> ConvertDoc(g, x)
                  [] g.kind = "row" -> ConvertRow(g, x)
                  [] g.kind = "fit" -> FitAnswer(x.req, x.stay, g.V, g.P)
                  [] g.kind = "obs" -> ObsAnswer(x)

-----------------------------------------------------------------------------
Init == pc = "cfg" /\ cfg \in Cfgs /\ c = Nil /\ out = Nil

Pick ==   \* the next document of the API response / row of the sample matrix / request
    /\ pc = "cfg" /\ c' \in Inputs(cfg) /\ pc' = "picked" /\ UNCHANGED <<cfg, out>>

Eval ==   \* the conversion
    /\ pc = "picked" /\ out' = Answer(cfg, c) /\ pc' = "evaluated" /\ UNCHANGED <<cfg, c>>

Finish ==
    /\ pc = "evaluated"
    /\ IF Rec THEN PrintT(<<"BHV", ToJson([cfg |-> cfg, inp |-> c, out |-> out])>>) ELSE TRUE
    /\ pc' = "emitted" /\ UNCHANGED <<cfg, c, out>>

Terminated == pc = "emitted" /\ UNCHANGED vars

Next == Pick \/ Eval \/ Finish \/ Terminated
Spec == Init /\ [][Next]_vars

-----------------------------------------------------------------------------
(***************************************************************************)
(* C15, as invariants of the evaluated state.                              *)
(***************************************************************************)
Done == pc \in {"evaluated", "emitted"}
IsDoc == Done /\ cfg.kind = "doc"
IsRow == Done /\ cfg.kind = "row"
IsFit == Done /\ cfg.kind = "fit"
IsObs == Done /\ cfg.kind = "obs"

\* arrival / departure are floors: the session's periods contain the connection / disconnection instants
DocFloor == IsDoc =>
    LET w == 60 * cfg.P  o == Idx(cfg.start, cfg.P) IN
    /\ (o + out.arr) * w <= c.conn /\ c.conn < (o + out.arr + 1) * w
    /\ (o + out.dep0) * w <= c.disc /\ c.disc < (o + out.dep0 + 1) * w
    /\ o * w <= cfg.start /\ cfg.start < (o + 1) * w
    /\ out.arr >= 0                                 \* documents begin at or after the start
RowFloor == IsRow =>
    LET w == 10 * cfg.P IN
    /\ out.arr * w <= out.a /\ out.a < (out.arr + 1) * w
    /\ out.dep * w <= out.a + out.dur /\ out.a + out.dur < (out.dep + 1) * w

\* the conversion preserves the order of instants (a theorem about the whole lattice of a
\* configuration, so it is evaluated once per configuration, in the state before Pick)
OrderPreserving ==
    /\ pc = "cfg" /\ cfg.kind = "doc" =>
            \A a \in Instants(cfg), b \in Instants(cfg) :
                a <= b => Idx(a, cfg.P) - Idx(cfg.start, cfg.P) <= Idx(b, cfg.P) - Idx(cfg.start, cfg.P)
    /\ pc = "cfg" /\ cfg.kind = "row" =>
            \A a \in RowArrivals(cfg), b \in RowArrivals(cfg) : a <= b => RowIdx(a, cfg.P) <= RowIdx(b, cfg.P)
DepartureGeArrival == (IsDoc \/ IsRow) => out.dep >= out.arr

StayCapped ==
    /\ IsDoc => /\ out.dep <= out.dep0
                /\ cfg.maxlen >= 0 => out.stay <= cfg.maxlen
                /\ (cfg.maxlen < 0 \/ out.dep0 - out.arr <= cfg.maxlen) => out.dep = out.dep0
    /\ IsRow => /\ out.dur <= c.dur
                /\ cfg.maxlen >= 0 => out.dur <= 600 * cfg.maxlen
                /\ (cfg.maxlen < 0 \/ c.dur <= 600 * cfg.maxlen) => out.dur = c.dur

\* requested energy = delivered energy, capped (force_feasible) at max power * stay
RequestCapped ==
    /\ IsDoc => LET lim == cfg.pw * out.stay * cfg.P IN
                /\ out.req <= c.kwh
                /\ cfg.ff => out.req <= lim /\ (out.req = c.kwh \/ out.req = lim)
                /\ ~cfg.ff => out.req = c.kwh
    /\ IsRow => LET lim == cfg.pw * out.dur IN
                /\ out.req <= c.e
                /\ cfg.ff => out.req <= lim /\ (out.req = c.e \/ out.req = lim)
                /\ ~cfg.ff => out.req = c.e

\* the battery's free capacity covers the request (for the fit: consequence of FitWitnessDelivers)
BatteryCovers == (IsDoc \/ IsRow) /\ cfg.bp # "fit" =>
    /\ out.batt.cap - out.batt.init >= out.req
    /\ out.batt.init >= 0 /\ out.batt.cap >= out.batt.init
    /\ out.batt.pw = cfg.pw

\* The request force_feasible produces when it binds - exactly what 32 A deliver during the stay -
\* CAN be held by a two-stage battery of the menu whenever it is at most 80 % of that battery: started at
\* transition_soc - request/capacity the battery stays in its constant-power stage for the whole stay and
\* takes 32 A * V * stay exactly.  No enclosure is needed for this (it is the linear stage), so the verdict
\* "nondecisive" of the general machinery (the request sits ON the feasibility boundary) does not excuse a
\* refusal: the fit must answer.  (W*min: pw is in W, P in minutes; TAU = 4/5.)
CapBinds(req, n, V, P) == n >= 1 /\ req = 32 * V * n * P
BoundaryFits(req, n, V, P) == CapBinds(req, n, V, P) /\ \E i \in 1..Len(Menu) : 5 * req <= 4 * Menu[i]
MustFit == (IsDoc /\ cfg.bp = "fit" /\ cfg.ff /\ cfg.pw = 32 * cfg.V) =>
               (BoundaryFits(out.req, out.stay, cfg.V, cfg.P) => out.batt.fit.verdict \in {"feasible", "nondecisive"})

\* ---- capacity fit
WIDTH == 4096           \* 1.6e-5 SoC: the enclosure is at least this tight everywhere
FitOf == IF IsFit THEN out ELSE out.batt.fit
HasFit == IsFit \/ ((IsDoc \/ IsRow) /\ cfg.bp = "fit")
FitEnclosureTight == HasFit =>
    \A i \in 1..Len(Menu) : LET k == FitOf.cands[i] IN k.d0lo <= k.d0hi /\ k.d0hi - k.d0lo <= WIDTH
FitMinimal == HasFit /\ FitOf.verdict = "feasible" =>       \* the first capacity that can take the request
    \A j \in 1..(FitOf.choice - 1) : FitOf.cands[j].feas = "no"
FitWitnessDelivers == IsFit /\ out.verdict = "feasible" =>   \* a feasible request has a battery state that takes exactly it
    /\ 0 <= out.w /\ out.w <= S
    /\ out.wlo <= out.whi /\ out.whi - out.wlo <= WIDTH
    /\ out.wlo <= out.dhi + SLACK /\ out.whi >= out.dlo - SLACK
    /\ S - out.w >= out.dlo - SLACK                             \* hence free capacity covers the request
FitMonotone == IsFit /\ out.verdict = "feasible" =>           \* Delta non-increasing in the initial SoC
    LET rl == out.rnlo IN
    \A s \in {0, out.w \div 2, out.w, (out.w + S) \div 2, S} :
        /\ DeltaHi(s, rl, rl + 1) + SLACK >= DeltaLo(Min2(S, s + 1000000), rl, rl + 1)
        /\ DeltaHi(s, rl, rl + 1) <= S - s + SLACK              \* never more than the free capacity
ObsDeliverImpliesCovers == IsObs /\ out.delivers => out.covers
ObsEnclosureTight == IsObs => out.lo <= out.hi + 1 + SLACK /\ out.hi - out.lo <= WIDTH + (c.iHi - c.iLo)

TypeOK == /\ pc \in {"cfg", "picked", "evaluated", "emitted"}
          /\ cfg \in Cfgs
          /\ pc = "cfg" => c = Nil
          /\ pc \in {"cfg", "picked"} => out = Nil
=============================================================================
