------------------------------- MODULE Tariff -------------------------------
(***************************************************************************)
(* Time-of-use tariffs (acnportal/signals/tariffs/tou_tariff.py), the      *)
(* price accessors of the simulation interface (acnsim/interface.py:        *)
(* get_prices, get_demand_charge) and the cost functions of acnsim.analysis *)
(* (energy_cost, demand_charge).  Property C17.                             *)
(*                                                                         *)
(* A tariff (one bundled JSON file) is a sequence of RATE SCHEDULES.  Each  *)
(* schedule is in effect during a season [sm-sd, em-ed] (inclusive, month-  *)
(* day; the season WRAPS the new year when the end precedes the start) on   *)
(* the weekdays of its mask, and lists BREAKPOINTS (second of the day ->     *)
(* energy rate) plus one demand rate.  The data is part of the system under *)
(* test: the harness transcribes the JSON files of /repo into the constant  *)
(* Tariffs at every run (module TariffData).                                *)
(*                                                                         *)
(* Units (all integers):  time of day: seconds; energy rate: 1e-5 $/kWh;    *)
(* demand rate: 1e-5 $/kW; period: minutes; power: kW; money: 1e-5 $.       *)
(*                                                                         *)
(* Two state machines share the clock `now` (a wall-clock instant of        *)
(* Calendar.tla) and the evaluated answer `ans` for that instant:           *)
(*   mode "walk": the clock walks through a year of a calendar type (one    *)
(*        behaviour per month, from the 1st 00:00:00 to the end of the 1st   *)
(*        of the next month - so month and year changes are steps of some    *)
(*        behaviour), visiting on every day 00:00:00, 23:59:59, every        *)
(*        breakpoint of the tariff +- Offsets seconds and ExtraSecs; each    *)
(*        visited instant is one get_tariff / get_demand_charge case         *)
(*        (emitted when Rec).                                               *)
(*   mode "vec":  get_tariffs(start, n, period) / Interface.get_prices: the *)
(*        clock starts at scn.start and advances n times by `period`        *)
(*        minutes, appending the answer of every visited instant; a power   *)
(*        profile is accumulated into energy cost and peak alongside.       *)
(*                                                                         *)
(* Actions and the code they stand for:                                     *)
(*   Tick, WalkEnd  one call get_tariff(now) and get_demand_charge(now)      *)
(*                  (_get_tariff_schedule + descending breakpoint scan)      *)
(*   Step           one element of get_tariffs' comprehension, i.e. one      *)
(*                  simulation period: Interface.get_prices/get_demand_charge*)
(*                  at simulation time k look up start + k * period          *)
(*   Finish         analysis.energy_cost / demand_charge of the completed    *)
(*                  simulation                                              *)
(* Deliberate differences from the code: the number of applicable schedules  *)
(* is counted over the schedules of the FILE (the code counts list entries   *)
(* after splitting wrap-around seasons; WrapEquivalence shows that this is    *)
(* the same); an ambiguous or uncovered instant has no price here (nv # 1),  *)
(* where the code raises ValueError; microseconds and time zones do not      *)
(* exist (datetimes are wall clock readings).                               *)
(***************************************************************************)
EXTENDS Calendar, TLC, Json
LOCAL INSTANCE SequencesExt         \* FoldLeft, SetToSortSeq

CONSTANTS
    Tariffs,    \* [file name -> sequence of schedules
                \*    [id, sm, sd, em, ed, mask (set of weekdays 0..6),
                \*     bps (sequence of [at (s), rate (1e-5 $/kWh)], in file order), demand (1e-5 $/kW)]]
    Names,      \* the tariffs explored by this run (subset of DOMAIN Tariffs)
    Types,      \* walk: the calendar types explored (subset of CalTypes)
    VecTypes,   \* vec: the calendar types of the start dates
    Modes,      \* subset of {"walk", "vec"}
    Months,     \* walk: the months walked (subset of 1..12)
    Offsets,    \* walk: every breakpoint is probed at breakpoint + o seconds, o \in Offsets
    ExtraSecs,  \* walk: further seconds of the day probed on every day (seeded by the harness)
    VecDates,   \* vec: start dates <<m, d>> in addition to the season edges of the tariff
    DayShifts,  \* vec: each start date is shifted by these numbers of days (e.g. {-1, 0})
    VecSecs,    \* vec: start second of the day
    Periods,    \* vec: period lengths (min)
    Lengths,    \* vec: vector lengths n >= 1
    Profiles,   \* vec: sequence of power profiles [a, b]: two stations, cyclic sequences of kW
    Rec         \* TRUE: emit every evaluated case as a JSON line

VARIABLES
    mode,       \* "walk" | "vec"
    tf,         \* name of the tariff
    scn,        \* scenario, constant along a behaviour:
                \*   [year, start (instant), until (walk: last day), probes (walk: the seconds of the
                \*    day that are visited, ascending), period, n, prof (vec)]
    now,        \* the clock: [day, sec]
    pi,         \* walk: now.sec = scn.probes[pi]
    ans,        \* Ans(tf, now): what the tariff answers for `now`
    k,          \* vec: number of periods evaluated so far
    vec,        \* vec: the answers of periods 0..k-1
    cost,       \* vec: sum of price*power over periods 0..k-1  (1e-5 $/kWh * kW)
    peak,       \* vec: max power over periods 0..k-1 (kW)
    done
vars == <<mode, tf, scn, now, pi, ans, k, vec, cost, peak, done>>

Max2(a, b) == IF a >= b THEN a ELSE b

-----------------------------------------------------------------------------
(* Which schedule applies.                                                  *)
MD(m, d) == 100 * m + d                               \* orders (month, day) pairs
StartMD(s) == MD(s.sm, s.sd)
EndMD(s) == MD(s.em, s.ed)
Wraps(s) == EndMD(s) < StartMD(s)                     \* e.g. 1 Oct .. 31 May

\* the season as the property states it
InSeason(s, m, d) ==
    IF Wraps(s) THEN MD(m, d) >= StartMD(s) \/ MD(m, d) <= EndMD(s)
                ELSE StartMD(s) <= MD(m, d) /\ MD(m, d) <= EndMD(s)

\* the season as the code stores it: a wrapping schedule is split into [start, 31 Dec] and a
\* copy [1 Jan, end] (TimeOfUseTariff.__init__)
SplitRanges(s) == IF Wraps(s) THEN {<<StartMD(s), 1231>>, <<101, EndMD(s)>>} ELSE {<<StartMD(s), EndMD(s)>>}
SplitMatches(s, m, d) == {r \in SplitRanges(s) : r[1] <= MD(m, d) /\ MD(m, d) <= r[2]}

Valid(s, m, d, dow) == dow \in s.mask /\ InSeason(s, m, d)
ValidIdx(t, m, d, dow) == {i \in DOMAIN t : Valid(t[i], m, d, dow)}
ExactlyOneOn(t, m, d, dow) == Cardinality(ValidIdx(t, m, d, dow)) = 1

(* The rate of a schedule at a second of the day: that of the latest        *)
(* breakpoint at or before it (get_tariff scans the breakpoints in          *)
(* descending order and returns the first one that is <= the time of day).  *)
Eligible(s, sec) == {i \in DOMAIN s.bps : s.bps[i].at <= sec}
Latest(s, sec) == CHOOSE i \in Eligible(s, sec) : \A j \in Eligible(s, sec) : s.bps[j].at <= s.bps[i].at
RateAt(s, sec) == s.bps[Latest(s, sec)].rate

(* The answer for an instant.  nv = number of schedules in effect; when it   *)
(* is not 1 there is no price (the code raises ValueError) - the property   *)
(* says this never happens for a bundled tariff (ExactlyOne below).         *)
NoAnswer(n) == [nv |-> n, sid |-> "", price |-> -1, dem |-> -1]
Ans(name, i) ==
    LET c == Civil(i.day)
        t == Tariffs[name]
        V == ValidIdx(t, c.m, c.d, Weekday(i.day))
    IN  IF Cardinality(V) = 1
        THEN LET s == t[CHOOSE x \in V : TRUE]
             IN  [nv |-> 1, sid |-> s.id, price |-> RateAt(s, i.sec), dem |-> s.demand]
        ELSE NoAnswer(Cardinality(V))

\* the two public lookups, and the price vector: entry j is the lookup at start + j * period
Price(name, i) == Ans(name, i).price                      \* get_tariff          (-1: no price)
DemandRate(name, i) == Ans(name, i).dem                   \* get_demand_charge
GetTariffs(name, start, n, period) ==                     \* get_tariffs, Interface.get_prices
    [j \in 1..n |-> Price(name, AddMinutes(start, (j - 1) * period))]

(* Costs of a power profile ws (kW per period) under prices ps (1e-5 $/kWh):  *)
(*   energy cost   = sum_j ps[j] * ws[j] * period/60   = SumProduct * period / 60   [1e-5 $]   *)
(*   demand charge = demand rate at the start * max_j ws[j]                         [1e-5 $]   *)
(* (the factor period/60 is applied by the reader of the emitted case: the product  *)
(* would leave TLC's 32-bit integers for day-long periods)                          *)
SumProduct(ps, ws) == FoldLeft(LAMBDA acc, j : acc + ps[j] * ws[j], 0, [j \in 1..Len(ps) |-> j])
MaxOf(ws) == FoldLeft(LAMBDA acc, j : IF ws[j] > acc THEN ws[j] ELSE acc, 0, [j \in 1..Len(ws) |-> j])
DemandCharge(rate, ws) == rate * MaxOf(ws)

-----------------------------------------------------------------------------
(* The walk.                                                                *)
Breakpoints(name) == UNION {{Tariffs[name][i].bps[j].at : j \in DOMAIN Tariffs[name][i].bps} : i \in DOMAIN Tariffs[name]}
ProbeSecs(name) ==
    {p \in {0, SecPerDay - 1} \cup ExtraSecs \cup {b + o : b \in Breakpoints(name), o \in Offsets} :
        p >= 0 /\ p < SecPerDay}
ProbeSeq(name) == SetToSortSeq(ProbeSecs(name), <)            \* ascending; starts with 0
\* the probe after the current one: the next second of the list, or 00:00:00 of the next day
NextIdx == IF pi < Len(scn.probes) THEN pi + 1 ELSE 1
NextProbe == IF pi < Len(scn.probes) THEN [day |-> now.day, sec |-> scn.probes[pi + 1]]
             ELSE [day |-> now.day + 1, sec |-> scn.probes[1]]

(* Scenarios of the vector machine.                                         *)
SeasonEdges(name) == UNION {{<<Tariffs[name][i].sm, Tariffs[name][i].sd>>, <<Tariffs[name][i].em, Tariffs[name][i].ed>>} : i \in DOMAIN Tariffs[name]}
VecStartDays(name, y) ==
    {DayNum(y, md[1], md[2]) + o : md \in {x \in SeasonEdges(name) \cup VecDates : IsCivil(y, x[1], x[2])}, o \in DayShifts}

\* power of period j (0-based) under profile p: both stations follow their cyclic sequence; the
\* last period of a simulation is the one in which the EVs have unplugged (power 0)
StationPower(seq, j) == seq[(j % Len(seq)) + 1]
Power(s, j) == IF j = s.n - 1 THEN 0
               ELSE StationPower(Profiles[s.prof].a, j) + StationPower(Profiles[s.prof].b, j)

Emit(r) == IF Rec THEN PrintT(<<"BHV", ToJson(r)>>) ELSE TRUE

PointCase ==
    LET c == Civil(now.day)
    IN  [kind |-> "pt", tf |-> tf, day |-> now.day, y |-> c.y, m |-> c.m, d |-> c.d,
         dow |-> Weekday(now.day), sec |-> now.sec,
         nv |-> ans.nv, sid |-> ans.sid, price |-> ans.price, dem |-> ans.dem]

AllPriced == \A j \in 1..Len(vec) : vec[j].nv = 1
VecCase ==
    LET c == Civil(scn.start.day)
    IN  [kind |-> "vec", tf |-> tf, day |-> scn.start.day, y |-> c.y, m |-> c.m, d |-> c.d,
         dow |-> Weekday(scn.start.day), sec |-> scn.start.sec, period |-> scn.period, n |-> scn.n,
         nvs |-> [j \in 1..scn.n |-> vec[j].nv],
         prices |-> [j \in 1..scn.n |-> vec[j].price],
         dems |-> [j \in 1..scn.n |-> vec[j].dem],
         pa |-> [j \in 1..scn.n |-> IF j = scn.n THEN 0 ELSE StationPower(Profiles[scn.prof].a, j - 1)],
         pb |-> [j \in 1..scn.n |-> IF j = scn.n THEN 0 ELSE StationPower(Profiles[scn.prof].b, j - 1)],
         ok |-> AllPriced,
         \* energy cost = costnum * period / 60   [1e-5 $]     (sum of price * power * dt)
         costnum |-> IF AllPriced THEN cost ELSE -1,
         peak |-> peak,
         \* demand charge = demand rate in effect at the start * peak power   [1e-5 $]
         dcharge |-> IF vec[1].nv = 1 THEN vec[1].dem * peak ELSE -1]

-----------------------------------------------------------------------------
InitWalk ==
    /\ mode = "walk"
    /\ tf \in Names
    /\ \E ty \in Types, mo \in Months :
         LET y == RepYear(ty) IN
         scn = [year |-> y, start |-> At(y, mo, 1, 0), until |-> DayNum(y, mo, 1) + DaysInMonth(y, mo),
                probes |-> ProbeSeq(tf), period |-> 0, n |-> 0, prof |-> 0]
    /\ now = scn.start

InitVec ==
    /\ mode = "vec"
    /\ tf \in Names
    /\ \E ty \in VecTypes, sec \in VecSecs, p \in Periods, n \in Lengths, pr \in DOMAIN Profiles :
         \E day \in VecStartDays(tf, RepYear(ty)) :
            scn = [year |-> RepYear(ty), start |-> [day |-> day, sec |-> sec], until |-> day, probes |-> <<>>,
                   period |-> p, n |-> n, prof |-> pr]
    /\ now = scn.start

Init ==
    /\ mode \in Modes
    /\ \/ InitWalk
       \/ InitVec
    /\ ans = Ans(tf, now)
    /\ pi = 1 /\ k = 0 /\ vec = <<>> /\ cost = 0 /\ peak = 0 /\ done = FALSE

\* the clock moves to the next probe
Tick ==
    /\ mode = "walk" /\ ~done
    /\ NextProbe.day <= scn.until
    /\ Emit(PointCase)
    /\ now' = NextProbe
    /\ pi' = NextIdx
    /\ ans' = Ans(tf, now')
    /\ UNCHANGED <<mode, tf, scn, k, vec, cost, peak, done>>

\* 23:59:59 of the last day was the last probe
WalkEnd ==
    /\ mode = "walk" /\ ~done
    /\ NextProbe.day > scn.until
    /\ Emit(PointCase)
    /\ done' = TRUE
    /\ UNCHANGED <<mode, tf, scn, now, pi, ans, k, vec, cost, peak>>

\* one period of get_tariffs / of a simulation: look up, account, advance the clock by the period
Step ==
    /\ mode = "vec" /\ k < scn.n
    /\ vec' = Append(vec, ans)
    /\ cost' = IF ans.nv = 1 THEN cost + ans.price * Power(scn, k) ELSE cost
    /\ peak' = Max2(peak, Power(scn, k))
    /\ now' = AddMinutes(now, scn.period)
    /\ ans' = Ans(tf, now')
    /\ k' = k + 1
    /\ UNCHANGED <<mode, tf, scn, pi, done>>

Finish ==
    /\ mode = "vec" /\ k = scn.n /\ ~done
    /\ Emit(VecCase)
    /\ done' = TRUE
    /\ UNCHANGED <<mode, tf, scn, now, pi, ans, k, vec, cost, peak>>

Terminated == done /\ UNCHANGED vars

Next == Tick \/ WalkEnd \/ Step \/ Finish \/ Terminated
Spec == Init /\ [][Next]_vars

-----------------------------------------------------------------------------
(* C17, part 1: for every bundled tariff and every instant exactly one rate  *)
(* schedule applies.                                                        *)
ExactlyOne ==
    LET c == Civil(now.day) IN ExactlyOneOn(Tariffs[tf], c.m, c.d, Weekday(now.day))

(* The remaining theorems hold whatever the data says about ExactlyOne.      *)
TypeOK ==
    /\ mode \in {"walk", "vec"} /\ tf \in Names /\ IsInstant(now) /\ done \in BOOLEAN
    /\ k \in 0..scn.n /\ Len(vec) = k
    /\ mode = "walk" => pi \in DOMAIN scn.probes /\ now.sec = scn.probes[pi]
    /\ ans.nv = 1 => ans.price >= 0 /\ ans.dem >= 0
AtStart == now = scn.start /\ k = 0         \* the first state of a behaviour
NewDay == pi = 1                            \* first probe of a day (every state of vec mode)
\* `ans` is the evaluation of the tariff at `now` in every state
AnsIsEval == ans = Ans(tf, now)
\* the probe list is ascending, starts at midnight and is what ProbeSecs says
ProbesOK ==
    (mode = "walk" /\ AtStart) =>
        /\ scn.probes[1] = 0
        /\ \A i \in 1..(Len(scn.probes) - 1) : scn.probes[i] < scn.probes[i + 1]
        /\ {scn.probes[i] : i \in DOMAIN scn.probes} = ProbeSecs(tf)

\* the calendar: both conversion routes and both weekday formulas agree on every visited day,
\* and the walk stays inside its month (plus the 1st of the next)
CalendarOK ==
    /\ NewDay => RoundTrip(now.day) /\ WeekdayAgrees(now.day) /\ SuccAgrees(now.day)
    /\ mode = "walk" => now.day >= scn.start.day /\ now.day <= scn.until
    /\ AtStart => TypeOf(scn.year) \in (IF mode = "walk" THEN Types ELSE VecTypes) /\ YearOf(scn.start.day) \in {scn.year - 1, scn.year}

\* the tariff files are well formed: seasons are civil dates, every schedule starts at 00:00,
\* breakpoints are distinct seconds of the day, rates are not negative
WellFormed(s) ==
    /\ s.sm \in 1..12 /\ s.sd \in 1..DaysInMonth(2020, s.sm)
    /\ s.em \in 1..12 /\ s.ed \in 1..DaysInMonth(2020, s.em)
    /\ s.mask \subseteq 0..6 /\ s.mask # {}
    /\ Len(s.bps) >= 1
    /\ \E j \in DOMAIN s.bps : s.bps[j].at = 0
    /\ \A j \in DOMAIN s.bps : s.bps[j].at \in 0..(SecPerDay - 1) /\ s.bps[j].rate >= 0
    /\ \A i, j \in DOMAIN s.bps : i # j => s.bps[i].at # s.bps[j].at
    /\ s.demand >= 0
DataWellFormed == AtStart => \A i \in DOMAIN Tariffs[tf] : WellFormed(Tariffs[tf][i])

\* a season that wraps the new year is exactly what the code's split into two ranges matches,
\* and the two halves never both match (the copy cannot make a day ambiguous)
WrapEquivalence ==
    NewDay =>
    LET c == Civil(now.day) IN
    \A i \in DOMAIN Tariffs[tf] : LET s == Tariffs[tf][i] IN
        /\ InSeason(s, c.m, c.d) <=> SplitMatches(s, c.m, c.d) # {}
        /\ Cardinality(SplitMatches(s, c.m, c.d)) <= 1

\* the price is the rate of the latest breakpoint at or before the time of day, of a schedule
\* whose season contains the date and whose mask contains its weekday; no other schedule does
PriceIsLatestBreakpoint ==
    ans.nv = 1 =>
        LET c == Civil(now.day)
            t == Tariffs[tf]
        IN  \E i \in DOMAIN t :
              /\ t[i].id = ans.sid /\ Valid(t[i], c.m, c.d, Weekday(now.day))
              /\ \A i2 \in DOMAIN t : i2 # i => ~Valid(t[i2], c.m, c.d, Weekday(now.day))
              /\ ans.dem = t[i].demand
              /\ \E j \in DOMAIN t[i].bps :
                    /\ t[i].bps[j].at <= now.sec /\ t[i].bps[j].rate = ans.price
                    /\ ~\E j2 \in DOMAIN t[i].bps : t[i].bps[j].at < t[i].bps[j2].at /\ t[i].bps[j2].at <= now.sec

\* get_tariffs: entry j of the vector is the lookup at start + j * period (closed form), and the
\* stepping clock agrees with the closed form
VecAligned ==
    mode = "vec" =>
        /\ now = AddMinutes(scn.start, k * scn.period)
        /\ k > 0 => vec[k] = Ans(tf, AddMinutes(scn.start, (k - 1) * scn.period))
VecAlignedAtEnd ==
    (mode = "vec" /\ done) =>
        /\ \A j \in 1..scn.n : vec[j] = Ans(tf, AddMinutes(scn.start, (j - 1) * scn.period))
        /\ [j \in 1..scn.n |-> vec[j].price] = GetTariffs(tf, scn.start, scn.n, scn.period)

\* energy cost and demand charge are the stated sums
SumPricePower == FoldLeft(LAMBDA acc, j : acc + vec[j].price * Power(scn, j - 1), 0, [j \in 1..Len(vec) |-> j])
MaxPower == FoldLeft(LAMBDA acc, j : Max2(acc, Power(scn, j - 1)), 0, [j \in 1..Len(vec) |-> j])
CostIsSum == (mode = "vec" /\ AllPriced) => cost = SumPricePower
PeakIsMax == mode = "vec" => peak = MaxPower /\ \A j \in 1..Len(vec) : Power(scn, j - 1) <= peak
\* what Finish emits are the stated definitions applied to the price vector and the whole profile
ChargesAtEnd ==
    (mode = "vec" /\ done /\ AllPriced) =>
        LET ws == [j \in 1..scn.n |-> Power(scn, j - 1)] IN
        /\ VecCase.costnum = SumProduct(GetTariffs(tf, scn.start, scn.n, scn.period), ws)
        /\ VecCase.dcharge = DemandCharge(DemandRate(tf, scn.start), ws)

\* the clock only moves forward; consecutive days are civil successors with consecutive weekdays
ClockMonotone == [][Before(now, now') \/ UNCHANGED now]_vars
DayStep == [][now'.day = now.day + 1 =>
                 /\ Civil(now'.day) = CivilSucc(Civil(now.day))
                 /\ Weekday(now'.day) = (Weekday(now.day) + 1) % 7]_vars
\* within one day the applicable schedule does not change, and a price change happens only at a
\* breakpoint of that schedule
SameDaySameSchedule == [][(now'.day = now.day /\ ans.nv = 1) => (ans'.nv = 1 /\ ans'.sid = ans.sid /\ ans'.dem = ans.dem)]_vars
PriceChangesAtBreakpoints ==
    [][(now'.day = now.day /\ ans.nv = 1 /\ ans'.price # ans.price) =>
          \E b \in Breakpoints(tf) : now.sec < b /\ b <= now'.sec]_vars
=============================================================================
