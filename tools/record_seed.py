#!/usr/bin/env python3
"""tools/record_seed.py <prop> <letter> <src-dir> <detected-by> <needs...>
Copies a confirmed seeded change into /verif/seeded/<prop>-<letter>/ with meta.json."""
import json, os, shutil, sys
prop, letter, src, detected = sys.argv[1:5]
needs = " ".join(sys.argv[5:])
dst = "/verif/seeded/%s-%s" % (prop, letter)
os.makedirs(dst, exist_ok=True)
for f in ("patch.diff", "demo.py", "notes.md"):
    if os.path.exists(os.path.join(src, f)):
        shutil.copy(os.path.join(src, f), dst)
meta = {"property": prop, "origin": "independent sub-agent given only the property text and a scratch worktree",
        "needs_to_manifest": needs,
        "confirmed": "patch applied to a scratch worktree of /repo: existing test suite unchanged (386 passed, same 12 "
                     "integration errors), demo.py exits non-zero with the patch and 0 without",
        "checks_run": "tools/seedcheck.sh %s %s" % (src, prop), "detected_by": detected}
json.dump(meta, open(os.path.join(dst, "meta.json"), "w"), indent=1)
print(dst)
