#!/bin/sh
# tools/confirm_seeds.sh [dir...]: for each seeded change confirm, in a scratch worktree of /repo,
# that the existing test suite still gives 386 passed with the patch, that demo.py fails with it and
# passes without it. Prints one line per change.
[ $# -gt 0 ] || set -- /verif/seeded/*
for d in "$@"; do
  wt=$(mktemp -d /tmp/confwt.XXXXXX); rmdir "$wt"
  git -C /repo worktree add -f "$wt" HEAD >/dev/null 2>&1 || { echo "$d worktree failed"; continue; }
  ( cd "$wt" && PYTHONPATH="$wt" /venv/bin/python "$d/demo.py" >/dev/null 2>&1 ); clean=$?
  ( cd "$wt" && (git apply "$d/patch.diff" 2>/dev/null || git apply -3 "$d/patch.diff" 2>/dev/null || patch -p1 -s < "$d/patch.diff") ) || { echo "$d patch does not apply"; git -C /repo worktree remove --force "$wt"; continue; }
  ( cd "$wt" && PYTHONPATH="$wt" /venv/bin/python "$d/demo.py" >/dev/null 2>&1 ); mut=$?
  tests=$( cd "$wt" && env -u ACNPORTAL_VERIF PYTHONPATH="$wt" /venv/bin/python -m pytest -q -p no:cacheprovider --timeout=900 --continue-on-collection-errors 2>&1 | tail -1 )
  echo "$(basename $d): demo clean=$clean mutated=$mut tests: $tests"
  git -C /repo worktree remove --force "$wt"; rm -rf "$wt"
done
