#!/bin/sh
# tools/seedsweep.sh <seed>... : run every registered quick check under each seed (evidence and replays
# go to scratch directories) and print one line per (check, seed) that did not exit 0.
cd "$(dirname "$0")/.." || exit 2
ids=$(/venv/bin/python -c "import json; print(' '.join(c['property_id'] for c in json.load(open('MANIFEST.json'))['checks']))")
for seed in "$@"; do
  for id in $ids; do
    out=$(VERIF_SEED=$seed VERIF_EVIDENCE_DIR=/tmp/sweep-ev VERIF_REPLAY_DIR=/tmp/sweep-replays ./check "$id" --tier quick 2>&1); rc=$?
    if [ $rc -ne 0 ]; then echo "SEED $seed $id exit=$rc"; echo "$out" | grep -A2 "VIOLATION\|MACHINERY\|Error" | head -12; else echo "seed $seed $id ok $(echo "$out" | tail -1 | sed 's/.*wall=/wall=/')"; fi
  done
done
