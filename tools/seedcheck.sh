#!/bin/sh
# tools/seedcheck.sh <seed-dir> <check-id>...   (development aid, not a registered check)
# Applies <seed-dir>/patch.diff to a scratch worktree of /repo (never to /repo itself), confirms that
# demo.py fails there, runs the given quick checks against the worktree (PYTHONPATH shadows the
# editable install) and removes the worktree.  Prints one line per check:  <id> exit=<code>.
d=$1; shift
wt=$(mktemp -d /tmp/mutwt.XXXXXX); rmdir "$wt"
git -C /repo worktree add -f "$wt" HEAD >/dev/null 2>&1 || exit 2
( cd "$wt" && (git apply "$d/patch.diff" 2>/dev/null || git apply -3 "$d/patch.diff" 2>/dev/null || patch -p1 -s < "$d/patch.diff") ) || { echo "patch does not apply"; git -C /repo worktree remove --force "$wt"; exit 2; }
( cd "$wt" && PYTHONPATH="$wt" /venv/bin/python "$d/demo.py" >/dev/null 2>&1 ); echo "demo exit=$? (non-zero expected)"
for id in "$@"; do
  ( cd /verif && PYTHONPATH="$wt" VERIF_EVIDENCE_DIR=/tmp/mut-evidence-$$ VERIF_REPLAY_DIR=/tmp/mut-replays-$$ ./check "$id" --tier quick > "/tmp/seedcheck-$$-$id.log" 2>&1 ); echo "$id exit=$? $(grep -c '^VIOLATION' /tmp/seedcheck-$$-$id.log) violation lines: $(grep -A1 '^VIOLATION' /tmp/seedcheck-$$-$id.log | grep -v '^VIOLATION' | head -2 | cut -c1-220 | tr '\n' '|')"; tag=$(echo "$d" | sed "s|/*$||" | awk -F/ '{print $(NF-1)"-"$NF}'); cp "/tmp/seedcheck-$$-$id.log" "/tmp/seedcheck-$tag-$id.log"; rm -rf /tmp/mut-evidence-$$ /tmp/mut-replays-$$ "/tmp/seedcheck-$$-$id.log"
done
git -C /repo worktree remove --force "$wt"; rm -rf "$wt"
