#!/bin/sh
# tools/seedproc.sh <seed-dir> <check-id>... : confirm a seeded change (suite still 386 passed, demo fails with /
# passes without the patch) and run the given quick checks against it, all in scratch worktrees.
d=$1; shift
/verif/tools/confirm_seeds.sh "$d"
/verif/tools/seedcheck.sh "$d" "$@"
