"""C13: EVSE.tla behaviours replayed through the real EVSE classes."""
import json
import random
import warnings
from datetime import datetime

from .common import Report, jhash
from .tlc import run_tlc, require_ok

KWH = 60000.0
U = 1e4  # spec current unit: 1e-4 A


def close(x, n, tol=1e-9):
    return abs(float(x) - float(n)) <= tol * max(1.0, abs(float(n)))


def build(kind, form=0):
    """The real EVSE for a kind of EVSEDefs.tla.  `form` selects how the level list of a finite-rate
    EVSE is handed over (the constructor documents an iterable): the allowable set depends on the
    values only (Levels(k) is a set), never on the container."""
    from acnportal.acnsim.models import EVSE, DeadbandEVSE, FiniteRatesEVSE
    import numpy as np
    def num(x):     # whole-valued limits are written as Python ints in every other case (32 instead of 32.0)
        v = x / U
        return int(v) if form % 2 and float(v).is_integer() else v

    if kind["cls"] == "cont":
        return EVSE("E-1", max_rate=num(kind["max"]), min_rate=num(kind["min"]))
    if kind["cls"] == "deadband":
        if form % 3 == 2:
            # the deprecated keyword min_rate is accepted (DeprecationWarning) and has no meaning for this class: the
            # station is the same station - it accepts, and advertises, {0} u [deadband_end, max_rate]
            return DeadbandEVSE("E-1", deadband_end=num(kind["end"]), max_rate=num(kind["max"]),
                                min_rate=(kind["end"] + (20000 if form % 2 else -30000)) / U)
        return DeadbandEVSE("E-1", deadband_end=num(kind["end"]), max_rate=num(kind["max"]))
    lv = [num(l) for l in kind["levels"]]
    form = form % 6
    arg = (lv, tuple(lv), np.array(lv), (x for x in lv), iter(lv), dict.fromkeys(lv).keys())[form]
    return FiniteRatesEVSE("E-1", arg)


def pilot_value(step, salt):
    """The number handed to set_pilot: NaN / +-inf for the special probes; a whole-ampere pilot is written as a Python
    int, a float, or a numpy integer scalar (signed or unsigned) - the value is the same, so the verdict is."""
    import numpy as np
    if step.get("special"):
        return {"nan": float("nan"), "inf": float("inf"), "-inf": float("-inf")}[step["special"]]
    v = step["p"] / U
    if float(v).is_integer() and 0 <= v < 200:
        i = int(v)
        return (i, float(i), np.int64(i), np.uint16(i), np.uint32(i))[salt % 5]   # (not float32: its arithmetic is legitimately coarser)
    return v


def companion(kind):
    from acnportal.acnsim.models import DeadbandEVSE, FiniteRatesEVSE
    if kind["cls"] == "deadband":
        return DeadbandEVSE("E-0", deadband_end=(kind["end"] + kind["max"]) / 2.0 / U, max_rate=kind["max"] / U)
    if kind["cls"] == "finite":
        pos = sorted({l for l in kind["levels"] if l > 0})
        if not pos:
            return None
        lo, hi = pos[0], pos[-1]
        mid = {lo, hi, (lo + hi) // 2 + 1}       # never equal to the kind's own interior levels on the lattice
        return FiniteRatesEVSE("E-0", [l / U for l in sorted(mid)])
    return None


def replay_case(b):
    """Returns None or a dict describing the first mismatch."""
    from acnportal.acnsim.models import EV, Battery, InvalidRateError, StationOccupiedError
    from acnportal.acnsim import ChargingNetwork, Simulator, EventQueue, Interface
    from acnportal.algorithms import BaseAlgorithm
    kind, V, T = b["kind"], b["v"], b["t"]
    with warnings.catch_warnings():
        warnings.simplefilter("ignore")
        form = int(jhash(b)[:4], 16)
        evse = build(kind, form)
        net = ChargingNetwork()
        # what a station advertises depends on its own kind only: a companion of the same class with the same smallest
        # and largest rate but a different allowable set in between shares the network (registered before or after)
        comp = companion(kind)
        if comp is not None and form % 2 == 0:
            net.register_evse(comp, V, 0)
        net.register_evse(evse, V, 0)
        if comp is not None and form % 2 == 1:
            net.register_evse(comp, V, 0)
        sim = Simulator(net, BaseAlgorithm(), EventQueue(), datetime(2020, 1, 1), period=T, verbose=False)
        iface = Interface(sim)
        # advertised limits, through every route a scheduler can use
        allow = sorted(x / U for x in b["allow"])
        cont, adv = iface.allowable_pilot_signals("E-1")
        if bool(cont) != bool(b["cont"]):
            return {"field": "is_continuous", "spec": b["cont"], "impl": cont}
        if kind["cls"] != "finite":
            spec_adv = [kind["min"] / U if kind["cls"] == "cont" else kind["end"] / U, kind["max"] / U]
        else:
            spec_adv = allow
        if [float(x) for x in adv] != [float(x) for x in spec_adv]:
            return {"field": "allowable_pilot_signals", "spec": spec_adv, "impl": list(adv)}
        for name, got, want in (("Interface.max_pilot_signal", iface.max_pilot_signal("E-1"), b["max"] / U),
                                ("Interface.min_pilot_signal", iface.min_pilot_signal("E-1"), b["min"] / U),
                                ("EVSE.max_rate", evse.max_rate, b["max"] / U),
                                ("EVSE.min_rate", evse.min_rate, b["min"] / U),
                                ("infrastructure_info.max_pilot", iface.infrastructure_info().max_pilot[net.station_ids.index("E-1")], b["max"] / U)):
            if not close(got, want):
                return {"field": name, "spec": want, "impl": float(got)}
        # every advertised value is itself accepted (vacant station: no side effects)
        for a in list(adv) + [iface.max_pilot_signal("E-1")] + ([0] if kind["cls"] != "cont" else []):
            try:
                build(kind, form + 1).set_pilot(a, V, T)
            except InvalidRateError:
                return {"field": "advertised_value_rejected", "spec": "accepted", "impl": "InvalidRateError(%r)" % a}
        # ... and what is advertised stays truthful whatever a caller does to the description it was handed
        info = iface.infrastructure_info()
        for arr in list(info.allowable_pilots) + [info.max_pilot, info.min_pilot, info.is_continuous]:
            try:
                arr[...] = 3.0
            except (TypeError, ValueError):
                pass
        c1, a1 = iface.allowable_pilot_signals("E-1")
        c1b, a1b = cont, adv
        if (bool(c1), [float(x) for x in a1]) != (bool(c1b), [float(x) for x in a1b]):
            return {"field": "advertised_after_caller_mutation", "spec": [bool(c1b), [float(x) for x in a1b]],
                    "impl": [bool(c1), [float(x) for x in a1]]}
        for name, got, want in (("Interface.max_pilot_signal(after mutation)", iface.max_pilot_signal("E-1"), b["max"] / U),
                                ("Interface.min_pilot_signal(after mutation)", iface.min_pilot_signal("E-1"), b["min"] / U)):
            if not close(got, want):
                return {"field": name, "spec": want, "impl": float(got)}
        evs = {}
        for n, step in enumerate(b["ops"]):
            op = step["op"]
            res = "ok"
            if op == "plugin":
                e = b["evs"][step["ev"] - 1]
                ev = EV(0, 10, 1.0, "E-1", "sess-%d-%d" % (step["ev"], n), Battery(e["cap"] / KWH, e["init"] / KWH, e["pw"] / 1000.0))
                try:
                    evse.plugin(ev)
                except StationOccupiedError:
                    res = "occupied"
            elif op == "unplug":
                evse.unplug()
            elif op == "round_trip":
                evse = type(evse).from_json(evse.to_json())
                # the loaded station advertises what the original did
                if kind["cls"] != "finite":
                    spec_adv = [kind["min"] / U if kind["cls"] == "cont" else kind["end"] / U, kind["max"] / U]
                else:
                    spec_adv = allow
                got = (bool(evse.is_continuous), [float(x) for x in evse.allowable_pilot_signals],
                       float(evse.max_rate), float(evse.min_rate))
                want = (bool(b["cont"]), [float(x) for x in spec_adv], b["max"] / U, b["min"] / U)
                if got != want:
                    return {"field": "advertised_after_round_trip", "step": n, "op": step, "spec": want, "impl": got}
            else:
                try:
                    evse.set_pilot(pilot_value(step, n + form), V, T)
                except InvalidRateError:
                    res = "invalid"
            if res != step["res"]:
                return {"field": "outcome", "step": n, "op": step, "spec": step["res"], "impl": res}
            occ = 0 if evse.ev is None else int(evse.ev.session_id.split("-")[1])
            if occ != step["occ"]:
                return {"field": "occupant", "step": n, "op": step, "spec": step["occ"], "impl": occ}
            if not close(evse.current_pilot, step["pilot"] / U):
                return {"field": "current_pilot", "step": n, "op": step, "spec": step["pilot"] / U, "impl": evse.current_pilot}
            if evse.ev is not None:
                e_impl = evse.ev.energy_delivered * KWH * U
                c_impl = evse.ev._battery._current_charge * KWH * U
                if not close(e_impl, step["evE"], 1e-9) and abs(e_impl - step["evE"]) > 1e-3:
                    return {"field": "energy_delivered", "step": n, "op": step, "spec": step["evE"], "impl": e_impl}
                if not close(c_impl, step["chg"], 1e-9) and abs(c_impl - step["chg"]) > 1e-3:
                    return {"field": "battery_charge", "step": n, "op": step, "spec": step["chg"], "impl": c_impl}
    return None


def nontrivial(b):
    rs = [s["res"] for s in b["ops"]]
    return "invalid" in rs or "occupied" in rs or any(s["op"] == "set_pilot" and s["res"] == "ok" and s["occ"] for s in b["ops"])


def check_C13(tier, seed):
    rep = Report("C13", tier, seed)
    rep.rule = ("call sequences (plugin / unplug / set_pilot at boundary+offset probes) enumerated by TLC per EVSE kind; "
                "distinct by content; non-trivial = contains a refused call or a charge of a connected EV")
    rep.assumptions += ["pilots are probed at every boundary +-{0, 0.5, 0.9, 1.1, 2}e-3 A, never exactly at +-1e-3 "
                        "(floating point could not decide those)",
                        "accepted negative pilots (within tolerance of 0) are only applied to a vacant station"]
    mc = run_tlc("MC_EVSE", "EVSE_mc", coverage=True, overrides={} if tier == "thorough" else {"MaxOps": "= 2"})
    rep.add_tlc(mc, "exhaustive model checking: AdvertisedAccepted, PilotIsValid, RejectChangesNothing, OccupiedRefused",
                "EVSE_mc", require_actions=["Plugin", "Unplug", "DoSetPilot", "SetSpecial", "RoundTrip", "Finish"])
    require_ok(mc, "EVSE model checking")
    cases = []
    gen = run_tlc("MC_EVSE", "EVSE_gen", workers=1, overrides={"MaxOps": "= 2"} if tier == "quick" else {"MaxOps": "= 3"},
                  timeout=3000)
    require_ok(gen, "EVSE generation")
    rep.add_tlc(gen, "exhaustive behaviour generation", "EVSE_gen")
    cases += gen.emitted.get("BHV", [])
    n_ex = len(cases)
    sim = run_tlc("MC_EVSE", "EVSE_gen", workers=1, simulate=3000 if tier == "quick" else 60000, depth=9, seed=seed,
                  overrides={"MaxOps": "= 6"})
    require_ok(sim, "EVSE simulation")
    rep.add_tlc(sim, "sampled longer call sequences (-simulate)", "EVSE_gen MaxOps=6")
    seen = set()
    for b in cases + sim.emitted.get("BHV", []):
        k = jhash(b)
        if k in seen:
            continue
        seen.add(k)
        d = replay_case(b)
        rep.replayed += 1
        rep.count(k, nontrivial(b))
        if d is not None:
            rep.violation("C13:%s:%s" % (b["kind"]["cls"], d["field"]), json.dumps(d, default=repr)[:400], {"kind": "case", "module": "props_evse", "case": b, "mismatch": d})
    rep.exhaustive = True
    rep.notes.append("all %d call sequences of the exhaustive configuration replayed, plus %d sampled longer ones" % (n_ex, len(seen) - n_ex))
    rep.sample(cases[7])
    rep.sample(cases[-1])
    from .props_network import check_network    # refused plug-ins / invalid pilots at network level (Network.tla)
    check_network(rep, tier, seed, "C13")
    return rep.finish()
