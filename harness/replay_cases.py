"""Replay of recorded single cases (payload kind 'case': {module, case})."""
import importlib
import json


def replay_case(prop, path, rec):
    p = rec["payload"]
    mod = importlib.import_module("harness." + p["module"])
    fn = getattr(mod, p.get("fn", "replay_case"))
    d = fn(p["case"])
    if d is None:
        print("replay: the implementation now agrees with the specification on this case")
        return 0
    print("replay: still disagrees: %s" % json.dumps(d, default=repr)[:600])
    print("VIOLATION property=%s replay=%s" % (prop, path))
    return 1
