"""C18: the analysis functions (acnportal/acnsim/analysis/__init__.py) against Analysis.tla.

Analysis.tla EXTENDS the simulator specification AcnSim.tla and defines every analysis function as
an operator over the recorded trajectory (dE, Volt, T, sess, evE, t).  TLC

  (A) model-checks the theorems that tie these definitions to each other and to the simulator's own
      bookkeeping (Analysis_mc_*.cfg), and
  (B) emits complete behaviours followed by one record with the value of every analysis function
      (Analysis_gen*.cfg; the theorems are evaluated on the sampled states as well).

Each emitted behaviour is replayed through the real Simulator (harness/acnsim_replay.py: the
implementation must follow the specification step by step) on a network with the spec's heterogeneous
voltages, phase angles and constraint rows; then every real analysis function is called on the
completed simulator and compared with the value TLC computed.

Float policy: 1e-9 relative.  Phasor currents are compared as squared magnitudes with the tolerance
scaled by the row's linear bound (sum |coef|*rate)^2, because cancellation between phases is relative
to the summands.  Threshold decisions are compared on decisive lattice points only.
"""
import json
import math
import os
import random
import warnings
from concurrent.futures import ThreadPoolExecutor
from datetime import datetime, timedelta

from .common import Report, jhash
from .tlc import run_tlc, require_ok

KWH = 60000.0
MODULE = "MC_Analysis"
ACTIONS = ["AddSessionA", "StartA", "LoopA", "ProcA", "DecideA", "SchedReturnA", "UpdateA", "ApplyA",
           "ClosePick", "FinishA"]
THEOREMS = ("Quantised, A_Energy, A_Proportion, A_Peak, A_Phasor, A_PhaseSum, A_RightNames, A_Nema, A_Datetimes, "
            "A_Cost (+ ASSUME SelectionRight: every subset of the ids in every order)")
KINDS = ["cont", "deadband", "finite"]
REL = 1e-9


def close(x, want, rel=REL, abs_=1e-12):
    x, want = float(x), float(want)
    return abs(x - want) <= max(abs_, rel * max(abs(x), abs(want)))


# ------------------------------------------------------------------ real objects
_CLS = {}


def _classes():
    """AnalysisReplay: acnsim_replay.Replay on a network built from the constants Analysis.tla emitted."""
    if _CLS:
        return _CLS
    from . import acnsim_replay as ar
    from acnportal.acnsim.models import EVSE, DeadbandEVSE, FiniteRatesEVSE
    from acnportal.acnsim.network import Current

    def build_network(start, ana, var):
        ns, volt = start["ns"], start["volt"]
        order = ar.station_order(ns, var)
        net = ar.RecordingNetwork()
        kinds = var.evse_kinds or ["cont"] * ns
        for s in order:
            k = kinds[s - 1]
            if k == "cont":
                evse = EVSE(ar.sid(s), max_rate=32)
            elif k == "deadband":
                evse = DeadbandEVSE(ar.sid(s), deadband_end=6, max_rate=32)
            else:
                evse = FiniteRatesEVSE(ar.sid(s), [32, 8, 0, 16, 24])
            net.register_evse(evse, volt[s - 1], ana["phase"][s - 1])       # heterogeneous V, three phases
        rows = list(zip(ana["conNames"], ana["conCoef"]))
        corder = getattr(var, "con_order", None) or list(range(len(rows)))
        den = float(ana["coefDen"])
        # the network has a history: a constraint registered first and removed again once the others are in place (the
        # rows of the remaining ones move up; what is asked for by name is still that constraint's current)
        scaffold = var.rng.random() < 0.5
        if scaffold:
            net.add_constraint(Current([ar.sid(1)]), 5.0, name="scaffold")
        for n in corder:
            name, coef = rows[n]
            loads = {}
            for s in range(1, ns + 1):
                c = coef[s - 1]
                if c != 0 or var.rng.random() < 0.3:       # an explicit 0 coefficient is the same row
                    loads[ar.sid(s)] = c / den
            net.add_constraint(Current(loads), 1000.0, name=name)
        if scaffold:
            net.remove_constraint("scaffold")
        return net

    class AnalysisReplay(ar.Replay):
        def __init__(self, bhv, var):
            self.ana = bhv[-1]
            assert self.ana["a"] == "analysis"
            self.integral_mismatch = None
            super().__init__(bhv, var)

        def _build(self):
            # Replay._build (sessions, events, scheduler, Simulator) on the network Analysis.tla describes:
            # its call of the module-level build_network is redirected for the duration of the call.
            orig = ar.build_network
            ar.build_network = lambda st, var, cls=None: build_network(st, self.ana, var)
            try:
                super()._build()
            finally:
                ar.build_network = orig

        def station_kinds(self):
            return list(self.var.evse_kinds or ["cont"] * self.ns)

        def phase_of(self, s):
            return self.ana["phase"][s - 1]

        def compare_final(self, r):
            # Replay's last C02 comparison calls acnsim.aggregate_power: that one is this property's business
            try:
                super().compare_final(r)
            except ar.Divergence as d:
                if not d.field.startswith("total energy"):
                    raise
                self.integral_mismatch = d

    _CLS.update(ar=ar, AnalysisReplay=AnalysisReplay)
    return _CLS


class StubTariff:
    """What energy_cost / demand_charge need of a tariff: the spec's price vector and demand rate."""

    def __init__(self, cents, rate):
        self.cents, self.rate = cents, rate

    def get_tariffs(self, start, length, period):
        return [(self.cents[k] / 100.0 if k < len(self.cents) else 0.0) for k in range(length)]

    def get_demand_charge(self, start):
        return float(self.rate)


# ------------------------------------------------------------------ comparison with the spec's values
def _mm(fn, aspect, spec, impl, **kw):
    d = {"fn": fn, "aspect": aspect, "spec": spec, "impl": impl}
    d.update(kw)
    return d


def _as_map(v):
    return {} if v in ([], {}) else dict(v)


def _series(fn, arr, nums, den, t, what=None):
    import numpy as np
    a = np.asarray(arr)
    if a.ndim != 1 or a.shape[0] != t:
        return _mm(fn, "length", t, list(a.shape), what=what)
    for k in range(t):
        if not close(a[k], nums[k] / den):
            return _mm(fn, "value", nums[k] / den, float(a[k]), period=k, what=what)
    return None


def compare_analysis(sim, ana, stats=None):
    """Call every analysis function on the completed simulator; first mismatch with the spec or None."""
    import numpy as np
    from acnportal.acnsim import analysis as an
    from .acnsim_replay import START
    stats = stats if stats is not None else {}
    t, vl, T = ana["t"], ana["vl"], ana["T"]
    unit2 = float(ana["q"] * ana["coefDen"]) ** 2
    names = ana["conNames"]
    bound = {nm: ana["bound"][i] for i, nm in enumerate(names)}

    d = _series("aggregate_current", an.aggregate_current(sim), ana["aggCurN"], float(vl * T), t)
    if d:
        return d
    d = _series("aggregate_power", an.aggregate_power(sim), ana["aggPowN"], 1000.0 * vl * T, t)
    if d:
        return d

    # ---- constraint_currents: None, the fixed requests, the request the spec picked ----------------------
    reqs = [(None, _as_map(ana["ccAll"]))] + [(list(c["req"]), _as_map(c["ans"])) for c in ana["cc"]]
    reqs.append((list(ana["pick"]["req"]), _as_map(ana["pick"]["ans"])))
    for n_req, (req, ans) in enumerate(reqs):
        forms = [{}, {"return_magnitudes": False}, {"return_magnitudes": True}]
        forms = forms[n_req % 3:] + forms[:n_req % 3]          # which representation is asked for first varies
        for n_form, kwargs in enumerate(forms):
            if req is not None:
                # the requested ids as a list, a tuple, a set, dict keys or an array: only the names matter
                ids = list(req)
                cont = (n_req + n_form) % 5
                ids = (ids, tuple(ids), set(ids), dict.fromkeys(ids).keys(), np.array(ids))[cont]
                kwargs = dict(kwargs, constraint_ids=ids)
            out = an.constraint_currents(sim, **kwargs)
            what = {"constraint_ids": req, "kwargs": {k: v for k, v in kwargs.items() if k != "constraint_ids"}}
            if set(out) != set(ans):
                return _mm("constraint_currents", "names", sorted(ans), sorted(out), what=what)
            bad = None
            mags = {}
            for nm in ans:
                z = np.asarray(out[nm])
                if np.iscomplexobj(z) and z.ndim == 1 and z.shape[0] == t:
                    # the phasor itself, where the function hands it out: sum_s coef[s] * rate[s, k] * e^{j phase[s]}
                    # (rates as recorded; the rotation matters also when every station sits on the same phase)
                    row = ana["conCoef"][ana["conNames"].index(nm)]
                    for k in range(t):
                        want = sum(row[s - 1] / float(ana["coefDen"]) * float(sim.charging_rates[sim.network.station_ids.index(
                            "ST-%d" % s), k]) * np.exp(1j * np.deg2rad(ana["phase"][s - 1])) for s in range(1, len(row) + 1))
                        if abs(z[k] - want) > 1e-9 * max(1.0, abs(want)) and bad is None:
                            bad = _mm("constraint_currents", "phasor", [want.real, want.imag], [z[k].real, z[k].imag],
                                      what=what, name=nm, period=k)
                a = np.abs(z)            # magnitudes, whatever the polarity of the flag
                if a.ndim != 1 or a.shape[0] != t:
                    return _mm("constraint_currents", "length", t, list(a.shape), what=what, name=nm)
                mags[nm] = a
                for k in range(t):
                    exact = ans[nm][k] / unit2
                    tol = REL * max((bound[nm][k] ** 2) / unit2, 1e-6)
                    if abs(float(a[k]) ** 2 - exact) > tol and bad is None:
                        bad = _mm("constraint_currents", "value", exact, float(a[k]) ** 2, what=what, name=nm,
                                  period=k, unit="A^2 (squared magnitude)")
            if bad:
                # right values under wrong names?  (then some assignment of the returned rows to the names fits)
                def fits(nm, other):
                    return all(abs(float(mags[other][k]) ** 2 - ans[nm][k] / unit2)
                               <= REL * max((bound[nm][k] ** 2) / unit2, 1e-6) for k in range(t))
                if all(any(fits(nm, o) for o in ans) for nm in ans):
                    bad["aspect"] = "names"
                return bad
            stats["cc_calls"] = stats.get("cc_calls", 0) + 1

    # ---- energy totals and proportions ----------------------------------------------------------------
    if not close(an.total_energy_delivered(sim), ana["delivered"] / KWH):
        return _mm("total_energy_delivered", "value", ana["delivered"] / KWH, float(an.total_energy_delivered(sim)))
    if not close(an.total_energy_requested(sim), ana["requested"] / KWH):
        return _mm("total_energy_requested", "value", ana["requested"] / KWH, float(an.total_energy_requested(sim)))
    n = ana["nsess"]
    if n != len(sim.ev_history):
        return _mm("ev_history", "size", n, len(sim.ev_history))
    if n > 0 and ana["requested"] > 0:
        got = an.proportion_of_energy_delivered(sim)
        if not close(got, ana["delivered"] / ana["requested"]):
            return _mm("proportion_of_energy_delivered", "value", ana["delivered"] / ana["requested"], float(got))
    else:
        stats["undefined"] = stats.get("undefined", 0) + 1      # no session: 0/0, the property defines nothing
    if n > 0:
        for m in ana["met"]:
            if not m["decisive"]:
                stats["non_decisive"] = stats.get("non_decisive", 0) + 1
                continue
            got = an.proportion_of_demands_met(sim, threshold=m["thr"] / KWH)
            if not close(got, m["n"] / n, abs_=1e-12):
                return _mm("proportion_of_demands_met", "threshold", m["n"] / n, float(got), threshold_Wmin=m["thr"],
                           sessions=n)
            if m["thr"] == 6000:                                 # the default threshold is 0.1 kWh
                got = an.proportion_of_demands_met(sim)
                if not close(got, m["n"] / n, abs_=1e-12):
                    return _mm("proportion_of_demands_met", "default", m["n"] / n, float(got), sessions=n)

    # ---- NEMA current unbalance ---------------------------------------------------------------------------
    for n_rec, rec in enumerate(ana["nema"]):
        ids, u = list(rec["ids"]), rec["u"]
        # analysis functions are functions of the recorded trajectory: asking for the same currents in the other
        # representation just before must not change what the unbalance formula sees
        an.constraint_currents(sim, return_magnitudes=bool(n_rec % 2 == 0), constraint_ids=list(ids))
        with np.errstate(all="ignore"):
            outs = [np.asarray(an.current_unbalance(sim, ids), dtype=float),
                    np.asarray(an.current_unbalance(sim, ids, unbalance_type="NEMA"), dtype=float)]
        for out in outs:
            if out.ndim != 1 or out.shape[0] != t:
                return _mm("current_unbalance", "length", t, list(out.shape), phase_ids=ids)
            for k in range(t):
                mags = [math.sqrt(u["sq"][j][k]) for j in range(3)]           # radical form (any rows)
                if sum(mags) == 0:
                    stats["undefined"] = stats.get("undefined", 0) + 1        # 0/0: the formula defines nothing
                    continue
                mean = sum(mags) / 3.0
                want = (max(mags) - mean) / mean
                if not close(out[k], want, abs_=1e-9):
                    return _mm("current_unbalance", "value", want, float(out[k]), phase_ids=ids, period=k,
                               squared_magnitudes=[u["sq"][j][k] for j in range(3)])
                if u["collinear"]:                                            # exact rational form
                    num, den = u["frac"][k]
                    if not close(out[k] * den, num, abs_=1e-9 * den):
                        return _mm("current_unbalance", "value", num / den, float(out[k]), phase_ids=ids, period=k,
                                   form="(3 max - sum)/sum")

    # ---- datetimes_array ---------------------------------------------------------------------------------
    dts = np.asarray(an.datetimes_array(sim))
    if dts.ndim != 1 or dts.shape[0] != t:
        return _mm("datetimes_array", "length", t, list(dts.shape))
    for k in range(t):
        want = np.datetime64(START + timedelta(minutes=ana["dt"][k]))
        if not dts[k] == want:
            return _mm("datetimes_array", "value", str(want), str(dts[k]), period=k)

    # The definition "(k-1) * T" does not care about the unit of T: the same t periods are simulated again with
    # the unit of T bound to 0.5 and 0.1 minutes (a period need not be a whole number of minutes) and once
    # with a timezone-aware start; entry k must be start + (k-1) * T units.
    if t >= 2:
        for unit, start in ((0.5, START), (0.1, START), (1.5, START)):
            sim2 = _plain_run(t, T * unit, start)
            dts2 = np.asarray(an.datetimes_array(sim2))
            if dts2.ndim != 1 or dts2.shape[0] != t:
                return _mm("datetimes_array", "length", t, list(dts2.shape), period_minutes=T * unit)
            for k in range(t):
                want = np.datetime64(start + timedelta(seconds=round(ana["dt"][k] * unit * 60)))
                if not dts2[k] == want:
                    return _mm("datetimes_array", "value", str(want), str(dts2[k]), period=k, period_minutes=T * unit)

        # a timezone-aware start: entry k is the wall clock of the start + (k-1) * T, whatever kind of tzinfo it is - pytz (fixed offset once localised), zoneinfo and dateutil (offset
        # computed from the wall time), fixed UTC offsets - and also when the simulated window contains a change of the
        # UTC offset (Los Angeles, 8 March 2020 02:00; 1 November 2020 02:00)
        import pytz
        from zoneinfo import ZoneInfo
        from dateutil import tz as du_tz
        from datetime import timezone
        la = "America/Los_Angeles"
        for start in (pytz.timezone(la).localize(datetime(2020, 3, 8, 0, 45)),
                      datetime(2020, 3, 8, 1, 15, tzinfo=ZoneInfo(la)), datetime(2020, 11, 1, 0, 45, tzinfo=ZoneInfo(la)),
                      datetime(2020, 3, 8, 1, 30, tzinfo=du_tz.gettz(la)),
                      datetime(2020, 3, 8, 1, 30, tzinfo=timezone(timedelta(hours=-8)))):
            P = 30
            sim2 = _plain_run(t, P, start)
            dts2 = np.asarray(an.datetimes_array(sim2))
            if dts2.ndim != 1 or dts2.shape[0] != t:
                return _mm("datetimes_array", "length", t, list(dts2.shape), start=str(start))
            for k in range(t):
                # (documented: "timezone information is not included with the datetime array" - the entries are the wall
                # clock of the start plus whole periods)
                want = np.datetime64(start.replace(tzinfo=None) + timedelta(minutes=P * k))
                if not dts2[k] == want:
                    return _mm("datetimes_array", "value", str(want), str(dts2[k]), period=k, start=str(start),
                               tz=type(start.tzinfo).__name__)

    # ---- energy_cost, demand_charge -----------------------------------------------------------------------
    tariff = StubTariff(ana["price"], ana["demandRate"])
    got = an.energy_cost(sim, tariff)
    if not close(got, ana["costN"] / (100.0 * KWH)):
        return _mm("energy_cost", "value", ana["costN"] / (100.0 * KWH), float(got))
    got = an.demand_charge(sim, tariff)
    if not close(got, ana["demandN"] / (1000.0 * T)):
        return _mm("demand_charge", "value", ana["demandN"] / (1000.0 * T), float(got))
    return None


# ------------------------------------------------------------------ one case
def _plain_run(t, period, start):
    """A completed real simulation of exactly t periods with the given period length (minutes)."""
    import warnings
    from acnportal.acnsim import Simulator, ChargingNetwork, EventQueue, PluginEvent, EV, Battery, EVSE
    from acnportal.algorithms import BaseAlgorithm

    class Idle(BaseAlgorithm):
        def schedule(self, active_sessions):
            return {}

    with warnings.catch_warnings():
        warnings.simplefilter("ignore")
        net = ChargingNetwork()
        net.register_evse(EVSE("D-1", max_rate=32), 208, 0)
        ev = EV(0, t - 1, 1.0, "D-1", "d-1", Battery(10, 0, 7))
        sim = Simulator(net, Idle(), EventQueue([PluginEvent(0, ev)]), start, period=period, verbose=False)
        sim.run()
    assert sim.iteration == t, (sim.iteration, t)
    return sim


def make_var(kw, seed):
    ar = _classes()["ar"]
    kw = dict(kw)
    con_order = kw.pop("con_order", None)
    var = ar.Variation(random.Random(seed), **kw)
    var.con_order = con_order
    return var


def _replay(case):
    """-> (mismatch or None, foreign owner or None, stats)"""
    cls = _classes()
    ar = cls["ar"]
    stats = {}
    with warnings.catch_warnings():
        warnings.simplefilter("ignore")
        rp = cls["AnalysisReplay"](case["bhv"], make_var(case["var"], case["seed"]))
        try:
            rp.run()
        except ar.Divergence as dv:
            return None, dv.owner, {"divergence": dv.as_dict()}
        try:
            d = compare_analysis(rp.sim, rp.ana, stats)
        except Exception as e:  # noqa: an analysis function raised on a completed simulation
            d = _mm("analysis", "exception", "a value", "%s: %s" % (type(e).__name__, e))
        if d is None and rp.integral_mismatch is not None:
            dv = rp.integral_mismatch
            d = _mm("aggregate_power", "integral", dv.spec, dv.impl, note="sum(aggregate_power)*T/60 != total energy")
    return d, None, stats


def replay_case(case):
    """Execute ONE emitted behaviour + analysis record through the real code; first mismatch or None."""
    d, foreign, _ = _replay(case)
    if foreign is not None:
        return {"fn": "simulator", "aspect": "foreign", "owner": foreign,
                "note": "the simulator itself diverged from AcnSim.tla (another property's business)"}
    return d


def _work(case):
    try:
        return _replay(case)
    except Exception as e:  # noqa
        return {"fn": "harness", "aspect": "exception", "spec": "", "impl": "%s: %s" % (type(e).__name__, e)}, "HARNESS", {}


def nontrivial(bhv):
    """Energy was delivered and some constraint current is strictly below the plain weighted sum of its
    stations' rates: phasors on different phases actually cancelled."""
    ana = bhv[-1]
    if ana["delivered"] <= 0:
        return False
    cc = _as_map(ana["ccAll"])
    for i, nm in enumerate(ana["conNames"]):
        for k in range(ana["t"]):
            if 0 < ana["bound"][i][k] and cc[nm][k] < ana["bound"][i][k] ** 2:
                return True
    return False


def variation_for(i, bhv, seed):
    r = random.Random(seed * 7919 + i)
    ns = bhv[0]["ns"]
    nc = len(bhv[-1]["conNames"])
    perm = list(range(ns))
    r.shuffle(perm)
    corder = list(range(nc))
    if i % 2:
        r.shuffle(corder)
    sp = list(range(len(bhv[0]["sess"])))
    r.shuffle(sp)
    return {"st_perm": perm if i % 3 else None, "sess_perm": sp if i % 5 == 0 and sp else None,
            "evse_kinds": [r.choice(KINDS) for _ in range(ns)], "con_order": corder, "store_hist": bool(i % 4),
            "constraints": "analysis"}


# ------------------------------------------------------------------ binding self-test
def self_test(rep, bhv, seed):
    """Corrupt one recorded value at a time: the comparison must notice each (else the binding is vacuous)."""
    base = {"bhv": bhv, "var": variation_for(1, bhv, seed), "seed": seed}
    if replay_case(base) is not None:
        return  # the case itself fails: reported by the main loop
    ana = bhv[-1]
    k = max(range(ana["t"]), key=lambda j: ana["aggPowN"][j])
    tried = 0

    def corrupt(fn):
        b2 = json.loads(json.dumps(bhv))
        fn(b2[-1])
        return replay_case({"bhv": b2, "var": base["var"], "seed": seed})

    def swap_names(a):
        m = a["cc"][4]["ans"]
        m["phA"], m["phB"] = m["phB"], m["phA"]

    checks = [("aggPowN", lambda a: a["aggPowN"].__setitem__(k, a["aggPowN"][k] + max(1, a["aggPowN"][k] // 10 ** 8))),
              ("dt", lambda a: a["dt"].__setitem__(len(a["dt"]) - 1, a["dt"][-1] + 1)),
              ("delivered", lambda a: a.__setitem__("delivered", a["delivered"] + 1))]
    m = _as_map(ana["cc"][4]["ans"])
    if m.get("phA") != m.get("phB"):
        checks.append(("names", swap_names))
    for what, fn in checks:
        if corrupt(fn) is None:
            raise RuntimeError("binding self-test: corrupted %s was not noticed" % what)
        tried += 1
    rep.notes.append("binding self-test: %d corrupted analysis records were all rejected" % tried)


# ------------------------------------------------------------------ the check
def check_C18(tier, seed, _n=None, _procs=None):
    from .props_acnsim import gen_behaviours, run_pool
    rep = Report("C18", tier, seed)
    rep.rule = ("behaviours of Analysis.tla (the AcnSim simulator model + the value of every analysis function) emitted "
                "by TLC, de-duplicated by content hash; non-trivial = energy was delivered and for some constraint and "
                "period the phasor sum is strictly smaller than the weighted sum of the station rates (currents on "
                "different phases cancelled)")
    rep.assumptions += [
        "phase angles in {30, -90, 150} degrees; constraint coefficients are multiples of 1/4; charging rates are "
        "multiples of 0.1 A (TLC checks invariant Quantised), so squared current magnitudes are exact integers in the spec",
        "the simulator follows AcnSim.tla on each behaviour (checked step by step during the replay; a divergence there "
        "is another property's finding and is counted as foreign, not compared further)",
        "floats at 1e-9 relative; squared phasor magnitudes at 1e-9 of (sum |coef|*rate)^2; thresholds only where the "
        "remaining demand differs from the threshold or no energy was delivered (exact in floats)",
        "undefined values are not compared: proportions without sessions (0/0), NEMA unbalance when all three currents "
        "are 0; the polarity of return_magnitudes is not compared (magnitudes in both settings)",
        "energy_cost / demand_charge are evaluated with a stub tariff (price vector and rate from the spec); the "
        "tariff lookup itself belongs to C17",
    ]
    quick = tier == "quick"
    # (A) theorems, exhaustively; (B) behaviours + analysis values.  The TLC runs are independent: started together.
    cfg = "Analysis_mc_quick" if quick else "Analysis_mc_small"
    n = _n or (600 if quick else 20000)
    procs = _procs or (4 if quick else 12)
    workers = int(os.environ.get("VERIF_TLC_WORKERS", "0")) or None
    with ThreadPoolExecutor(max_workers=4) as ex:
        f_mc = ex.submit(run_tlc, MODULE, cfg, coverage=quick, timeout=3000, workers=workers)
        f_tiny = ex.submit(gen_behaviours, "Analysis_gen_tiny", {}, 0, 0, seed, module=MODULE, exhaustive=True)
        f_gen = ex.submit(gen_behaviours, "Analysis_gen", {}, n, 100, seed, procs=procs, module=MODULE)
        mc = f_mc.result()
        f_uni = ex.submit(gen_behaviours, "Analysis_gen", {"Phase": "<- Phase6U"}, max(100, n // 6), 100, seed + 7, procs=1,
                          module=MODULE)
        tiny, st = f_tiny.result()
        bhvs, stats = f_gen.result()
        uni, st_uni = f_uni.result()
        bhvs = bhvs + uni
        stats = stats + st_uni
    rep.add_tlc(mc, "exhaustive model checking of the analysis theorems: " + THEOREMS, cfg, require_actions=ACTIONS)
    require_ok(mc, "Analysis model checking")
    cfgdir = os.path.join(os.path.dirname(__file__), "..", "spec", "cfg")
    rep.bounds["model_checking"] = open(os.path.join(cfgdir, cfg + ".cfg")).read().split("INIT")[0]
    rep.add_tlc(st[0], "behaviour generation, exhaustive tiny configuration (3 stations)", "Analysis_gen_tiny")
    for s in stats:
        rep.add_tlc(s, "behaviour generation (-simulate; theorems evaluated on every sampled state), 6 stations",
                    "Analysis_gen")
    rep.bounds["generation"] = open(os.path.join(cfgdir, "Analysis_gen.cfg")).read().split("INIT")[0]
    allb = tiny + bhvs
    rep.exhaustive = False
    rep.notes.append("every behaviour of Analysis_gen_tiny (%d) replayed; %d sampled behaviours of Analysis_gen"
                     % (len(tiny), len(bhvs)))
    self_test(rep, next((b for b in bhvs if nontrivial(b)), allb[0]), seed)
    cases = [{"bhv": b, "var": variation_for(i, b, seed), "seed": seed * 100003 + i} for i, b in enumerate(allb)]
    results = run_pool(_work, cases, procs)
    requests = set()
    calls = 0
    for case, (d, foreign, stats_) in zip(cases, results):
        b = case["bhv"]
        if foreign == "HARNESS":
            raise RuntimeError("replay machinery failed: %s" % d["impl"])
        if foreign is not None:
            rep.foreign_divergence(foreign)
            continue
        rep.replayed += 1
        rep.count(jhash(b), nontrivial(b))
        rep.non_decisive += stats_.get("non_decisive", 0)
        calls += stats_.get("cc_calls", 0)
        requests.add(tuple(b[-1]["pick"]["req"]))
        if d is not None:
            rep.violation("C18:%s:%s" % (d["fn"], d["aspect"]), json.dumps(d, default=repr)[:500],
                          {"kind": "case", "module": "props_analysis", "case": case, "mismatch": d})
    rep.notes.append("%d calls of constraint_currents compared; %d distinct requests (subset + order) chosen by the spec "
                     "in addition to the %d fixed ones" % (calls, len(requests), len(allb[-1][-1]["cc"]) + 1))
    for b in (tiny[len(tiny) // 2], bhvs[0]):
        rep.sample({"start": {k: v for k, v in b[0].items() if k != "menu"}, "steps": len(b), "analysis": b[-1]})
    return rep.finish()
