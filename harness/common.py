"""Shared plumbing of the checks: evidence files, known findings, replay files, exit codes.

Exit codes of ./check:  0 = the property held on everything explored (known findings are
printed as KNOWN-FINDING lines), 1 = at least one violation that known_findings.json does not
list (one `VIOLATION property=<id> replay=<path>` line each), 2 = machinery failure.
"""
import hashlib
import json
import os
import sys
import time

VERIF = os.path.dirname(os.path.dirname(os.path.abspath(__file__)))
# (the two overrides are used by tools/seedcheck.sh only, so that trial runs against a mutated
# scratch copy do not overwrite the evidence of the registered checks)
EVIDENCE_DIR = os.environ.get("VERIF_EVIDENCE_DIR") or os.path.join(VERIF, "evidence")
REPLAY_DIR = os.environ.get("VERIF_REPLAY_DIR") or os.path.join(VERIF, "replays")
KNOWN = os.path.join(VERIF, "known_findings.json")


def load_known():
    with open(KNOWN) as fh:
        return json.load(fh)


def jhash(obj):
    return hashlib.sha1(json.dumps(obj, sort_keys=True, default=repr).encode()).hexdigest()[:12]


class Report:
    """Accumulates what one check run covered and found."""

    def __init__(self, prop, tier, seed):
        self.prop, self.tier, self.seed = prop, tier, seed
        self.t0 = time.time()
        self.tlc_runs = []
        self.states = 0
        self.transitions = 0
        self.action_coverage = {}
        self.replayed = 0          # spec behaviours / cases executed through the real code
        self.traces_accepted = 0   # real-code traces accepted by TLC
        self.evaluations = 0
        self.nontrivial = set()
        self.rule = ""
        self.samples = []
        self.violations = []       # dicts: {key, what, replay}
        self.known_hits = {}
        self.foreign_examples = []
        self.foreign = {}          # divergences owned by another property (not this check's business)
        self.non_decisive = 0
        self.assumptions = []
        self.bounds = {}
        self.notes = []
        self.exhaustive = False
        self._known = [k for k in load_known().get("open", []) if k["property"] == prop]

    # -- TLC bookkeeping -------------------------------------------------------------------
    def add_tlc(self, res, what, cfg, require_actions=None):
        self.tlc_runs.append({"what": what, "cfg": cfg, "cmd": res.cmd, "generated": res.generated,
                              "distinct": res.distinct, "depth": res.depth, "wall_s": round(res.wall_s, 1),
                              "ok": res.ok, "violated": res.violated})
        self.states += res.distinct
        self.transitions += res.generated
        for a, n in res.coverage.items():
            self.action_coverage[a] = self.action_coverage.get(a, 0) + n
        if require_actions and res.coverage:
            for a in require_actions:
                if res.coverage.get(a, 0) == 0:
                    raise RuntimeError("vacuous model-checking run: action %s never taken (%s)" % (a, cfg))

    # -- cases -----------------------------------------------------------------------------
    def count(self, case_key=None, nontrivial=False, n=1):
        self.evaluations += n
        if nontrivial and case_key is not None:
            self.nontrivial.add(case_key)

    def sample(self, obj, limit=3):
        if len(self.samples) < limit:
            self.samples.append(obj)

    def foreign_divergence(self, owner, detail=None):
        self.foreign[owner] = self.foreign.get(owner, 0) + 1
        if detail is not None and len(self.foreign_examples) < 5:
            self.foreign_examples.append(detail)

    def violation(self, key, what, payload):
        """key identifies the class of failure (for known-finding matching)."""
        for k in self._known:
            if k["key"] == key:
                self.known_hits.setdefault(key, {"what": k["what"], "n": 0})["n"] += 1
                return
        for v in self.violations:
            if v["key"] == key:
                v["n"] += 1
                return
        os.makedirs(REPLAY_DIR, exist_ok=True)
        path = os.path.join(REPLAY_DIR, "%s-%s.json" % (self.prop, jhash(payload)))
        with open(path, "w") as fh:
            json.dump({"property": self.prop, "key": key, "what": what, "payload": payload}, fh, default=repr)
        self.violations.append({"key": key, "what": what, "replay": path, "n": 1})

    # -- finish ----------------------------------------------------------------------------
    def finish(self, level="model_checking"):
        wall = time.time() - self.t0
        cov = {
            "states": self.states,
            "transitions": self.transitions,
            "traces_validated_against_impl": self.replayed + self.traces_accepted,
            "behaviours_or_cases_replayed_through_impl": self.replayed,
            "impl_traces_accepted_by_tlc": self.traces_accepted,
            "samples": self.samples or ["(none)"],
            "evaluations": self.evaluations,
            "distinct_nontrivial": len(self.nontrivial),
            "rule": self.rule,
            "exhaustive": self.exhaustive,
            "tlc_runs": self.tlc_runs,
            "action_coverage": self.action_coverage,
            "foreign_divergences_skipped": self.foreign,
            "foreign_divergence_examples": self.foreign_examples,
            "non_decisive_skipped": self.non_decisive,
            "known_findings_met": self.known_hits,
            "bounds": self.bounds,
            "notes": self.notes,
            "violations_found": [{k: v[k] for k in ("key", "what", "n")} for v in self.violations],
        }
        ev = {"property_id": self.prop, "tier": self.tier, "seed": self.seed, "level": level, "coverage": cov,
              "assumptions": self.assumptions, "wall_s": round(wall, 2), "violations": len(self.violations)}
        os.makedirs(EVIDENCE_DIR, exist_ok=True)
        with open(os.path.join(EVIDENCE_DIR, "%s.json" % self.prop), "w") as fh:
            json.dump(ev, fh, indent=1, default=repr)
        for key, k in self.known_hits.items():
            print("KNOWN-FINDING: property=%s %s (%s; met %d times)" % (self.prop, k["what"], key, k["n"]))
        if self.foreign:
            # not this property's business, but nothing downstream of the divergence could be judged here
            print("FOREIGN-DIVERGENCE: property=%s %d cases left the specification first on a field owned by %s "
                  "(those checks decide them; this check judged the remaining cases only)"
                  % (self.prop, sum(self.foreign.values()), ", ".join(sorted(self.foreign))))
        for v in self.violations:
            print("VIOLATION property=%s replay=%s" % (self.prop, v["replay"]))
            print("  %s (x%d): %s" % (v["key"], v["n"], v["what"]))
        print("%s %s: states=%d transitions=%d replayed=%d traces_accepted=%d nontrivial=%d foreign=%s "
              "violations=%d wall=%.1fs" % (self.prop, self.tier, self.states, self.transitions, self.replayed,
                                            self.traces_accepted, len(self.nontrivial), self.foreign,
                                            len(self.violations), wall))
        sys.stdout.flush()
        return 1 if self.violations else 0


def through_impl(exc):
    """True if the exception's traceback passes through acnportal code: the implementation failed
    on a generated case (a finding), as opposed to a bug in the harness (machinery failure)."""
    tb = exc.__traceback__
    while tb is not None:
        fn = tb.tb_frame.f_code.co_filename.replace("\\", "/")
        if "/acnportal/" in fn and "/verif/" not in fn:
            return True
        tb = tb.tb_next
    return False


def guarded(fn):
    """Wrap a replay function: an exception escaping from the implementation while it executes a
    case the specification accepts is a mismatch ({"field": "exception.<Type>", ...}), never a
    machinery failure."""
    import functools

    @functools.wraps(fn)
    def wrapper(case, *a, **k):
        try:
            return fn(case, *a, **k)
        except Exception as e:  # noqa
            if through_impl(e):
                return {"field": "exception.%s" % type(e).__name__, "key": "exception:%s" % type(e).__name__,
                        "spec": "no exception", "impl": "%s: %s" % (type(e).__name__, str(e)[:200])}
            raise
    return wrapper
