"""C20: DataClient.tla / DataClientTime.tla bound to acnportal.acndata (DataClient, utils).

Part 1 (protocol).  TLC enumerates every behaviour of spec/DataClient.tla: a paging of the server's
result set (1..4 responses of 0..k documents, empty ones included) x one call of the public API
(get_sessions / get_sessions_by_time / count_sessions with a menu of argument combinations) x a
consumer that pulls to the end or abandons the generator anywhere.  Every behaviour is executed
against the real DataClient with the HTTP layer of `requests` replaced, in this process only, by a
transport that serves exactly the specification's pages and links and logs every request; after
every `next()` the outcome (document / StopIteration / ValueError), the converted document and the
requests issued so far are compared with the specification's.

Part 2 (time).  TLC evaluates the C20 time theorems of spec/DataClientTime.tla on a lattice of
(zone, instant) cases and on every day of 1971-2037; every lattice case is executed through
parse_http_date / http_date / parse_dates.
"""
import calendar
import contextlib
import copy
import json
from concurrent.futures import ThreadPoolExecutor
from datetime import datetime, timedelta, timezone
from urllib.parse import parse_qsl, urlsplit

from .common import Report, jhash, guarded
from .tlc import run_tlc, require_ok

TOKEN = "verif-token-C20"
TIME_FIELDS = ("connectionTime", "disconnectTime", "doneChargingTime", "modifiedAt", "requestedDeparture")
SERIES = (("chargingCurrent", "current"), ("pilotSignal", "pilot"))

# Informational only (see check_C20): whether RFC-1123 strings nested in a `userInputs` list are converted.
NESTED_USER_INPUTS_DEMANDED = False


# ----------------------------------------------------------------------------- fake transport
class FakeServer:
    """Serves the pages of one specification behaviour. Stateless: the response is a function of the URL."""

    def __init__(self, bhv, docs):
        self.b = bhv
        self.docs = docs            # id (int) -> DocTable entry
        self.log = []               # one dict per request
        self.unroutable = []

    def _response(self, url, status, payload, headers=None):
        import requests
        from requests.structures import CaseInsensitiveDict
        r = requests.models.Response()
        r.status_code = status
        r._content = json.dumps(payload).encode("utf-8")
        r.encoding = "utf-8"
        r.url = url
        r.headers = CaseInsensitiveDict({"Content-Type": "application/json"})
        if headers:
            r.headers.update(headers)
        return r

    def request(self, method, url, **kw):
        method = method.upper()
        full, path, query = normalise(method, url, kw.get("params"))
        self.log.append({"method": method, "url": url, "norm": full, "path": path, "query": query,
                         "auth": kw.get("auth"), "headers": dict(kw.get("headers") or {})})
        b = self.b
        if method == "HEAD":
            return self._response(url, 200, {}, {"X-Total-Count": str(b["total"])})
        qd = dict(query)
        try:
            k = int(qd.get("page", "1"))
        except ValueError:
            k = -1
        if method != "GET" or not 1 <= k <= len(b["pages"]):
            self.unroutable.append(url)
            return self._response(url, 404, {"_status": "ERR", "_error": {"code": 404, "message": "not found"}})
        np_ = len(b["pages"])
        first = b["first"][len(b["base"]):]
        page_href = lambda n: first if n == 1 else b["hrefs"][n - 2]  # noqa: E731   (the url of page n, relative)
        links = {"parent": {"title": "home", "href": "/"}, "self": {"title": "sessions", "href": page_href(k)}}
        if k < np_:
            links["next"] = {"title": "next page", "href": page_href(k + 1)}
            links["last"] = {"title": "last page", "href": page_href(np_)}
        if k > 1:
            links["prev"] = {"title": "previous page", "href": page_href(k - 1)}
        items = [raw_doc(self.docs[i], b["ts"]) for i in b["pages"][k - 1]]
        return self._response(url, 200, {"_items": items, "_links": links,
                                          "_meta": {"page": k, "max_results": b["limit"], "total": b["total"]}})


_CURRENT = {"server": None}


def _session_request(self, method, url, **kw):
    srv = _CURRENT["server"]
    if srv is None:
        raise RuntimeError("network access attempted outside a replay: %s %s" % (method, url))
    return srv.request(method, url, **kw)


@contextlib.contextmanager
def patched_requests():
    """Replace the one funnel of the requests library (requests.get/head/request and Session.get all end in
    Session.request) for the duration of the replays; nothing outside this process is touched."""
    import requests
    orig = requests.sessions.Session.request
    requests.sessions.Session.request = _session_request
    try:
        yield
    finally:
        requests.sessions.Session.request = orig
        _CURRENT["server"] = None


def normalise(method, url, params=None):
    """(url without query, path+..., decoded query pairs) of a request, however the caller passed the parameters
    (in the URL, percent-encoded or not, or as `params=`)."""
    import requests
    p = requests.Request(method, url, params=params).prepare()
    sp = urlsplit(p.url)
    full = "%s://%s%s" % (sp.scheme, sp.netloc, sp.path)
    return full, sp.path, parse_qsl(sp.query, keep_blank_values=True)


def _canon_query(pairs):
    # an empty `where` is "no filter": get_sessions_by_time without bounds may send either
    return sorted((k, v) for k, v in pairs if not (k == "where" and v == ""))


def token_conveyed(entry):
    a = entry["auth"]
    if isinstance(a, (tuple, list)) and len(a) >= 1 and a[0] == TOKEN:
        return True
    if getattr(a, "username", None) == TOKEN:
        return True
    return any(TOKEN in str(v) for v in entry["headers"].values())


def compare_request(entry, spec_req, base):
    """None or a mismatch dict: the logged request against the specification's request record."""
    want_full, _, _ = normalise(spec_req["method"], base + spec_req["path"])
    want_q = _canon_query([tuple(p) for p in spec_req["params"]])
    got_q = _canon_query(entry["query"])
    if entry["method"] != spec_req["method"]:
        return {"field": "request.method", "spec": spec_req["method"], "impl": entry["method"]}
    if entry["norm"] != want_full:
        return {"field": "request.path", "spec": want_full, "impl": entry["norm"], "url": entry["url"]}
    if got_q != want_q:
        return {"field": "request.params", "spec": want_q, "impl": got_q, "url": entry["url"]}
    if not token_conveyed(entry):
        return {"field": "request.token", "spec": "API token sent", "impl": repr(entry["auth"])}
    return None


# ----------------------------------------------------------------------------- documents
def raw_doc(d, ts):
    """The JSON document the server sends for DocTable entry d (RFC-1123 texts)."""
    i = d["id"]
    doc = {"_id": "5bc90cb9f9af8b0d7fe7%04d" % i, "clusterID": "0039",
           "connectionTime": d["connectionTime"]["text"], "disconnectTime": d["disconnectTime"]["text"],
           "doneChargingTime": d["doneChargingTime"][0]["text"] if d["doneChargingTime"] else None,
           "kWhDelivered": 7.932 + i, "sessionID": "2_39_78_362_2018-04-25 11:08:04.%06d" % i,
           "siteID": "0002", "spaceID": "CA-%d" % (300 + i), "stationID": "2-39-78-%d" % i,
           "timezone": d["zone"], "userID": None, "userInputs": None, "docIndex": i,
           "modifiedAt": d["modifiedAt"]["text"], "requestedDeparture": d["requestedDeparture"]["text"],
           "note": "Mon, not a date"}
    if i % 3 == 1:
        # RFC 1123 writes the day of the month as 1*2DIGIT: every third document spells days below 10 without the
        # leading zero ("Wed, 1 May 2019 15:00:00 GMT"); it is the same date (ThCompactDay in DataClientTime.tla)
        for k, v in list(doc.items()):
            if isinstance(v, str) and len(v) == 29 and v.endswith(" GMT") and v[5] == "0":
                doc[k] = v[:5] + v[6:]
    if ts:
        for name, vals in SERIES:
            if d[name]:
                stamps = d[name][0]
                doc[name] = {vals: [16.0 + 0.5 * j for j in range(len(stamps))], "timestamps": [x["text"] for x in stamps]}
            else:
                doc[name] = None
    return doc


def check_aware(dt, exp, zone):
    """None or a description: dt must be an aware datetime in `zone` denoting exp (instant, offset, local fields)."""
    if not isinstance(dt, datetime):
        return "not a datetime: %r" % (dt,)
    if dt.tzinfo is None or dt.utcoffset() is None:
        return "naive datetime %r" % (dt,)
    inst = calendar.timegm(dt.utctimetuple())
    if inst != exp["t"] or dt.microsecond != 0:
        return "denotes instant %d (%s), expected %d" % (inst, dt.isoformat(), exp["t"])
    off = dt.utcoffset().total_seconds()
    if off != exp["off"]:
        return "utcoffset %s s, expected %s s (%s)" % (off, exp["off"], dt.isoformat())
    got = (dt.year, dt.month, dt.day, dt.hour, dt.minute, dt.second)
    want = (exp["y"], exp["m"], exp["d"], exp["h"], exp["mi"], exp["s"])
    if got != want:
        return "local fields %r, expected %r" % (got, want)
    name = getattr(dt.tzinfo, "zone", None) or getattr(dt.tzinfo, "key", None)
    if name is not None and name != zone:
        return "time zone %r, expected %r" % (name, zone)
    return None


def compare_doc(got, d, ts):
    """None or mismatch: the yielded document against the converted DocTable entry."""
    raw = raw_doc(d, ts)
    if not isinstance(got, dict):
        return {"field": "document", "spec": "dict", "impl": repr(got)[:200]}
    if got.get("docIndex") != d["id"]:
        return {"field": "yield.identity", "spec": d["id"], "impl": got.get("docIndex")}
    if set(got) != set(raw):
        return {"field": "document.keys", "spec": sorted(raw), "impl": sorted(got)}
    zone = d["zone"]
    for f in raw:
        if f in TIME_FIELDS:
            exp = d[f][0] if f == "doneChargingTime" and d[f] else d[f]
            if f == "doneChargingTime" and not d[f]:
                if got[f] is not None:
                    return {"field": "document." + f, "spec": None, "impl": repr(got[f])}
                continue
            why = check_aware(got[f], exp, zone)
            if why:
                return {"field": "document." + f, "spec": exp, "impl": why}
        elif ts and f in dict(SERIES):
            if raw[f] is None:
                if got[f] is not None:
                    return {"field": "document." + f, "spec": None, "impl": repr(got[f])[:200]}
                continue
            vals = dict(SERIES)[f]
            if not isinstance(got[f], dict) or got[f].get(vals) != raw[f][vals]:
                return {"field": "document.%s.%s" % (f, vals), "spec": raw[f][vals], "impl": repr(got[f])[:200]}
            stamps = got[f].get("timestamps")
            if not isinstance(stamps, list) or len(stamps) != len(d[f][0]):
                return {"field": "document.%s.timestamps" % f, "spec": len(d[f][0]), "impl": repr(stamps)[:200]}
            for j, (x, exp) in enumerate(zip(stamps, d[f][0])):
                why = check_aware(x, exp, zone)
                if why:
                    return {"field": "document.%s.timestamps" % f, "index": j, "spec": exp, "impl": why}
        elif got[f] != raw[f] or type(got[f]) is not type(raw[f]):
            return {"field": "document." + f, "spec": raw[f], "impl": repr(got[f])[:200]}
    return None


# ----------------------------------------------------------------------------- protocol replay
def _aware(a, variant):
    import pytz
    if variant == "zone":
        return datetime.fromtimestamp(a["t"], tz=pytz.timezone(a["zone"]))
    if variant == "utc":
        return datetime.fromtimestamp(a["t"], tz=pytz.utc)
    return datetime.fromtimestamp(a["t"], tz=timezone(timedelta(hours=-3, minutes=-30)))   # any fixed offset


def _invoke(client, call, variant):
    opt = lambda o: o[0] if o else None  # noqa: E731
    if call["api"] == "get_sessions":
        kw = {}
        for name, key in (("cond", "cond"), ("project", "project"), ("sort", "sort")):
            if call[key]:
                kw[name] = call[key][0]
        if call["ts"]:
            kw["timeseries"] = True
        if variant == "pos":
            # the documented signature get_sessions(site, cond=None, project=None, sort=None, timeseries=False),
            # arguments by position
            return client.get_sessions(call["site"], opt(call["cond"]), opt(call["project"]), opt(call["sort"]), bool(call["ts"]))
        return client.get_sessions(call["site"], **kw)
    if call["api"] == "count_sessions":
        return client.count_sessions(call["site"], opt(call["cond"])) if call["cond"] else client.count_sessions(call["site"])
    kw = {}
    if call["start"]:
        kw["start"] = _aware(call["start"][0], variant)
    if call["end"]:
        kw["end"] = _aware(call["end"][0], variant)
    if call["minE"]:
        kw["min_energy"] = call["minE"][0]
    if call["ts"]:
        kw["timeseries"] = True
    if call["count"]:
        kw["count"] = True
    if variant == "utc":
        # get_sessions_by_time(site, start=None, end=None, min_energy=None, timeseries=False, count=False) by position
        return client.get_sessions_by_time(call["site"], kw.get("start"), kw.get("end"), kw.get("min_energy"),
                                           bool(call["ts"]), bool(call["count"]))
    return client.get_sessions_by_time(call["site"], **kw)


def _check_requests(srv, b, upto, already):
    """Requests already..upto of the log against the specification's; the log must have exactly `upto` entries."""
    if len(srv.log) != upto:
        return {"field": "request.count", "spec": upto, "impl": len(srv.log),
                "urls": [e["url"] for e in srv.log][-3:]}
    for k in range(already, upto):
        m = compare_request(srv.log[k], b["reqs"][k], b["base"])
        if m:
            m["request"] = k + 1
            return m
    return None


def _replay_protocol_variant(b, docs, variant):
    from acnportal.acndata import DataClient
    srv = FakeServer(b, docs)
    _CURRENT["server"] = srv
    call, steps = b["call"], b["steps"]
    valid = call["site"] in ("caltech", "jpl", "office001")
    client = DataClient(TOKEN, b["base"])
    try:
        obj = _invoke(client, call, variant)
        raised = None
    except ValueError as e:
        obj, raised = None, e
    except Exception as e:  # noqa
        return {"field": "call", "spec": "no exception", "impl": "%s: %s" % (type(e).__name__, e)}
    if raised is not None:
        # rejected when called (count_sessions; also fine for a client that validates eagerly)
        if valid:
            return {"field": "site.rejection", "spec": "site %r accepted" % call["site"], "impl": "ValueError: %s" % raised}
        if srv.log:
            return {"field": "site.request-before-rejection", "spec": 0, "impl": [e["url"] for e in srv.log]}
        return None
    if b["count"]:
        if b["final"] == "rejected":
            return {"field": "site.rejection", "spec": "ValueError", "impl": "returned %r" % (obj,), "requests": len(srv.log)}
        m = _check_requests(srv, b, 1, 0)
        if m:
            return m
        try:
            n = int(obj)
        except (TypeError, ValueError):
            return {"field": "count.result", "spec": b["total"], "impl": repr(obj)}
        if n != b["total"]:
            return {"field": "count.result", "spec": b["total"], "impl": repr(obj)}
        return None
    # a generator: nothing may have happened yet
    m = _check_requests(srv, b, 0, 0)
    if m:
        m["field"] = "request.before-first-next"
        return m
    gen, seen, i = obj, 0, 0
    while i < len(steps):
        st = steps[i]
        if st["a"] == "Abandon":
            try:
                gen.close()
            except Exception as e:  # noqa
                return {"field": "close", "spec": "closes silently", "impl": "%s: %s" % (type(e).__name__, e)}
            m = _check_requests(srv, b, st["nreq"], seen)
            if m:
                m["after"] = "close()"
                return m
            i += 1
            continue
        assert st["a"] == "Pull", st
        j = i + 1
        while steps[j]["a"] in ("First", "Follow"):
            j += 1
        end = steps[j]
        try:
            item, outcome = next(gen), "Yield"
        except StopIteration:
            item, outcome = None, "Stop"
        except ValueError as e:
            item, outcome = e, "Reject"
        except Exception as e:  # noqa
            item, outcome = e, "%s: %s" % (type(e).__name__, e)
        npull = sum(1 for s in steps[:j + 1] if s["a"] == "Pull")
        if outcome != end["a"]:
            impl = outcome if outcome in ("Stop", "Reject") or not isinstance(item, dict) else "Yield doc %s" % item.get("docIndex")
            return {"field": "site.rejection" if "Reject" in (outcome, end["a"]) else "yield.outcome", "pull": npull,
                    "spec": end["a"] + (" doc %d" % end["doc"] if end["a"] == "Yield" else ""), "impl": impl,
                    "requests": [e["url"] for e in srv.log]}
        if outcome == "Yield":
            m = compare_doc(item, docs[end["doc"]], b["ts"])
            if m:
                m["pull"] = npull
                return m
        m = _check_requests(srv, b, end["nreq"], seen)
        if m:
            m["pull"] = npull
            return m
        seen = end["nreq"]
        i = j + 1
    if srv.unroutable:
        return {"field": "request.unknown-url", "spec": "only the first url and next links", "impl": srv.unroutable[:3]}
    return None


@guarded
def replay_protocol(b):
    docs = {int(k): v for k, v in b["docs"].items()}
    call = b["call"]
    # variants: how aware datetimes are given (their own zone / UTC / a fixed offset) and how arguments are passed
    # (by keyword; "pos" and "utc" pass them by position, in the documented order)
    if call["api"] == "get_sessions_by_time":
        variants = ["zone", "utc", "fixed"] if (call["start"] or call["end"]) else ["zone", "utc"]
    else:
        variants = ["zone", "pos"] if call["api"] == "get_sessions" else ["zone"]
    ctx = contextlib.nullcontext() if _is_patched() else patched_requests()
    with ctx:
        for v in variants:
            m = _replay_protocol_variant(b, docs, v)
            if m:
                m["datetime_variant"] = v
                return m
    return None


def _is_patched():
    import requests
    return requests.sessions.Session.request is _session_request


# ----------------------------------------------------------------------------- time replay
class _Other(dict):
    """zone name -> a pytz zone different from it (the same instant seen from elsewhere)."""

    def __missing__(self, name):
        import pytz
        ring = ["UTC", "America/Los_Angeles", "Europe/London", "Asia/Kolkata"]
        self[name] = pytz.timezone(ring[(ring.index(name) + 1) % 4] if name in ring else "UTC")
        return self[name]


_OTHER_ZONE = _Other()


@guarded
def replay_time(c):
    """One lattice case (zone, instant) through parse_http_date / http_date."""
    import pytz
    from acnportal.acndata.utils import parse_http_date, http_date
    tz = pytz.timezone(c["zone"])
    dt = parse_http_date(c["text"], tz)
    why = check_aware(dt, c, c["zone"])
    if why:
        return {"field": "parse_http_date", "text": c["text"], "zone": c["zone"], "spec": c, "impl": why}
    if dt.weekday() != (c["wd"] + 6) % 7:
        return {"field": "parse_http_date.weekday", "spec": c["wd"], "impl": dt.weekday()}
    # format o parse = identity on the text; formatting depends on the instant only
    others = [dt, datetime.fromtimestamp(c["t"], tz=pytz.utc), datetime.fromtimestamp(c["t"], tz=timezone(timedelta(minutes=345))),
              datetime.fromtimestamp(c["t"], tz=_OTHER_ZONE[c["zone"]])]
    for x in others:
        s = http_date(x)
        if s != c["text"]:
            return {"field": "http_date", "datetime": x.isoformat(), "spec": c["text"], "impl": s}
    # parse o format = identity to the second
    x = dt.replace(microsecond=654321)
    y = parse_http_date(http_date(x), tz)
    if y != dt or y.utcoffset() != dt.utcoffset():
        return {"field": "parse(format(dt))", "datetime": x.isoformat(), "spec": dt.isoformat(), "impl": y.isoformat()}
    return None


def make_doc_case(zone, cs):
    """A document case from up to 12 lattice cases of one zone: 5 scalar fields + two time series."""
    pick = lambda k: cs[k % len(cs)]  # noqa: E731
    return {"kind": "doc", "zone": zone,
            "fields": {"connectionTime": pick(0), "disconnectTime": pick(1), "doneChargingTime": pick(2) if len(cs) % 3 else None,
                       "modifiedAt": pick(3), "requestedDeparture": pick(4)},
            "series": {"chargingCurrent": [pick(k) for k in range(5, max(5, len(cs)))],
                       "pilotSignal": None if len(cs) % 2 else [pick(k) for k in range(0, len(cs), 3)]}}


@guarded
def replay_doc(dc):
    """parse_dates on a whole document."""
    from acnportal.acndata.utils import parse_dates
    doc = {"_id": "5bc90cb9f9af8b0d7fe77cd2", "timezone": dc["zone"], "kWhDelivered": 7.932, "userID": None,
           "sessionID": "2_39_78_362_2018-04-25 11:08:04.400812", "spaceID": "CA-496", "note": "Tue, maybe"}
    for f, c in dc["fields"].items():
        doc[f] = c["text"] if c else None
    for f, lst in dc["series"].items():
        vals = dict(SERIES)[f]
        doc[f] = None if lst is None else {vals: [1.5 * j for j in range(len(lst))], "timestamps": [c["text"] for c in lst]}
    before = copy.deepcopy(doc)
    ret = parse_dates(doc)
    out = doc if ret is None else ret        # converts in place (the docstring also promises a return value)
    for f, c in dc["fields"].items():
        if c is None:
            if out[f] is not None:
                return {"field": "parse_dates." + f, "spec": None, "impl": repr(out[f])}
            continue
        why = check_aware(out[f], c, dc["zone"])
        if why:
            return {"field": "parse_dates." + f, "spec": c, "impl": why}
    for f, lst in dc["series"].items():
        vals = dict(SERIES)[f]
        if lst is None:
            if out[f] is not None:
                return {"field": "parse_dates." + f, "spec": None, "impl": repr(out[f])[:200]}
            continue
        if out[f][vals] != before[f][vals] or len(out[f]["timestamps"]) != len(lst):
            return {"field": "parse_dates.%s.%s" % (f, vals), "spec": before[f][vals], "impl": repr(out[f])[:200]}
        for j, (x, c) in enumerate(zip(out[f]["timestamps"], lst)):
            why = check_aware(x, c, dc["zone"])
            if why:
                return {"field": "parse_dates.%s.timestamps" % f, "index": j, "spec": c, "impl": why}
    for f in before:
        if f not in dc["fields"] and f not in dc["series"] and (out[f] != before[f] or type(out[f]) is not type(before[f])):
            return {"field": "parse_dates." + f, "spec": before[f], "impl": repr(out[f])}
    return None


def replay_case(case):
    kind = case.get("kind")
    if kind == "protocol":
        return replay_protocol(case)
    if kind == "time":
        return replay_time(case)
    if kind == "doc":
        return replay_doc(case)
    if kind == "two":
        with patched_requests():
            return replay_two(case["bhv"])
    if kind == "nested_probe":
        return None if nested_user_inputs_probe() else {"field": "parse_dates.userInputs", "spec": "aware datetimes", "impl": "strings"}
    raise ValueError("unknown case kind %r" % kind)


# ----------------------------------------------------------------------------- keys, probes
def _key(case, m):
    f = m["field"]
    if case["kind"] == "protocol":
        if f.startswith("document."):
            part = "timeseries" if ".timestamps" in f else "field"
            return "C20:yielded-document:%s" % part
        if f.startswith("yield."):
            return "C20:paging:%s" % f
        if f.startswith("request.count") or f.startswith("request.before") or f.startswith("request.unknown"):
            return "C20:paging:%s" % f
        if f.startswith("request."):
            return "C20:%s:%s" % ("count" if case["count"] else "query", f)
        return "C20:%s" % f.replace(".", ":")
    if case["kind"] == "doc":
        return "C20:parse_dates:%s" % ("timeseries" if ".timestamps" in f else "field")
    if case["kind"] == "two":
        return "C20:%s" % m["key"]
    return "C20:time:%s" % f.split(".")[0]


def _nontrivial_protocol(b):
    acts = [s["a"] for s in b["steps"]]
    return "Follow" in acts or "Reject" in acts or "Abandon" in acts or 0 in b["sizes"]


def nested_user_inputs_probe():
    """Informational: are RFC-1123 strings inside a `userInputs` list converted?"""
    from acnportal.acndata.utils import parse_dates
    doc = {"timezone": "America/Los_Angeles", "connectionTime": "Wed, 25 Apr 2018 11:08:04 GMT",
           "userInputs": [{"WhPerMile": 250, "kWhRequested": 25.0, "modifiedAt": "Wed, 25 Apr 2018 11:08:32 GMT",
                           "requestedDeparture": "Wed, 25 Apr 2018 18:51:04 GMT", "userID": 22}]}
    parse_dates(doc)
    u = doc["userInputs"][0]
    return isinstance(u["modifiedAt"], datetime) and isinstance(u["requestedDeparture"], datetime)


# ----------------------------------------------------------------------------- the check
PROTOCOL_ACTIONS = ["Pull", "Reject", "First", "Yield", "Follow", "Stop", "Abandon", "Count", "Finish"]


def _violate(rep, case, m):
    rep.violation(_key(case, m), json.dumps(m, default=repr)[:500],
                  {"kind": "case", "module": "props_dataclient", "case": case, "mismatch": m})


def check_C20(tier, seed):
    rep = Report("C20", tier, seed)
    thorough = tier == "thorough"
    W = 8 if thorough else 4
    rep.rule = ("protocol: behaviours (paging x call x consumer) enumerated by TLC, distinct by content; non-trivial = a next "
                "link is followed, a page is empty, the site is rejected or the generator is abandoned.  time: lattice cases "
                "(zone, instant), all distinct; non-trivial = daylight saving time in force or the local calendar date differs from the UTC date")
    rep.assumptions += [
        "the server is stateless and well-formed (Eve layout: _items, _links.next.href relative to the API base); HTTP errors are not modelled",
        "zones UTC, America/Los_Angeles (1987-2037), Europe/London (1996-2037), Asia/Kolkata; rules transcribed in DataClientTime.tla, "
        "cross-checked against pytz by every lattice case; whole seconds; instants within 1971-2037 (32-bit TLC integers)",
        "start/end of get_sessions_by_time are aware datetimes (a naive one is read in the machine's local zone by astimezone)",
        "filter/project strings contain no '&', '+', '#', '%' (the client does not percent-encode them)",
        "parameter order in the query string, and whether an empty filter is sent as `where=` or omitted, are not compared",
        "RFC-1123 strings nested inside a userInputs list are probed but not demanded (shape of live documents cannot be confirmed offline)",
    ]
    # Part 2's TLC runs are started now and collected after Part 1 (they only need a few cores)
    pool = ThreadPoolExecutor(max_workers=2)
    ov_time = {"Years": "<- YearsAll", "Months": "<- MonthsAll", "Deltas": "<- DeltasAll"} if thorough else {}
    fut_walk = pool.submit(run_tlc, "MC_DataClientTime", "DataClient_walk", workers=1)
    fut_time = pool.submit(run_tlc, "MC_DataClientTime", "DataClient_time", workers=W, overrides=ov_time, timeout=3000)
    try:
        return _check_C20(rep, thorough, W, fut_walk, fut_time, ov_time)
    finally:
        pool.shutdown(wait=True)


# ----------------------------------------------------------------------------- two overlapping generators
TWO_SITES = {1: "caltech", 2: "jpl"}


class TwoServer:
    """Serves the two result sets of one DataClientTwo.tla behaviour (stateless: a function of the URL)."""

    def __init__(self, sizes):
        self.pages = {}
        for g in (1, 2):
            k0, pg = 0, []
            for n in sizes[g]:
                pg.append(list(range(k0 + 1, k0 + n + 1)))
                k0 += n
            self.pages[TWO_SITES[g]] = pg
        self.log = []

    def request(self, method, url, **kw):
        full, path, query = normalise(method, url, kw.get("params"))
        site = path.rstrip("/").split("/")[-1]
        qd = dict(query)
        k = int(qd.get("page", "1"))
        self.log.append((site, k))
        pages = self.pages[site]
        base = "sessions/%s?max_results=%s" % (site, qd.get("max_results", "100"))
        links = {"parent": {"title": "home", "href": "/"}, "self": {"title": "sessions", "href": base}}
        if k < len(pages):
            links["next"] = {"title": "next page", "href": base + "&page=%d" % (k + 1)}
            links["last"] = {"title": "last page", "href": base + "&page=%d" % len(pages)}
        items = [{"_id": "%s-%04d" % (site, i), "sessionID": "%s-%d" % (site, i), "docIndex": i, "siteName": site,
                  "timezone": "America/Los_Angeles", "connectionTime": "Wed, 25 Apr 2018 18:08:%02d GMT" % (i % 60),
                  "kWhDelivered": 1.0 + i} for i in pages[k - 1]]
        return FakeServer._response(None, url, 200, {"_items": items, "_links": links, "_meta": {"page": k}})


def replay_two(b):
    """Two get_sessions generators on ONE DataClient, pulled in the order the specification chose."""
    from acnportal.acndata import DataClient
    from datetime import datetime as _dt
    sizes = {1: list(b["sizes"][0]), 2: list(b["sizes"][1])} if isinstance(b["sizes"], list) else \
        {int(k): list(v) for k, v in b["sizes"].items()}
    srv = TwoServer(sizes)
    _CURRENT["server"] = srv
    client = DataClient(TOKEN)
    gens = {g: client.get_sessions(TWO_SITES[g]) for g in (1, 2)}
    for n, pull in enumerate(b["pulls"]):
        g = pull["g"]
        before = len(srv.log)
        try:
            doc = next(gens[g])
            kind = "yield"
        except StopIteration:
            doc, kind = None, "stop"
        except BaseException as e:  # noqa  (whatever escapes from next(generator) is the generator's outcome)
            if isinstance(e, KeyboardInterrupt):
                raise
            doc, kind = None, "raised %s" % type(e).__name__
        fetched = srv.log[before:]
        want_f = [(TWO_SITES[g], k) for k in pull["fetched"]]
        if kind != pull["kind"]:
            return {"field": "two:outcome", "pull": n, "generator": g, "spec": pull["kind"], "impl": kind,
                    "key": "two-generators:outcome"}
        if kind == "yield":
            got = (doc.get("siteName"), doc.get("docIndex"))
            if got != (TWO_SITES[g], pull["doc"]):
                return {"field": "two:document", "pull": n, "generator": g, "spec": [TWO_SITES[g], pull["doc"]],
                        "impl": list(got), "key": "two-generators:document"}
            if not isinstance(doc.get("connectionTime"), _dt) or doc["connectionTime"].tzinfo is None:
                return {"field": "two:dates", "pull": n, "generator": g, "spec": "aware datetime",
                        "impl": repr(doc.get("connectionTime")), "key": "two-generators:dates"}
        if fetched != want_f:
            return {"field": "two:requests", "pull": n, "generator": g, "spec": want_f, "impl": fetched,
                    "key": "two-generators:requests"}
    return None


def two_generators(rep, thorough, W):
    """DataClientTwo.tla: two generators of one client, every pair of pagings, every order of pulls."""
    ov = {"MaxPageSize": "= 2"} if thorough else {}
    mc = run_tlc("MC_DataClientTwo", "DataClientTwo_mc", workers=W, overrides=ov, coverage=True)
    rep.add_tlc(mc, "two overlapping generators of one client: OwnPrefix, CompleteAtStop, OneRequestPerPage, StopOnlyAtEnd "
                    "for every pair of pagings and every order of pulls", "DataClientTwo_mc %s" % json.dumps(ov),
                require_actions=["Pull", "Finish"])
    require_ok(mc, "DataClientTwo model checking")
    live = run_tlc("MC_DataClientTwo", "DataClientTwo_live", workers=W)
    rep.add_tlc(live, "BothFinish under weak fairness of the consumer", "DataClientTwo_live")
    require_ok(live, "DataClientTwo liveness")
    gen = run_tlc("MC_DataClientTwo", "DataClientTwo_gen", workers=1, timeout=3000)
    rep.add_tlc(gen, "every behaviour emitted (pair of pagings x order of pulls, stopped anywhere)", "DataClientTwo_gen")
    require_ok(gen, "DataClientTwo generation")
    n = inter = 0
    with patched_requests():
        for b in gen.emitted.get("BHV", []):
            # behaviours that are prefixes of longer ones add nothing: replay the maximal ones and a sample of the rest
            both = all(b["done"]) if isinstance(b["done"], list) else all(b["done"].values())
            if not both and (len(b["pulls"]) * 7 + sum(p["g"] for p in b["pulls"])) % 5:
                continue
            m = replay_two(b)
            rep.replayed += 1
            n += 1
            gs = [p["g"] for p in b["pulls"]]
            mixed = any(a != c for a, c in zip(gs, gs[1:]))
            inter += mixed
            rep.count("two-" + jhash(b), mixed)
            if m is not None:
                _violate(rep, {"kind": "two", "bhv": b}, m)
    deep = run_tlc("MC_DataClientTwo", "DataClientTwo_deep", workers=1, timeout=3000)
    rep.add_tlc(deep, "one deep result set (1200 pages of one document each, as a time-series download has)", "DataClientTwo_deep")
    require_ok(deep, "DataClientTwo deep paging")
    with patched_requests():
        for b in deep.emitted.get("BHV", []):
            m = replay_two(b)
            rep.replayed += 1
            n += 1
            rep.count("two-deep-" + jhash(b), True)
            if m is not None:
                _violate(rep, {"kind": "two", "bhv": b}, m)
    if inter == 0:
        raise RuntimeError("vacuous: no interleaved behaviour replayed")
    rep.notes.append("%d behaviours of two overlapping generators on one client replayed (%d with interleaved pulls)" % (n, inter))


def _check_C20(rep, thorough, W, fut_walk, fut_time, ov):
    # ---- Part 1: protocol
    # (TLC's -coverage slows these string-heavy specifications down tenfold; per-action counts are taken from the
    #  histories of the generation run below, which explores the same state graph with the history switched on)
    mc = run_tlc("MC_DataClient", "DataClient_mc", workers=W, overrides={"Calls": "<- CallsAll"} if thorough else {})
    rep.add_tlc(mc, "exhaustive model checking of the paging protocol: YieldedIsPrefix, DoneComplete, RequestChain, ParamsSent, "
                    "InvalidSiteNoRequest, RejectedOnlyInvalid, Lazy, CountResult + action properties YieldOneAtATime, "
                    "RequestOnlyOnDemand, NothingAfterEnd", "DataClient_mc" + (" Calls=CallsAll" if thorough else ""))
    require_ok(mc, "DataClient model checking")
    if thorough:
        mc2 = run_tlc("MC_DataClient", "DataClient_mc", workers=W, overrides={"MaxPageSize": "= 3"})
        rep.add_tlc(mc2, "the same with pages of up to 3 documents", "DataClient_mc MaxPageSize=3")
        require_ok(mc2, "DataClient model checking (3)")
    live = run_tlc("MC_DataClient", "DataClient_live", workers=W, overrides={"MaxPages": "= 4"} if thorough else {})
    rep.add_tlc(live, "liveness under weak fairness: Termination, PullingConsumerGetsAll", "DataClient_live")
    require_ok(live, "DataClient liveness")

    gens = [("DataClient_gen", {})] if not thorough else [
        ("DataClient_gen", {"Calls": "<- CallsAll", "MaxPages": "= 3"}), ("DataClient_gen", {"MaxPageSize": "= 3"})]
    n_proto, seen, samples = 0, set(), []
    with patched_requests():
        for cfg, gov in gens:
            gen = run_tlc("MC_DataClient", cfg, workers=1, tags=("BHV", "DOCS"), overrides=gov, timeout=3000)
            require_ok(gen, "DataClient generation")
            for b in gen.emitted.get("BHV", []):       # action counts from the emitted histories
                for st in b["steps"]:
                    gen.coverage[st["a"]] = gen.coverage.get(st["a"], 0) + 1
                gen.coverage["Finish"] = gen.coverage.get("Finish", 0) + 1
            rep.add_tlc(gen, "exhaustive behaviour generation (action counts: occurrences in the emitted histories) " + json.dumps(gov),
                        cfg, require_actions=PROTOCOL_ACTIONS)
            table = {d["id"]: d for d in gen.emitted["DOCS"][0]}
            for b in gen.emitted.get("BHV", []):
                k = jhash(b)
                if k in seen:
                    continue
                seen.add(k)
                used = sorted({i for p in b["pages"] for i in p})
                b["docs"] = {str(i): table[i] for i in used}
                m = replay_protocol(b)
                rep.replayed += 1
                n_proto += 1
                rep.count(k, _nontrivial_protocol(b))
                if m is not None:
                    _violate(rep, b, m)
                if len(samples) < 1 and b["final"] == "done" and len(b["sizes"]) == 3 and b["sizes"][1] == 0 and b["total"] == 2:
                    samples.append({kk: vv for kk, vv in b.items() if kk != "docs"})
    for s_ in samples:
        rep.sample(s_)
    two_generators(rep, thorough, W)

    # ---- Part 2: time
    walk = fut_walk.result()
    walk.coverage = {"Tick": walk.distinct - 1}       # a chain: every state but the first is reached by one Tick
    rep.add_tlc(walk, "calendar walked day by day 1971-2037: closed forms, weekday, RFC-1123 text, DST status agree on every day",
                "DataClient_walk", require_actions=["Tick"])
    require_ok(walk, "calendar walk")
    tm = fut_time.result()
    tm.coverage = {"Eval": len(tm.emitted.get("BHV", [])), "Finish": len(tm.emitted.get("BHV", []))}   # one emission per Eval+Finish
    rep.add_tlc(tm, "time theorems (ParseFormat, FormatParse, SameInstant, FieldsValid, NoSkippedHour, ClockStep, Calendar) "
                    "decided on every lattice case; each case emitted", "DataClient_time " + json.dumps(ov), require_actions=["Eval", "Finish"])
    require_ok(tm, "time lattice")
    cases = tm.emitted.get("BHV", [])
    cases.sort(key=lambda c: (c["zone"], c["t"]))
    if tm.distinct != 3 * len(cases):
        raise RuntimeError("time lattice: %d states but %d emitted cases" % (tm.distinct, len(cases)))
    by_zone = {}
    for c in cases:
        m = replay_time(c)
        rep.replayed += 1
        local_date_differs = (c["y"], c["m"], c["d"]) != tuple(datetime.fromtimestamp(c["t"], tz=timezone.utc).timetuple()[:3])
        rep.count("%s@%d" % (c["zone"], c["t"]), local_date_differs or c["dst"] == 1)
        if m is not None:
            _violate(rep, c, m)
        by_zone.setdefault(c["zone"], []).append(c)
    n_docs = 0
    for zone, lst in sorted(by_zone.items()):
        k, size = 0, 5
        while k < len(lst):
            size = 5 + (size - 4) % 8          # 6..12 cases per document
            dc = make_doc_case(zone, lst[k:k + size])
            k += size
            m = replay_doc(dc)
            rep.replayed += 1
            n_docs += 1
            if m is not None:
                _violate(rep, dc, m)
    rep.sample(cases[len(cases) // 2])
    nested = nested_user_inputs_probe()
    rep.notes.append("nested userInputs[*].modifiedAt/requestedDeparture converted by parse_dates: %s (informational)" % nested)
    if NESTED_USER_INPUTS_DEMANDED and not nested:
        rep.violation("C20:parse_dates:nested-userInputs", "RFC-1123 strings inside the userInputs list stay strings", {"kind": "case", "module": "props_dataclient", "case": {"kind": "nested_probe"}})
    rep.exhaustive = True
    rep.bounds = {"pages": "1..4 (3 with the full call menu in the thorough generation)", "page_size": "0..%d" % (3 if thorough else 2),
                  "calls": "CallsAll (405)" if thorough else "CallsQuick (16)", "time_cases": len(cases),
                  "years": "1987..2037" if thorough else "1996 2000 2006 2007 2018-2021 2037", "calendar_walk_days": walk.distinct}
    rep.notes.append("%d protocol behaviours, %d time cases and %d whole documents executed through the real code; "
                     "every behaviour/case TLC enumerated was executed" % (n_proto, len(cases), n_docs))
    return rep.finish()
