"""C06: Feasibility.tla cases replayed through the three real feasibility checkers.

Every case TLC evaluates (network x tolerance pair x schedule x dropped stations x linear flag)
is executed through
  * ChargingNetwork.is_feasible                     (dense matrix; tolerances as arguments and as
                                                     network attributes)
  * Interface.is_feasible                           (dict form: dropped stations are absent, key
                                                     order permuted, list / ndarray / tuple values)
  * algorithms.utils.infrastructure_constraints_feasible on Interface.infrastructure_info()
                                                    (2-D, and 1-D for one-period schedules, which is
                                                     how the sorted schedulers call it)
and the verdicts are compared with the specification's; the aggregate magnitudes returned by
ChargingNetwork.constraint_current are compared with the spec's exact magnitudes.  A
constraint-free network is additionally driven through Interface and the real uncontrolled /
sorted / round-robin schedulers.
"""
import json
import math
import random
import warnings
from datetime import datetime
from fractions import Fraction

import numpy as np

from .common import Report, jhash
from .tlc import run_tlc, require_ok

REL = 1e-9            # float comparison / decisiveness (relative; absolute below 1 A)
# registration order differs from the alphabetical order of the ids on purpose
IDS = ["S-c", "S-a", "S-d", "S-b", "S-e"]
ANGLES = {"ll": {1: 30.0, 2: -90.0, 3: 150.0}, "ln": {1: 0.0, 2: -120.0, 3: 120.0}}

_NETS = {}


def station_angles(case):
    if case["fam"] == "col":
        return [float(case["ang"] + case["rot"])] * len(case["ph"])
    return [ANGLES[case["fam"]][p] + case["rot"] for p in case["ph"]]


def build(case):
    """The real network + Interface for the case's network description (cached)."""
    key = json.dumps([case[k] for k in ("fam", "ang", "rot", "ph", "cd", "cons", "upa")])
    hit = _NETS.get(key)
    if hit is not None:
        return hit
    from acnportal.acnsim import ChargingNetwork, Simulator, EventQueue, Interface, Current
    from acnportal.acnsim.models import EVSE
    from acnportal.algorithms import BaseAlgorithm
    upa, cd = case["upa"], case["cd"]
    with warnings.catch_warnings():
        warnings.simplefilter("ignore")
        net = ChargingNetwork()
        ids = IDS[:len(case["ph"])]
        for sid, ang in zip(ids, station_angles(case)):
            net.register_evse(EVSE(sid, max_rate=1e6), 208, ang)
        for j, con in enumerate(case["cons"]):
            # whole coefficients are handed over as Python ints, fractional ones as floats (as a user would write them)
            cur = Current({sid: (n // cd if n % cd == 0 else n / cd) for sid, n in zip(ids, con["n"]) if n != 0})
            net.add_constraint(cur, con["lim"] / upa, name="con-%d" % j)
        sim = Simulator(net, BaseAlgorithm(), EventQueue(), datetime(2020, 1, 1), period=5, verbose=False)
        iface = Interface(sim)
    if len(_NETS) > 64:
        _NETS.clear()
    _NETS[key] = (net, iface, ids)
    return _NETS[key]


def row_margin(case, row):
    """Exact comparison of one (constraint, period) entry: (spec-side ok recomputed with Fractions,
    |distance to the bound| in amperes, limit in amperes)."""
    L = case["cons"][row["j"] - 1]["lim"]
    tol = max(Fraction(case["at"]), Fraction(case["rn"] * L, case["rd"]))
    bound = L + tol
    if row["sq"]:
        lhs2 = Fraction(row["m"], row["k"] ** 2)
        ok = lhs2 <= bound * bound
        mag = math.sqrt(row["m"]) / row["k"]
        dist = abs(float(lhs2 - bound * bound)) / (mag + float(bound)) if (mag + float(bound)) > 0 else 0.0
    else:
        lhs = Fraction(row["m"], row["k"])
        ok = lhs <= bound
        dist = abs(float(lhs - bound))
    return ok, dist / case["upa"], L / case["upa"]


def exact_boundary(case, row):
    """The entry sits exactly ON its bound and floating point computes it exactly: whole amperes everywhere (currents,
    coefficients, limit, tolerance), no relative tolerance, and either the linear relaxation or a network whose stations
    all sit at 0 degrees (e^{j0} = 1 exactly).  "At most the limit plus the tolerance" includes equality, so such a case
    is decisive although its margin is zero."""
    upa, cd = case["upa"], case["cd"]
    if case["rn"] != 0 or case["at"] % upa or row["sq"]:
        return False
    if not (case["lin"] or (case["fam"] == "col" and (case["ang"] + case["rot"]) % 360 == 0)):
        return False
    if any(n % cd for c in case["cons"] for n in c["n"]) or any(c["lim"] % upa for c in case["cons"]):
        return False
    return all(v % upa == 0 and abs(v) // upa < 2 ** 20 for col in case["dense"] for v in col)


def decisive(case):
    """A feasible verdict is decisive when every entry is clear of its bound; an infeasible one
    when at least one violating entry is."""
    clear_fail, all_clear = False, True
    for row in case["rows"]:
        ok, dist, lim = row_margin(case, row)
        if ok != row["ok"]:
            raise RuntimeError("TLC's arithmetic and the harness's Fractions disagree on %r" % (row,))
        clear = dist >= REL * max(1.0, lim) or (dist == 0 and exact_boundary(case, row))
        all_clear = all_clear and clear
        clear_fail = clear_fail or (clear and not ok)
    return all_clear if case["feas"] else clear_fail


def _mixed(case):
    return any(min(c["n"]) < 0 < max(c["n"]) for c in case["cons"])


def _key(case, checker, extra=None):
    if extra:
        return "C06:%s:%s:%s" % (checker, "linear" if case["lin"] else "phasor", extra)
    if not case["lin"]:
        return "C06:%s:phasor" % checker
    if checker == "utils":
        return "C06:utils:linear:%s" % ("multi-period" if len(case["x"]) >= 2 else "single-period")
    return "C06:%s:linear:%s" % (checker, "mixed-sign" if _mixed(case) else "same-sign")


def _call(fn, *a, **kw):
    try:
        with warnings.catch_warnings():
            warnings.simplefilter("ignore")
            return bool(fn(*a, **kw))
    except Exception as e:  # a checker that raises has not answered
        return "raised %s: %s" % (type(e).__name__, str(e)[:120])


def replay_all(case):
    """Execute one emitted case through the real code; return the list of mismatches
    (each {key, field, spec, impl})."""
    from acnportal.algorithms.utils import infrastructure_constraints_feasible as icf
    net, iface, ids = build(case)
    upa = case["upa"]
    S, T = len(ids), len(case["x"])
    lin, want = bool(case["lin"]), bool(case["feas"])
    at, rt = case["at"] / upa, case["rn"] / case["rd"]
    out = []
    mat = np.array(case["dense"], dtype=float).reshape(T, S).T / upa        # stations x periods
    h = int(jhash([case["x"], case["drop"], case["at"], case["rd"]]), 16)

    def mismatch(checker, field, impl, extra=None):
        out.append({"key": _key(case, checker, extra), "field": field, "spec": want, "impl": impl})

    # --- network side ------------------------------------------------------------------------
    got_net = _call(net.is_feasible, mat, linear=lin, violation_tolerance=at, relative_tolerance=rt)
    if got_net != want:
        mismatch("network", "ChargingNetwork.is_feasible", got_net)
    # --- interface side (dict form; the network keeps its default tolerances here) -----------------
    keep = [s for s in range(S) if (s + 1) not in case["drop"]]
    order = keep[:]
    random.Random(h).shuffle(order)
    conv = (list, np.array, tuple)[h % 3]
    loads = {ids[s]: conv([case["x"][t][s] / upa for t in range(T)]) for s in order}
    got_if = None
    if loads:     # (an empty dict is "no schedule": checked once per network)
        got_if = _call(iface.is_feasible, loads, lin, at, rt)
        if got_if != want:
            if got_if == got_net:
                mismatch("network", "Interface.is_feasible (delegates)", got_if)
            else:
                mismatch("interface", "Interface.is_feasible", got_if, "differs-from-network")
    # --- the same tolerances taken from the network's attributes (what Interface defaults to) -----
    old = (net.violation_tolerance, net.relative_tolerance)
    net.violation_tolerance, net.relative_tolerance = at, rt
    try:
        got = _call(net.is_feasible, mat, linear=lin)
        if got != want and got != got_net:
            mismatch("network", "ChargingNetwork.is_feasible(network tolerances)", got, "attribute-tolerances")
        if loads:
            got = _call(iface.is_feasible, loads, linear=lin)
            if got != want and got != got_if:
                mismatch("interface", "Interface.is_feasible(network tolerances)", got, "attribute-tolerances")
    finally:
        net.violation_tolerance, net.relative_tolerance = old
    # --- algorithm side --------------------------------------------------------------------------
    try:
        infra = iface.infrastructure_info()
    except Exception as e:
        out.append({"key": "C06:interface:infrastructure_info" + ("" if case["cons"] else ":no-constraints"),
                    "field": "Interface.infrastructure_info()", "spec": "a description of the network",
                    "impl": "raised %s: %s" % (type(e).__name__, str(e)[:120])})
        return out
    got_ut = _call(icf, mat, infra, lin, at, rt)
    if got_ut != want:
        mismatch("utils", "infrastructure_constraints_feasible", got_ut)
    if (case["at"] * 100000 == upa) and (case["rn"] * 10000000 == case["rd"]):     # the defaults
        got = _call(icf, mat, infra, linear=lin)
        if got != want and got != got_ut:
            mismatch("utils", "infrastructure_constraints_feasible(default tolerances)", got, "default-tolerances")
    if T == 1:      # the sorted schedulers pass a vector
        got = _call(icf, mat[:, 0], infra, lin, at, rt)
        if got != want and got != got_ut:
            mismatch("utils", "infrastructure_constraints_feasible(1-D rates)", got, "1-D-input")
    # --- the same schedule at the end of a long horizon (PeriodLocal: the verdict is a conjunction over periods, so
    # 1100 idle periods in front change nothing; plans of more than a thousand periods are ordinary: a day in minutes)
    if h % 16 == 0 and T >= 1:
        long_mat = np.concatenate([np.zeros((S, 1100)), mat], axis=1)
        got = _call(net.is_feasible, long_mat, linear=lin, violation_tolerance=at, relative_tolerance=rt)
        if got != want and got != got_net:
            mismatch("network", "ChargingNetwork.is_feasible(1100 idle periods first)", got, "long-horizon")
        got = _call(icf, long_mat, infra, lin, at, rt)
        if got != want and got != got_ut:
            mismatch("utils", "infrastructure_constraints_feasible(1100 idle periods first)", got, "long-horizon")
    # --- conservativeness, witnessed on the real code alone -----------------------------------------
    # (the spec is exact: feasP False means the phasor magnitude really exceeds limit + tolerance)
    if lin and not case["feasP"] and mat.size and (mat >= 0).all():
        for checker, acc, rej in (("network", got_net, _call(net.is_feasible, mat, False, at, rt)),
                                  ("utils", got_ut, _call(icf, mat, infra, False, at, rt))):
            if acc is True and rej is False:
                out.append({"key": "C06:%s:linear:not-conservative" % checker,
                            "field": "%s: linear=True accepts a non-negative schedule that linear=False rejects" % checker,
                            "spec": "linear accepts => phasor accepts", "impl": "linear True, phasor False"})
    # --- aggregate magnitudes --------------------------------------------------------------------
    if case["rows"]:
        try:
            with warnings.catch_warnings():
                warnings.simplefilter("ignore")
                agg = np.abs(net.constraint_current(mat, linear=lin))
            for row in case["rows"]:
                m = (math.sqrt(row["m"]) if row["sq"] else row["m"]) / row["k"] / upa
                g = float(agg[row["j"] - 1, row["t"] - 1])
                if abs(g - m) > REL * max(1.0, abs(m)):
                    out.append({"key": _key(case, "network") + ":magnitude", "field": "|constraint_current|[%d,%d]" % (row["j"], row["t"]),
                                "spec": m, "impl": g})
                    break
        except Exception as e:
            out.append({"key": _key(case, "network") + ":magnitude", "field": "constraint_current", "spec": "array",
                        "impl": "raised %s: %s" % (type(e).__name__, e)})
    return out


def replay_case(case):
    """One emitted case through the real code: None or the first mismatch."""
    if not decisive(case):
        return None
    ms = replay_all(case)
    return ms[0] if ms else None


def interface_api_cases(case):
    """Per network: what the dict API allows besides full-length schedules."""
    net, iface, ids = build(case)
    out = []
    got = _call(iface.is_feasible, {})
    if got is not True:
        out.append({"key": "C06:interface:empty-dict", "field": "Interface.is_feasible({})", "spec": True, "impl": got})
    got = _call(iface.is_feasible, {sid: [] for sid in ids})
    if got is not True:
        out.append({"key": "C06:interface:empty-schedules", "field": "Interface.is_feasible(zero periods)", "spec": True, "impl": got})
    if len(ids) >= 2:
        got = _call(iface.is_feasible, {ids[0]: [0.0, 0.0], ids[1]: [0.0]})
        if not (isinstance(got, str) and got.startswith("raised")):
            out.append({"key": "C06:interface:unequal-lengths", "field": "Interface.is_feasible(unequal lengths)",
                        "spec": "rejected with an exception", "impl": got})
    return out


# ---------------------------------------------------------------------------------------------
# a constraint-free network must be usable by the real schedulers


def scheduler_scenarios(tier):
    rnd = random.Random(7)
    n = 8 if tier == "quick" else 40
    scen = []
    for k in range(n):
        ns = rnd.choice([1, 2, 3, 4])
        sess = []
        for s in range(ns):
            arr = rnd.randrange(0, 4)
            dur = rnd.randrange(6, 12)
            # the request can always be met at the station's maximum rate within the stay
            cap_kwh = 32 * 208 * 5 / 60000.0 * dur
            req = round(cap_kwh * rnd.choice([0.2, 0.5, 0.8]), 6)
            sess.append({"st": s, "arr": arr, "dep": arr + dur, "req": req})
        # how the network came to have no constraints: never had any / all were removed again / either of
        # those written to JSON and loaded back
        scen.append({"kind": "free-network-run", "angles": [30, -90, 150, 30][:ns], "sessions": sess,
                     "algo": ["uncontrolled", "fcfs", "edf", "llf", "rr"][k % 5],
                     "origin": ["never", "removed", "removed+json", "never+json"][(k // 5 + k) % 4]})
    return scen


def replay_free(sc):
    """Run a real simulation on a network without constraints; None or a mismatch."""
    from acnportal.acnsim import ChargingNetwork, Simulator, EventQueue, Interface
    from acnportal.acnsim.events import PluginEvent
    from acnportal.acnsim.models import EVSE, EV, Battery
    from acnportal.algorithms import (UncontrolledCharging, SortedSchedulingAlgo, RoundRobin, first_come_first_served,
                                      earliest_deadline_first, least_laxity_first)
    from acnportal.algorithms.utils import infrastructure_constraints_feasible as icf
    try:
        with warnings.catch_warnings():
            warnings.simplefilter("ignore")
            net = ChargingNetwork()
            ids = IDS[:len(sc["angles"])]
            for sid, a in zip(ids, sc["angles"]):
                net.register_evse(EVSE(sid, max_rate=32), 208, a)
            origin = sc.get("origin", "never")
            if origin.startswith("removed"):
                from acnportal.acnsim.network import Current
                net.add_constraint(Current(list(ids)), 50, name="tmp")
                net.remove_constraint("tmp")
            if origin.endswith("+json"):
                net = ChargingNetwork.from_json(net.to_json())
            evs = []
            for i, s in enumerate(sc["sessions"]):
                evs.append(EV(s["arr"], s["dep"], s["req"], ids[s["st"]], "sess-%d" % i, Battery(s["req"], 0, 100)))
            algo = {"uncontrolled": lambda: UncontrolledCharging(),
                    "fcfs": lambda: SortedSchedulingAlgo(first_come_first_served),
                    "edf": lambda: SortedSchedulingAlgo(earliest_deadline_first),
                    "llf": lambda: SortedSchedulingAlgo(least_laxity_first),
                    "rr": lambda: RoundRobin(first_come_first_served)}[sc["algo"]]()
            sim = Simulator(net, algo, EventQueue([PluginEvent(e.arrival, e) for e in evs]), datetime(2020, 1, 1),
                            period=5, verbose=False)
            iface = Interface(sim)
            try:
                info = iface.infrastructure_info()
            except Exception as e:
                return {"key": "C06:interface:infrastructure_info:no-constraints", "field": "Interface.infrastructure_info()",
                        "spec": "a description of the network", "impl": "raised %s: %s" % (type(e).__name__, str(e)[:120])}
            if info.constraint_matrix.shape != (0, len(ids)) or len(info.constraint_limits) != 0:
                return {"key": "C06:free-network:infrastructure_info", "field": "shape", "spec": [0, len(ids)],
                        "impl": list(info.constraint_matrix.shape)}
            big = np.full((len(ids), 3), 1e6)
            for name, got in (("ChargingNetwork.is_feasible", _call(net.is_feasible, big)),
                              ("ChargingNetwork.is_feasible(linear)", _call(net.is_feasible, -big, linear=True)),
                              ("Interface.is_feasible", _call(iface.is_feasible, {ids[0]: [1e6, -1e6]})),
                              ("infrastructure_constraints_feasible", _call(icf, big, info)),
                              ("infrastructure_constraints_feasible(linear)", _call(icf, big, info, linear=True)),
                              ("infrastructure_constraints_feasible(1-D)", _call(icf, big[:, 0], info))):
                if got is not True:
                    return {"key": "C06:free-network:accepts-all", "field": name, "spec": True, "impl": got}
            sim.run()
    except Exception as e:
        return {"key": "C06:free-network:scheduler-run", "field": "run with %s" % sc["algo"], "spec": "completes",
                "impl": "raised %s: %s" % (type(e).__name__, str(e)[:200])}
    # nothing constrains the stations: every request is met (it fits into the stay at the maximum rate)
    # (RoundRobin hands out 0.1 A increments: it may leave less than one increment-period undelivered)
    slack = 0.1 * 208 * 5 / 60000.0 * (1 + 1e-6) if sc["algo"] == "rr" else 0.0
    for e, s in zip(evs, sc["sessions"]):
        if not (s["req"] - slack - 1e-6 * max(1.0, s["req"]) <= e.energy_delivered <= s["req"] + 1e-6 * max(1.0, s["req"])):
            return {"key": "C06:free-network:scheduler-run", "field": "energy delivered to session at %s with %s" % (e.station_id, sc["algo"]),
                    "spec": s["req"], "impl": float(e.energy_delivered)}
    if not net.is_feasible(sim.pilot_signals):
        return {"key": "C06:free-network:accepts-all", "field": "is_feasible(pilot_signals)", "spec": True, "impl": False}
    return None


def replay_any(case):
    """Entry point for ./check --replay."""
    if case.get("kind") == "free-network-run":
        return replay_free(case)
    if case.get("kind") == "interface-api":
        ms = interface_api_cases(case["net"])
        return ms[0] if ms else None
    return replay_case(case)


def nontrivial(case):
    """Near a bound (within 1e-3 A or 1 %) in some entry, or a genuinely phasor/mixed-sign/multi-period case."""
    near = False
    for row in case["rows"]:
        _, dist, lim = row_margin(case, row)
        near = near or dist <= max(1e-3, 0.01 * lim)
    return near


def in_simulation(rep, tier, seed):
    """The network-side check as the simulator uses it: behaviours of AcnSim.tla replayed on the single-phase
    network 'agg' (and on constraint-free ones); _update_schedules must warn exactly when the specification's
    Warning(ConsAgg, m) says the submitted schedule violates a constraint, naming the worst constraint, column and
    excess."""
    import json
    from .props_acnsim import gen_behaviours, _kw_cycle, run_pool, _work_spec
    n = 500 if tier == "quick" else 12000
    bhvs, stats = gen_behaviours("AcnSim_gen", {"MaxCrash": "= 0", "Menu": "<- MenuC04"}, n, 160, seed + 5,
                                 procs=2 if tier == "quick" else 8)
    for st in stats:
        rep.add_tlc(st, "AcnSim.tla behaviour generation for the in-simulation feasibility warning", "AcnSim_gen Menu=MenuC04")
    jobs = [(b, _kw_cycle(i, seed, constraints=["agg", "agg", "none", "agg", "removed"][i % 5]), seed * 100003 + i)
            for i, b in enumerate(bhvs)]
    nwarn = 0
    for (b, kw, _), d in zip(jobs, run_pool(_work_spec, jobs, 8)):
        rep.replayed += 1
        w = any(r["a"] == "update" and r.get("warnAgg", {}).get("warn") for r in b)
        nwarn += bool(w and kw["constraints"] == "agg")
        rep.count("acnsim-" + jhash(b), w)
        if d is None:
            continue
        if d["owner"] == "C06":
            rep.violation("C06:simulator:%s" % d["field"].split("@")[0].split("[")[0],
                          "%s: spec %s, implementation %s (step %s)" % (d["field"], json.dumps(d["spec"])[:200],
                                                                        json.dumps(d["impl"])[:200], d["step"]),
                          {"kind": "acnsim", "behaviour": b, "variation": kw, "divergence": d})
        else:
            rep.foreign_divergence(d["owner"], {"divergence": d, "variation": kw, "behaviour": b})
    if nwarn == 0:
        raise RuntimeError("vacuous: no replayed behaviour submits an infeasible schedule")
    rep.notes.append("%d AcnSim behaviours replayed for the simulator's feasibility warning (%d with at least one infeasible "
                     "submission on the constrained network)" % (len(jobs), nwarn))


def check_C06(tier, seed):
    rep = Report("C06", tier, seed)
    workers = 4 if tier == "quick" else 8
    rep.rule = ("cases = network (angle family x coefficient signs x limits) x tolerance pair x schedule (0..MaxT columns "
                "from the network's menu) x stations dropped from the dict x linear flag, enumerated by TLC; every case "
                "is distinct; non-trivial = some (constraint, period) entry lies within max(1e-3 A, 1 %) of its bound")
    rep.assumptions += [
        "angle families {30,-90,150}, {0,-120,120} (each with a common rotation) and one common angle; limits >= 0",
        "verdicts are compared on decisive cases only: distance to limit+tolerance >= 1e-9 * max(1 A, limit), "
        "computed exactly from the spec's integers (an aggregate exactly at the bound is skipped and counted)",
        "units: 1e-6 A on collinear rows (tolerances 1e-5 A / 1e-7 and others are exact integers there), 0.1 A on phasor rows",
        "Interface.is_feasible: stations absent from the dict count as zero; unequal lengths must be rejected",
    ]
    quick = tier == "quick"
    rep.bounds = {"nets": "NetsQuick (12)" if quick else "NetsAll (15)", "MaxT": 2 if quick else 3,
                  "drops": "DropsQuick" if quick else "DropsAll", "menu": "<= 10 columns per network",
                  "tolerance_pairs": "2-3 per network"}
    mc = run_tlc("MC_Feasibility", "Feasibility_mc", workers=workers, coverage=True,
                 overrides={"Drops": "<- DropsQuick"} if quick else {})
    rep.add_tlc(mc, "exhaustive model checking of the theorems LinearConservative, NoConstraintsAcceptsAll, "
                    "EmptyScheduleFeasible, PeriodLocal, CollinearAgrees, LinearExactWhenAligned, DropIsZero, "
                    "ResultIsDefinition over NetsAll, MaxT=2", "Feasibility_mc" + (" Drops=DropsQuick" if quick else ""), require_actions=["Eval", "Finish"])
    require_ok(mc, "Feasibility model checking")

    stats = {"feasible": 0, "infeasible": 0, "linear": 0, "multi": 0}
    seen_nets = {}
    samples = []

    def on_emit(tag, case):
        if case["id"] not in seen_nets:
            seen_nets[case["id"]] = case
        if not decisive(case):
            rep.non_decisive += 1
            return
        ms = replay_all(case)
        rep.replayed += 1
        rep.count(jhash(case), nontrivial(case))
        stats["feasible" if case["feas"] else "infeasible"] += 1
        stats["linear"] += 1 if case["lin"] else 0
        stats["multi"] += 1 if len(case["x"]) >= 2 else 0
        if len(samples) < 3 and case["rows"] and len(case["x"]) == 2 and nontrivial(case) and rep.replayed % 977 == 0:
            samples.append(case)
        for d in ms:
            rep.violation(d["key"], "%s: spec %r, implementation %r (net %s, linear=%s, periods=%d)"
                          % (d["field"], d["spec"], d["impl"], case["id"], case["lin"], len(case["x"])),
                          {"kind": "case", "module": "props_feasibility", "case": case, "mismatch": d})

    ov = {} if quick else {"Nets": "<- NetsAll", "MaxT": "= 3", "Drops": "<- DropsAll"}
    gen = run_tlc("MC_Feasibility", "Feasibility_gen", workers=workers, overrides=ov, on_emit=on_emit, timeout=3000)
    require_ok(gen, "Feasibility generation")
    rep.add_tlc(gen, "exhaustive case generation (every case evaluated by TLC, emitted and replayed)",
                "Feasibility_gen" + ("" if quick else " Nets=NetsAll MaxT=3 Drops=DropsAll"))
    if rep.replayed == 0:
        raise RuntimeError("no case was replayed")
    for case in seen_nets.values():
        for d in interface_api_cases(case):
            rep.violation(d["key"], "%s: spec %r, implementation %r" % (d["field"], d["spec"], d["impl"]),
                          {"kind": "case", "module": "props_feasibility", "fn": "replay_any",
                           "case": {"kind": "interface-api", "net": case}, "mismatch": d})
        rep.replayed += 1
        rep.count()
    for sc in scheduler_scenarios(tier):
        d = replay_free(sc)
        rep.replayed += 1
        rep.count(jhash(sc), True)
        if d is not None:
            rep.violation(d["key"], "%s: spec %r, implementation %r" % (d["field"], d["spec"], d["impl"]),
                          {"kind": "case", "module": "props_feasibility", "fn": "replay_any", "case": sc, "mismatch": d})
    in_simulation(rep, tier, seed)
    rep.exhaustive = True
    rep.notes.append("cases replayed: %(feasible)d feasible, %(infeasible)d infeasible, %(linear)d linear, %(multi)d with >= 2 periods" % stats)
    for s in samples:
        rep.sample(s)
    return rep.finish()
