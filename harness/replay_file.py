"""./check <id> --replay <file>: re-execute one recorded failing case against the current tree."""
import json
import random


def replay_file(prop, path):
    with open(path) as fh:
        rec = json.load(fh)
    p = rec["payload"]
    kind = p.get("kind")
    if kind == "acnsim_trace":
        from .acnsim_trace import replay_trace
        d = replay_trace(p)
        if d is None:
            print("replay: the recorded execution is now accepted by the specification")
            return 0
        print("replay: still rejected: %s" % json.dumps(d, default=repr)[:600])
        print("VIOLATION property=%s replay=%s" % (prop, path))
        return 1
    if kind and kind.startswith("acnsim"):
        from . import props_acnsim as pa
        b, seed = p["behaviour"], 1
        if kind == "acnsim":
            d = pa._work_spec((b, p["variation"], seed))
        elif kind == "acnsim_step":
            d = pa._work_step((b, p["variation"], seed))
        elif kind == "acnsim_twin":
            d = pa._work_twin((b, p["variation"], seed))
        elif kind == "acnsim_twostage":
            d = pa._work_twostage((b, p["variation"], seed))
        else:
            d = pa._work_meta((b, p["variations"], seed))
        if d is None:
            print("replay: the implementation now follows the recorded behaviour")
            return 0
        print("replay: still diverges: %s" % json.dumps(d, default=repr)[:600])
        print("VIOLATION property=%s replay=%s" % (prop, path))
        return 1
    from . import replay_cases
    return replay_cases.replay_case(prop, path, rec)
