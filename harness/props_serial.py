"""C09 (clause "the loaded object carries the complete state, and an EV referenced from its station, the session
history and pending events is one shared object again") and C11 (last sentence, "a queue restored from JSON behaves
identically to the original"): the heaps of Serial.tla replayed through the real serialisation machinery.

TLC chooses a small object graph (spec/Serial.tla: stations, EVs, batteries, events, queue, simulator, optionally one
object of an extension class) with the sharing pattern chosen freely, runs the specified mechanism (dump with
context_dict, load with loaded_dict, dump again) on it and emits: the heap, every access path from the root with the
object it leads to (the expected sharing relation), the expected registry and the expected warnings.  `replay_case`
builds the REAL objects for that heap through the public constructors / API, checks that what it built is the heap
described, and then

  * to_json() (to a string / a file object / a path) and <Class>.from_json(): the loaded graph must have the same access
    paths, classes and scalar attributes (every attribute of every object, numerically), and two paths lead to one
    object after loading IFF the specification says so (sharing lost / sharing invented);
  * the registry written must have exactly the expected keys, classes and ids in place of references;
  * the dump must leave the original graph untouched (structural fingerprint + object identities before/after);
  * dumping the loaded object again must give the same registry up to the renaming of ids;
  * every sub-object dumped and loaded on its own must give the sub-graph reachable from it;
  * a restored queue drained by the same calls as (a copy of) the original returns the same events (up to the order of
    equal (timestamp, precedence) keys), in the order the specification computes;
  * a restored simulator given its scheduler again runs like (a copy of) the original.
"""
import copy
import io
import json
import os
import random
import shutil
import sys
import tempfile
import warnings
from datetime import datetime

import numpy as np

_VERIF = os.path.dirname(os.path.dirname(os.path.abspath(__file__)))
if _VERIF not in sys.path:      # pydoc.locate("harness.props_serial.XEV") must find the extension classes below
    sys.path.insert(0, _VERIF)

with warnings.catch_warnings():
    warnings.simplefilter("ignore")
    from acnportal.acnsim.base import BaseSimObj, ErrorAllWrapper
    from acnportal.acnsim import Simulator, ChargingNetwork, EventQueue
    from acnportal.acnsim.events import Event, PluginEvent, UnplugEvent, RecomputeEvent
    from acnportal.acnsim.models import EV, Battery, Linear2StageBattery, EVSE, DeadbandEVSE, FiniteRatesEVSE
    from acnportal.acnsim.network import Current
    from acnportal.algorithms import BaseAlgorithm

from .common import Report, jhash, through_impl
from .tlc import run_tlc, require_ok, TlcFailure


def _cache_require():
    """BaseSimObj._to_registry / _from_registry look up the installed acnportal version with pkg_resources.require on
    every call (2 ms, more than the whole round trip of a small graph); the answer cannot change within a process."""
    import functools
    import pkg_resources
    if getattr(pkg_resources.require, "_verif_cached", False):
        return
    orig = pkg_resources.require

    @functools.lru_cache(maxsize=None)
    def require(*reqs):
        return orig(*reqs)
    require._verif_cached = True
    pkg_resources.require = require


_cache_require()

PFX = "C09:serial:"


# ---------------------------------------------------------------------------------------------------------------------
# classes of the harness that end up in the JSON by name: they must be importable as harness.props_serial.<name>

class SerialAlg(BaseAlgorithm):
    """The trivial scheduler: 8 A for every active session, recomputed every period."""

    def __init__(self):
        super().__init__()
        self.max_recompute = 1

    def schedule(self, active_sessions):
        return {s.station_id: [8.0] for s in active_sessions}


class XEV(EV):
    """An EV subclass that adds attributes without extending _to_dict."""


class XEVSE(EVSE):
    """An EVSE subclass that adds attributes without extending _to_dict."""


class XFiniteEVSE(FiniteRatesEVSE):
    """A FiniteRatesEVSE subclass that adds attributes without extending _to_dict."""


class XNet(ChargingNetwork):
    """A ChargingNetwork subclass that adds attributes without extending _to_dict."""


class Opaque:
    """Something json.dumps refuses."""

    def __init__(self, tag):
        self.tag = tag

    def __repr__(self):
        return "Opaque(%r)" % (self.tag,)


# ---------------------------------------------------------------------------------------------------------------------
# building the real objects of a heap

def sid(i):
    return "sess-%d" % i


def stn(i):
    return "S%d" % i


def key_index(k):
    if isinstance(k, str):
        for pre in ("sess-", "S"):
            if k.startswith(pre) and k[len(pre):].isdigit():
                return int(k[len(pre):])
    return k


def _sc(o, name):
    for s in o["sc"]:
        if s["n"] == name:
            return s["v"]
    raise KeyError(name)


def build(case, rng):
    """spec id -> real object, for the whole heap (also the objects nothing refers to)."""
    heap = {o["id"]: o for o in case["heap"]}
    objs = {}
    V = rng.choice([208.0, 240.0, 277])
    T = rng.choice([1, 5, 2.5])
    # batteries
    for oid, o in heap.items():
        if o["cls"] != "batt":
            continue
        cap = float(_sc(o, "_capacity")) + rng.choice([30, 42.5, 60.25])
        init = round(cap * rng.uniform(0.05, 0.6), 4)
        pw = rng.choice([3.3, 6.6, 7, 7.2])
        if rng.random() < 0.4:
            objs[oid] = Linear2StageBattery(cap, init, pw, noise_level=0, transition_soc=rng.choice([0.8, 0.85]),
                                            charge_calculation=rng.choice(["continuous", "stepwise"]))
        else:
            objs[oid] = Battery(cap, init, pw)
    # EVs (two EVs may be constructed on ONE battery object)
    for oid, o in heap.items():
        if o["cls"] not in ("ev", "xev"):
            continue
        batt = objs[[r["to"] for r in o["refs"] if r["f"] == "_battery"][0]]
        arr = rng.randrange(0, 3)
        dep = arr + rng.randrange(1, 6)
        cls = XEV if o["cls"] == "xev" else EV
        est = rng.choice([None, dep + 1, dep - 0.5])
        ev = cls(arr, dep, rng.choice([3.5, 10, 12.75]), stn(_sc(o, "_station_id")), sid(_sc(o, "_session_id")), batt,
                 estimated_departure=est)
        if rng.random() < 0.6:      # some history: energy delivered, charging rate, state of charge are real floats
            for _ in range(rng.randrange(1, 3)):
                ev.charge(rng.choice([6.0, 8, 13.3, 16]), V, T)
        objs[oid] = ev
    # EVSEs
    for oid, o in heap.items():
        if o["cls"] not in ("evse", "xevse"):
            continue
        name = stn(_sc(o, "_station_id"))
        if o["cls"] == "xevse":
            objs[oid] = XEVSE(name, max_rate=32, min_rate=0) if rng.random() < 0.5 else XFiniteEVSE(name, [8, 16, 24, 32])
        else:
            objs[oid] = rng.choice([
                lambda: EVSE(name, max_rate=32, min_rate=rng.choice([0, 6])),
                lambda: EVSE(name),                                      # max_rate = inf ("Infinity" in the JSON)
                lambda: DeadbandEVSE(name, deadband_end=rng.choice([6, 6.5]), max_rate=rng.choice([32, 40.5])),
                lambda: FiniteRatesEVSE(name, [8, 16, 24, 32]),
                lambda: FiniteRatesEVSE(name, (32, 6.5, 8, 13)),
            ])()
    # network
    no = heap.get(2)
    if no is not None:
        ncls = XNet if no["cls"] == "xnet" else ChargingNetwork
        net = ncls() if rng.random() < 0.5 else ncls(violation_tolerance=1e-4, relative_tolerance=1e-6)
        names = []
        for r in no["refs"]:
            if r["f"] == "_EVSEs":
                net.register_evse(objs[r["to"]], V if rng.random() < 0.7 else 120.0, rng.choice([0, 30, -90, 150]))
                names.append(stn(r["i"]))
        if names:
            form = rng.randrange(4)
            if form >= 1:
                net.add_constraint(Current({n: rng.choice([1, 0.5, -1]) for n in names}), 40.5, name="c1")
            if form >= 2:
                net.add_constraint(Current(names[:1]), 32, name="c2")
            if form == 3:       # all constraints removed again: a (0, n) matrix
                net.remove_constraint("c1")
                net.remove_constraint("c2")
        objs[2] = net
        for oid, o in heap.items():
            if o["cls"] in ("evse", "xevse"):
                for r in o["refs"]:
                    if r["f"] == "_ev":
                        net.plugin(objs[r["to"]])
                        if rng.random() < 0.5:
                            objs[oid].set_pilot(8, V, T)        # a pilot that every station class accepts
    # events
    for oid, o in heap.items():
        if o["cls"] in ("plugin", "unplug", "recompute", "event"):
            ts = _sc(o, "timestamp")
            if o["cls"] == "recompute":
                objs[oid] = RecomputeEvent(ts)
            elif o["cls"] == "event":
                objs[oid] = Event(ts)
            else:
                ev = objs[o["refs"][0]["to"]]
                objs[oid] = (PluginEvent if o["cls"] == "plugin" else UnplugEvent)(ts, ev)
    # queue: add_event in the insertion order chosen by the specification
    qo = heap.get(3)
    if qo is not None:
        ins = [objs[10 + i] for i in case["qins"]]
        tstep = _sc(qo, "_timestep")
        form = rng.randrange(3)
        if form == 0 and tstep == 0:
            q = EventQueue(ins)
        else:
            q = EventQueue()
            if tstep:
                q.get_current_events(tstep)      # nothing to return yet; the queue remembers the period asked for
            if form == 1:
                q.add_events(ins)
            else:
                for e in ins:
                    q.add_event(e)
        objs[3] = q
    # simulator
    so = heap.get(1)
    if so is not None:
        start = rng.choice([datetime(2020, 1, 1), datetime(2019, 12, 31, 23, 55, 30), datetime(2021, 6, 15, 8, 0, 0, 250000)])
        signals = rng.choice([None, {"tariff": [0.25, 0.5, 1], "name": "x", "nested": {"a": (1, 2.5)}}, {}])
        sim = Simulator(objs[2], SerialAlg(), objs[3], start, period=T, signals=signals,
                        store_schedule_history=rng.random() < 0.5, verbose=False)
        for r in so["refs"]:
            if r["f"] == "ev_history":
                sim.ev_history[sid(r["i"])] = objs[r["to"]]
            elif r["f"] == "event_history":
                sim.event_history.append(objs[r["to"]])
        it = _sc(so, "_iteration")
        n = len(objs[2].station_ids)
        last = objs[3].get_last_timestamp()
        w = max(it, (last + 1) if last is not None else 1) + rng.randrange(0, 2)
        sim._iteration = it
        sim.pilot_signals = np.round(np.array([[rng.choice([0, 8, 16, 6.5]) if c < it else 0.0 for c in range(w)] for _ in range(n)]).reshape(n, w), 3)
        sim.charging_rates = sim.pilot_signals * rng.choice([1, 0.5, 0.925])
        sim.peak = float(sim.charging_rates.sum(axis=0).max()) if n and w else 0
        sim._resolve = rng.random() < 0.3
        sim._last_schedule_update = rng.choice([None, 0, max(it - 1, 0)])
        if sim.schedule_history is not None and it > 0:
            sim.schedule_history = {0: {name: [8.0, 8] for name in objs[2].station_ids}, it - 1: {}}
        objs[1] = sim
    # the extension attributes
    x = case["params"]["ext"]
    if x["on"]:
        h = objs[x["holder"]]
        h.x_plain = rng.choice([7, 2.5, "seven", [1, 2.5, "z", None], {"a": [1, 2], "b": {"c": None}}, True, None])
        h.x_opaque = rng.choice([Opaque("o"), {1, 2}, np.array([1.5, 2]), 3 + 4j])
        if x["target"]:
            h.x_obj = objs[x["target"]]
    return objs


# ---------------------------------------------------------------------------------------------------------------------
# the real object graph: labelled references and scalars, by walking attributes

def qlabels(entries):
    """Labels of the entries of a queue array: (timestamp, event type, session) + occurrence number.  The position in the
    array is private to the queue (any arrangement that pops in the same order is as good), so it is not part of a label."""
    seen = {}
    out = []
    for ts, typ, who in entries:
        k = "%g|%s|%s" % (ts, typ, who)
        seen[k] = seen.get(k, 0) + 1
        out.append("%s|%d" % (k, seen[k]))
    return out


def children(obj):
    """[(label, child)]: every BaseSimObj found in an attribute - directly, as a dict value, as a list item, or inside a
    (timestamp, event) pair of a list; label = (attribute name, key) with dict keys / list positions as in Serial.tla."""
    out = []
    for attr, val in obj.__dict__.items():
        if attr == "_queue" and isinstance(obj, EventQueue):
            labs = qlabels([(ts, type(e).__name__, getattr(getattr(e, "ev", None), "session_id", None)) for ts, e in val])
            out += [((attr, lab), e) for lab, (ts, e) in zip(labs, val)]
            continue
        if isinstance(val, BaseSimObj):
            out.append(((attr, 0), val))
        elif isinstance(val, dict):
            for k, v in val.items():
                if isinstance(v, BaseSimObj):
                    out.append(((attr, key_index(k)), v))
        elif isinstance(val, (list, tuple)):
            for n, v in enumerate(val):
                if isinstance(v, BaseSimObj):
                    out.append(((attr, n + 1), v))
                elif isinstance(v, (list, tuple)):
                    for w in v:
                        if isinstance(w, BaseSimObj):
                            out.append(((attr, n + 1), w))
    return out


def norm(v):
    """A value, without its container types: what JSON can carry."""
    if isinstance(v, BaseSimObj):
        return ("ref",)
    if isinstance(v, ErrorAllWrapper):
        return ("stub", v.data)
    if isinstance(v, np.ndarray):
        if v.size == 0:
            return ("array", "empty")
        return ("array", list(v.shape), [norm(x) for x in v.ravel().tolist()])
    if isinstance(v, np.generic):
        return norm(v.item())
    if isinstance(v, bool) or v is None or isinstance(v, str):
        return v
    if isinstance(v, (int, float)):
        return float(v)
    if isinstance(v, datetime):
        return ("datetime", v.isoformat(), v.tzinfo is not None)
    if isinstance(v, dict):
        return ("dict", [[k if isinstance(k, str) else ("key", repr(k)), norm(x)] for k, x in v.items()])
    if isinstance(v, (list, tuple)):
        return [norm(x) for x in v]
    if isinstance(v, BaseAlgorithm):
        return ("scheduler", "%s.%s" % (type(v).__module__, type(v).__name__))
    try:
        json.dumps(v)
    except TypeError:
        return ("stub", repr(v))        # what is left of a value json.dumps refuses: its repr, wrapped
    return ("other", repr(v))


def same(a, b):
    if isinstance(a, float) and isinstance(b, float):
        return a == b or abs(a - b) <= 1e-12 * max(1.0, abs(a))
    if isinstance(a, (list, tuple)) and isinstance(b, (list, tuple)):
        return len(a) == len(b) and all(same(x, y) for x, y in zip(a, b))
    return type(a) == type(b) and a == b


def scalars(obj):
    """attribute -> value.  x_opaque is the attribute of the extension classes that json.dumps refuses (also when it is
    a numpy array: only a class's own _to_dict converts arrays): what must survive of it is its repr, wrapped."""
    out = {}
    for attr, val in obj.__dict__.items():
        if attr == "x_opaque" and not isinstance(val, ErrorAllWrapper):
            out[attr] = ("stub", repr(val))
        elif attr == "_queue" and isinstance(obj, EventQueue):
            out[attr] = sorted(float(ts) for ts, _ in val)
        else:
            out[attr] = norm(val)
    return out


def clsname(obj):
    return "%s.%s" % (type(obj).__module__, type(obj).__name__)


def paths(root, limit=12):
    """access path (tuple of labels) -> object."""
    out = {}

    def go(o, p):
        if len(p) > limit:
            raise RecursionError("reference cycle in the object graph")
        out[p] = o
        for lab, c in children(o):
            go(c, p + (lab,))
    go(root, ())
    return out


def pstr(p):
    return "/".join("%s[%s]" % (f, i) if i != 0 else f for f, i in p) or "<root>"


def compare_graphs(a_root, b_root):
    """The graph below b_root (loaded) against the graph below a_root (original): first mismatch or None."""
    A, B = paths(a_root), paths(b_root)
    if set(A) != set(B):
        miss = sorted(set(A) - set(B))
        extra = sorted(set(B) - set(A))
        return {"key": "structure", "field": "references", "missing_after_load": [pstr(p) for p in miss[:4]],
                "only_after_load": [pstr(p) for p in extra[:4]]}
    for p in sorted(A, key=lambda q: (len(q), str(q))):
        if clsname(A[p]) != clsname(B[p]):
            return {"key": "class", "field": pstr(p), "spec": clsname(A[p]), "impl": clsname(B[p])}
    seen = set()
    for p in sorted(A, key=lambda q: (len(q), str(q))):
        if id(A[p]) in seen:
            continue
        seen.add(id(A[p]))
        sa, sb = scalars(A[p]), scalars(B[p])
        if set(sa) != set(sb):
            return {"key": "scalar", "field": "%s: attributes" % pstr(p), "class": clsname(A[p]),
                    "missing_after_load": sorted(set(sa) - set(sb)), "only_after_load": sorted(set(sb) - set(sa))}
        for attr in sa:
            if not same(sa[attr], sb[attr]):
                return {"key": "scalar", "field": "%s.%s" % (pstr(p), attr), "class": clsname(A[p]), "attr": attr,
                        "spec": repr(sa[attr])[:300], "impl": repr(sb[attr])[:300]}
    ps = sorted(A, key=lambda q: (len(q), str(q)))
    ida = {p: id(A[p]) for p in ps}
    idb = {p: id(B[p]) for p in ps}
    orig_ids = set(ida.values())
    for p in ps:
        if idb[p] in orig_ids:
            return {"key": "aliasing", "field": pstr(p), "spec": "a new object", "impl": "an object of the original graph"}
    first_a, first_b = {}, {}
    for p in ps:        # two paths to one object before <=> after
        qa = first_a.setdefault(ida[p], p)
        qb = first_b.setdefault(idb[p], p)
        if qa != qb:
            if qa != p and idb[qa] != idb[p]:
                return {"key": "sharing-lost", "field": "%s and %s" % (pstr(qa), pstr(p)), "class": clsname(A[p]),
                        "spec": "one object", "impl": "two objects"}
            return {"key": "sharing-invented", "field": "%s and %s" % (pstr(qb), pstr(p)), "class": clsname(A[p]),
                    "spec": "two objects", "impl": "one object"}
    return None


def fingerprint(root):
    """Structure, scalars and identities of a graph (for 'the dump changes nothing')."""
    P = paths(root)
    ps = sorted(P, key=lambda q: (len(q), str(q)))
    return [(p, id(P[p]), clsname(P[p]), scalars(P[p]),
             [(k, id(v)) for k, v in P[p].__dict__.items()]) for p in ps]


def fp_diff(f1, f2):
    if len(f1) != len(f2) or [x[0] for x in f1] != [x[0] for x in f2]:
        return {"field": "references", "spec": len(f1), "impl": len(f2)}
    for a, b in zip(f1, f2):
        if a[1] != b[1] or a[2] != b[2]:
            return {"field": pstr(a[0]), "spec": "the same object", "impl": "another object"}
        if set(a[3]) != set(b[3]):
            return {"field": pstr(a[0]) + ": attributes", "spec": sorted(a[3]), "impl": sorted(b[3])}
        for attr in a[3]:
            if not same(a[3][attr], b[3][attr]):
                return {"field": "%s.%s" % (pstr(a[0]), attr), "spec": repr(a[3][attr])[:200], "impl": repr(b[3][attr])[:200]}
        if a[4] != b[4]:
            return {"field": pstr(a[0]) + ": attribute objects replaced", "spec": "identical objects", "impl": "new objects"}
    return None


# ---------------------------------------------------------------------------------------------------------------------
# to_json / from_json with the three kinds of target

_SERIAL_WARN = ("not handled by object's _to_dict", "could not be serialized", "not handled by object's _from_dict",
                "Loader for attribute", "not recorded in serialization", "Deserializing as type", "is protected for object",
                "Not serializing signals", "requires constructor inputs", "Missing a recorded version",
                "Missing recorded", "does not match")


def _msgs(rec):
    return [str(w.message) for w in rec if any(s in str(w.message) for s in _SERIAL_WARN)]


def dump(obj, how, tmp):
    """(json text, serialisation warnings)."""
    with warnings.catch_warnings(record=True) as rec:
        warnings.simplefilter("always")
        if how == "str":
            s = obj.to_json()
        elif how == "buf":
            buf = io.StringIO()
            r = obj.to_json(buf)
            assert r is None
            s = buf.getvalue()
        else:
            path = os.path.join(tmp, "o-%d.json" % dump.n)
            dump.n += 1
            obj.to_json(path)
            with open(path) as fh:
                s = fh.read()
    return s, _msgs(rec)


dump.n = 0


def load(cls, s, how, tmp):
    with warnings.catch_warnings(record=True) as rec:
        warnings.simplefilter("always")
        if how == "str":
            o = cls.from_json(s)
        elif how == "buf":
            o = cls.from_json(io.StringIO(s))
        else:
            path = os.path.join(tmp, "i-%d.json" % dump.n)
            dump.n += 1
            with open(path, "w") as fh:
                fh.write(s)
            o = cls.from_json(path)
    return o, _msgs(rec)


# ---------------------------------------------------------------------------------------------------------------------

def _registry_check(case, objs, root, text):
    """The registry written against the registry Serial.tla computes."""
    d = json.loads(text)
    ctx = d["context_dict"]
    rid = {str(id(o)): k for k, o in objs.items()}
    if d["id"] != str(id(root)):
        return {"key": "registry", "field": "id", "spec": "the id of the dumped object", "impl": d["id"]}
    want = {str(id(objs[e["id"]])) for e in case["reg"]}
    if set(ctx) != want:
        return {"key": "registry-keys", "field": "context_dict keys",
                "not_dumped": sorted(rid.get(k, k) for k in want - set(ctx)),
                "dumped_but_unreachable_or_duplicate": sorted(str(rid.get(k, "unknown object " + k)) for k in set(ctx) - want),
                "spec": len(want), "impl": len(ctx)}
    for e in case["reg"]:
        o = objs[e["id"]]
        ent = ctx[str(id(o))]
        if ent["class"] != clsname(o):
            return {"key": "registry", "field": "class of %s" % e["id"], "spec": clsname(o), "impl": ent["class"]}
        at = ent["attributes"]
        for r in e["e"]["refs"]:
            f, i, to = r["f"], r["i"], str(id(objs[r["to"]]))
            try:
                if f == "ev_history":
                    got = at[f][sid(i)]
                elif f == "_EVSEs":
                    got = at[f][stn(i)]
                elif f == "event_history":
                    got = at[f][i - 1]
                elif f == "_queue":     # the ids in the array, as a multiset (checked at the first entry)
                    if i != 1:
                        continue
                    got = sorted(x[1] for x in at[f])
                    to = sorted(str(id(objs[q["to"]])) for q in e["e"]["refs"])
                else:
                    got = at[f]
            except (KeyError, IndexError, TypeError):
                got = "<absent>"
            if got != to:
                return {"key": "registry", "field": "%s.%s[%s] of object %s" % (ent["class"], f, i, e["id"]),
                        "spec": "the id of object %s" % r["to"], "impl": "id of %s" % (rid.get(got, got) if isinstance(got, str) else [rid.get(g, g) for g in got],)}
        for s in e["e"]["sc"]:
            if s["k"] == "flag":
                got = at.get(s["n"])
                if not (isinstance(got, list) and len(got) == 2 and got[0] == "__NOT_SERIALIZED__" and got[1] == repr(getattr(o, s["n"]))):
                    return {"key": "ext-flag", "field": "%s.%s" % (ent["class"], s["n"]),
                            "spec": "[__NOT_SERIALIZED__, repr]", "impl": repr(got)[:200]}
    order_ok = [rid.get(k) for k in ctx] == [e["id"] for e in case["reg"]]
    array_ok = all([x[1] for x in ctx[str(id(objs[e["id"]]))]["attributes"]["_queue"]] == [str(id(objs[q["to"]])) for q in e["e"]["refs"]]
                   for e in case["reg"] if e["e"]["cls"] == "queue")
    return {"ok": True, "order_ok": order_ok and array_ok}


def _rename(v, m):
    if isinstance(v, str):
        return m.get(v, v)
    if isinstance(v, list):
        if len(v) == 2 and v[0] == "__NOT_SERIALIZED__":
            return ["__NOT_SERIALIZED__", "<repr>"]
        return [_rename(x, m) for x in v]
    if isinstance(v, dict):
        return {k: _rename(x, m) for k, x in v.items()}
    return v


def _redump_check(a_root, b_root, text1, text2):
    """dump o load o dump: the same registry up to the renaming of ids (by the isomorphism already established)."""
    A, B = paths(a_root), paths(b_root)
    m = {str(id(A[p])): str(id(B[p])) for p in A}
    d1, d2 = json.loads(text1), json.loads(text2)
    c1 = {m.get(k, k): _rename(v, m) for k, v in d1["context_dict"].items()}
    c2 = {k: _rename(v, {}) for k, v in d2["context_dict"].items()}
    for c in (c1, c2):      # the arrangement of the queue array is private to the queue
        for ent in c.values():
            if isinstance(ent.get("attributes", {}).get("_queue"), list):
                ent["attributes"]["_queue"] = sorted(ent["attributes"]["_queue"], key=repr)
    if m.get(d1["id"]) != d2["id"]:
        return {"key": "redump", "field": "id"}
    if set(c1) != set(c2):
        return {"key": "redump", "field": "context_dict keys", "spec": len(c1), "impl": len(c2)}
    for k in c1:
        if c1[k] != c2[k]:
            for a in set(c1[k]["attributes"]) | set(c2[k]["attributes"]):
                if c1[k]["attributes"].get(a, "<absent>") != c2[k]["attributes"].get(a, "<absent>"):
                    return {"key": "redump", "field": "%s.%s" % (c1[k]["class"], a),
                            "spec": repr(c1[k]["attributes"].get(a, "<absent>"))[:200],
                            "impl": repr(c2[k]["attributes"].get(a, "<absent>"))[:200]}
            return {"key": "redump", "field": "class", "spec": c1[k]["class"], "impl": c2[k]["class"]}
    for f in ("version", "dependency_versions"):
        if d1.get(f) != d2.get(f):
            return {"key": "redump", "field": f, "spec": d1.get(f), "impl": d2.get(f)}
    return None


def _ekey(e):
    return (float(e.timestamp), float(e.precedence))


def _esid(e):
    ev = getattr(e, "ev", None)
    return (e.event_type, ev.session_id if ev is not None else None)


def _drain(q, plan):
    """Execute the drain plan; per call a list of (key, identity) of the events returned + the queries in between."""
    out = []
    for op in plan:
        if op[0] == "cur":
            evs = q.get_current_events(op[1])
        elif op[0] == "get":
            evs = [q.get_event()] if not q.empty() else []
        out.append({"keys": [_ekey(e) for e in evs], "who": sorted(map(repr, [(_ekey(e), _esid(e)) for e in evs])),
                    "len": len(q), "empty": q.empty(), "last": q.get_last_timestamp(), "timestep": q._timestep})
    return out


def _queue_check(case, objs, q_orig, q_new, rng):
    """A restored queue behaves like the original (C11) - and like the heap of the specification."""
    n = len(q_orig)
    forms = [[("get",)] * (n + 1),
             [("cur", t) for t in (0, 1, 2, 3)],
             [("cur", 0), ("get",), ("cur", 1), ("get",), ("cur", 5)],
             [("get",), ("cur", 1), ("cur", 0), ("cur", 2), ("get",)]]
    k = rng.randrange(len(forms))
    plan = forms[k]
    a = _drain(copy.deepcopy(q_orig), plan)
    b = _drain(q_new, plan)
    for n_, (x, y) in enumerate(zip(a, b)):     # per call: the keys returned, in order, and what the queries say
        for f in ("keys", "len", "empty", "last", "timestep"):
            if x[f] != y[f]:
                return {"key": "queue-order", "field": "call %d %r: %s" % (n_, plan[n_], f), "plan": plan,
                        "spec": repr(x[f])[:200], "impl": repr(y[f])[:200]}
    if a and a[-1]["empty"]:    # which event came with which key: as a multiset (the order among equal keys is free)
        wa = sorted(w for x in a for w in x["who"])
        wb = sorted(w for x in b for w in x["who"])
        if wa != wb:
            return {"key": "queue-order", "field": "events returned", "plan": plan, "spec": wa[:6], "impl": wb[:6]}
    if k == 0:      # get_event until empty: the order heapq produces on the specified array
        heap = {o["id"]: o for o in case["heap"]}
        want = [(float(_sc(heap[i], "timestamp")), float(_sc(heap[i], "precedence")) if heap[i]["cls"] != "event" else float("inf"))
                for i in case["drain"]]
        got = [x["keys"][0] for x in b if x["keys"]]
        if got != want:
            return {"key": "queue-order", "field": "get_event until empty", "spec": want, "impl": got}
    return None


def _outcome(sim):
    """Run to completion; the observable result."""
    try:
        with warnings.catch_warnings():
            warnings.simplefilter("ignore")
            sim.run()
    except Exception as e:  # noqa
        return {"outcome": type(e).__name__, "_detail": "%s: %s" % (type(e).__name__, str(e)[:160])}
    net = sim.network
    return {"outcome": "ok", "iteration": sim._iteration,
            "pilots": _trim(sim.pilot_signals), "rates": _trim(sim.charging_rates),
            "energy": [[k, float(ev.energy_delivered), float(ev._battery._current_charge)] for k, ev in sim.ev_history.items()],
            "events": [[float(e.timestamp), e.event_type, getattr(getattr(e, "ev", None), "session_id", None)] for e in sim.event_history],
            "occupants": [[s, None if net.get_ev(s) is None else net.get_ev(s).session_id] for s in net.station_ids],
            "peak": float(sim.peak)}


def _trim(a):
    """Matrix contents without trailing all-zero columns (widths are not compared)."""
    a = np.asarray(a, dtype=float)
    if a.size == 0:
        return []
    if a.ndim != 2:
        return ("shape", list(a.shape))
    w = a.shape[1]
    while w > 0 and not a[:, w - 1].any():
        w -= 1
    return [list(map(float, row[:w])) for row in a]


def _resume_check(sim_orig, text, opaque_at):
    """The loaded simulator, given its scheduler again, runs like (a copy of) the original.  An attribute that could not
    be serialised is documented to come back as a stub that refuses every use (also being deep-copied with its holder,
    which the simulator does with the active EVs); the user has to set it again, so this does."""
    a = copy.deepcopy(sim_orig)
    a.update_scheduler(SerialAlg())
    with warnings.catch_warnings():
        warnings.simplefilter("ignore")
        b = Simulator.from_json(text)
    if opaque_at is not None:
        pa, pb = paths(sim_orig), paths(b)
        pb[opaque_at].x_opaque = copy.deepcopy(pa[opaque_at].x_opaque)
    b.update_scheduler(SerialAlg())
    ra, rb = _outcome(a), _outcome(b)
    for f in ra:
        if f.startswith("_"):
            continue
        if f not in rb or not same(norm(ra[f]), norm(rb[f])):
            return {"key": "resume", "field": "run() after load: %s" % f, "spec": repr(ra[f])[:300], "impl": repr(rb.get(f))[:300],
                    "original": ra.get("_detail", "runs to completion"), "loaded": rb.get("_detail", "runs to completion"),
                    "stations": len(sim_orig.network.station_ids)}
    return None


def _expected_warnings(case, ids):
    """(dump, load) expected numbers of (unhandled, opaque) warnings among the objects `ids`."""
    unh = {w["o"] for w in case["warns"] if w["ph"] == "dump" and w["w"] == "unhandled"} & ids
    opq = {w["o"] for w in case["warns"] if w["ph"] == "dump" and w["w"] == "not-serialized"} & ids
    return len(unh), len(opq)


def _warn_check(case, ids, dmsgs, lmsgs, what):
    n_unh, n_opq = _expected_warnings(case, ids)
    got = {"dump-unhandled": sum("not handled by object's _to_dict" in m for m in dmsgs),
           "dump-opaque": sum("could not be serialized" in m for m in dmsgs),
           "load-unhandled": sum("not handled by object's _from_dict" in m for m in lmsgs),
           "load-opaque": sum("Loader for attribute" in m for m in lmsgs)}
    want = {"dump-unhandled": n_unh, "dump-opaque": n_opq, "load-unhandled": n_unh, "load-opaque": n_opq}
    other = [m for m in dmsgs + lmsgs if not any(s in m for s in _SERIAL_WARN[:4])]
    if got != want or other:
        native = n_unh == 0
        return {"key": "native-warning" if native else "ext-warning", "field": "warnings (%s)" % what,
                "spec": want, "impl": got, "other": [m[:160] for m in other[:3]],
                "first": [m[:200] for m in (dmsgs + lmsgs)[:2]]}
    return None


def replay_case(case):
    """Execute one emitted heap through the real serialisation.  None, or the first mismatch."""
    return _work(case)[0]


def _work(case):
    """(mismatch or None, info)."""
    tmp = tempfile.mkdtemp(prefix="verif-serial-", dir=os.environ.get("VERIF_SCRATCH") or "/var/tmp")
    info = {}
    try:
        return _replay(case, tmp, info), info
    except Exception as e:  # noqa
        if through_impl(e):
            import traceback
            tb = traceback.extract_tb(e.__traceback__)
            where = [("%s:%d %s" % (os.path.basename(f.filename), f.lineno, f.name)) for f in tb if "/acnportal/" in f.filename][-2:]
            return {"key": "exception.%s" % type(e).__name__, "field": "exception", "spec": "no exception",
                    "impl": "%s: %s" % (type(e).__name__, str(e)[:200]), "where": where}, info
        raise
    finally:
        shutil.rmtree(tmp, ignore_errors=True)


def _replay(case, tmp, info):
    rng = random.Random(int(jhash(case)[:8], 16))
    with warnings.catch_warnings():
        warnings.simplefilter("ignore")
        objs = build(case, rng)
    root = objs[case["root"]]
    heap = {o["id"]: o for o in case["heap"]}
    reach = {r["o"]: set(r["r"]) for r in case["reach"]}

    # 0. what was built is the heap described: the same access paths, leading to the same objects
    P = paths(root)
    qlab = {}
    if 3 in heap:
        tname = {"plugin": "PluginEvent", "unplug": "UnplugEvent", "recompute": "RecomputeEvent", "event": "Event"}
        ent = []
        for r in heap[3]["refs"]:
            e = heap[r["to"]]
            who = sid(_sc(heap[e["refs"][0]["to"]], "_session_id")) if e["refs"] else None
            ent.append((_sc(e, "timestamp"), tname[e["cls"]], who))
        qlab = {i + 1: lab for i, lab in enumerate(qlabels(ent))}
    spec_paths = {tuple((k["f"], qlab[k["i"]] if k["f"] == "_queue" else k["i"]) for k in e["p"]): e["o"] for e in case["paths"]}
    if set(P) != set(spec_paths) or any(P[p] is not objs[o] for p, o in spec_paths.items()):
        raise AssertionError("harness built another heap than the one described: %s vs %s" % (
            sorted(map(pstr, P)), sorted(map(pstr, spec_paths))))
    if 3 in objs and [id(e) for _, e in objs[3]._queue] != [id(objs[r["to"]]) for r in heap[3]["refs"]]:
        raise AssertionError("queue array differs from the specified heap array")
    for o in case["heap"]:
        want = {"sim": Simulator, "net": ChargingNetwork, "xnet": XNet, "queue": EventQueue, "evse": (EVSE, DeadbandEVSE, FiniteRatesEVSE),
                "xevse": (XEVSE, XFiniteEVSE), "ev": EV, "xev": XEV, "batt": Battery, "plugin": PluginEvent, "unplug": UnplugEvent,
                "recompute": RecomputeEvent, "event": Event}[o["cls"]]
        assert isinstance(objs[o["id"]], want), (o, objs[o["id"]])

    how = rng.choice(["str", "buf", "path"])
    how2 = rng.choice(["str", "buf", "path"])

    # 1. dump; (c) the original is untouched
    fp1 = fingerprint(root)
    text, dmsgs = dump(root, how, tmp)
    d = fp_diff(fp1, fingerprint(root))
    if d is not None:
        return dict(d, key="dump-mutates")
    # (b) the registry: exactly the reachable objects, ids in place of references
    r = _registry_check(case, objs, root, text)
    if "ok" not in r:
        return r
    info["order_ok"] = r["order_ok"]

    # 2. load; (a) isomorphic: structure, classes, every scalar, sharing
    loaded, lmsgs = load(type(root), text, how2, tmp)
    d = compare_graphs(root, loaded)
    if d is not None:
        return d
    # ... and against the relation the specification emits (path -> object)
    L = paths(loaded)
    first = {}
    for p in sorted(spec_paths, key=lambda q: (len(q), str(q))):
        o = spec_paths[p]
        if o in first and L[first[o]] is not L[p]:
            return {"key": "sharing-lost", "field": "%s and %s" % (pstr(first[o]), pstr(p)), "spec": "one object (%d)" % o,
                    "impl": "two objects"}
        first.setdefault(o, p)
    byid = {}
    for p in sorted(spec_paths, key=lambda q: (len(q), str(q))):
        q = byid.setdefault(id(L[p]), p)
        if spec_paths[q] != spec_paths[p]:
            return {"key": "sharing-invented", "field": "%s and %s" % (pstr(q), pstr(p)),
                    "spec": "two objects (%d, %d)" % (spec_paths[q], spec_paths[p]), "impl": "one object"}
    if len(byid) != len(reach[case["root"]]):
        return {"key": "structure", "field": "number of objects", "spec": len(reach[case["root"]]), "impl": len(byid)}
    d = _warn_check(case, reach[case["root"]], dmsgs, lmsgs, "root")
    if d is not None:
        return d

    # 3. (d) dump o load o dump
    text2, _ = dump(loaded, rng.choice(["str", "buf"]), tmp)
    d = _redump_check(root, loaded, text, text2)
    if d is not None:
        return d

    # 4. (e) every sub-object on its own
    rid = {id(o): k for k, o in objs.items()}
    subs = sorted(reach[case["root"]] - {case["root"]})
    if case.get("sub_limit") is not None and len(subs) > case["sub_limit"]:
        subs = sorted(rng.sample(subs, case["sub_limit"]))
    info["subs"] = len(subs)
    for oid in subs:
        sub = objs[oid]
        fps = fingerprint(sub)
        t, dm = dump(sub, "str", tmp)
        d = fp_diff(fps, fingerprint(sub))
        if d is not None:
            return dict(d, key="dump-mutates", sub=heap[oid]["cls"])
        keys = set(json.loads(t)["context_dict"])
        want = {str(id(objs[k])) for k in reach[oid]}
        if keys != want:
            return {"key": "registry-keys", "field": "context_dict keys of sub-object %s" % heap[oid]["cls"], "spec": len(want),
                    "impl": len(keys), "dumped_but_unreachable_or_duplicate": sorted(str(rid.get(int(k), k)) for k in keys - want if k.isdigit())}
        sl, lm = load(type(sub), t, "str", tmp)
        d = compare_graphs(sub, sl)
        if d is not None:
            return dict(d, sub=heap[oid]["cls"], field="(sub-object %s alone) %s" % (heap[oid]["cls"], d["field"]))
        if len({id(x) for x in paths(sl).values()}) != len(reach[oid]):
            return {"key": "structure", "field": "number of objects below sub-object %s" % heap[oid]["cls"],
                    "spec": len(reach[oid]), "impl": len({id(x) for x in paths(sl).values()})}
        d = _warn_check(case, reach[oid], dm, lm, "sub-object %s" % heap[oid]["cls"])
        if d is not None:
            return d

    # 5. the restored queue behaves like the original (C11)
    if 3 in reach[case["root"]]:
        q_new = L[[p for p, o in spec_paths.items() if o == 3][0]]
        d = _queue_check(case, objs, objs[3], q_new, rng)
        if d is not None:
            return d

    # 6. the restored simulator runs like the original
    if case["root"] == 1:
        x = case["params"]["ext"]
        at = sorted((p for p, o in spec_paths.items() if x["on"] and o == x["holder"]), key=lambda q: (len(q), str(q)))
        d = _resume_check(root, text, at[0] if at else None)
        if d is not None:
            return d
    return None


# ---------------------------------------------------------------------------------------------------------------------

def nontrivial(case):
    """At least one object of the dumped graph is reached by two different access paths that do not pass through one
    another's end (real sharing), or the graph holds an extension object."""
    cnt = {}
    for e in case["paths"]:
        cnt.setdefault(e["o"], []).append(e["p"])
    shared = any(len(ps) >= 2 for ps in cnt.values())
    return shared or case["params"]["ext"]["on"]


def pattern(case):
    """The sharing pattern of a case (for the evidence: how many different ones were exercised)."""
    heap = {o["id"]: o["cls"] for o in case["heap"]}
    cnt = {}
    for e in case["paths"]:
        if e["p"]:
            cnt.setdefault(e["o"], set()).add((e["p"][-1]["f"],) + tuple(k["f"] for k in e["p"][:-1]))
    return jhash(sorted((heap[o], sorted(map(list, v))) for o, v in cnt.items()))


MC_ACTIONS = ["AddEvent", "StartDump", "DumpDescend", "DumpMemoHit", "DumpRegister", "DumpDone", "LoadDescend", "LoadMemoHit",
              "LoadBuild", "LoadDone", "Finish"]
INVS = ("InitWellFormed, StackIsPath, Isomorphic (paths: no lost / no invented sharing), IsoByMemo, ReachAgree, LoadedExact, "
        "DumpExact, RegisterOnce, RegistryClosed, DumpPure, RedumpEqual, QueueSame, WarnExact")


def check_serial(rep, tier, seed):
    """Adds the Serial.tla runs (model checking + replay of every emitted heap through the real code) to `rep`."""
    quick = tier == "quick"
    rep.assumptions += [
        "serialisation: object graphs are acyclic (the registry is filled children-first; the native classes never form a "
        "cycle, an extension attribute closing one would recurse forever)",
        "serialisation: naive start datetime; JSON keeps values, not container types (tuple/list, numpy scalar types, "
        "OrderedDict/dict), nor the width of a matrix without rows; the order of events with equal (timestamp, "
        "precedence) is free",
        "serialisation: extension classes take the constructor arguments of their base class and are importable by name"]
    W = 4
    ALL = {"MaxV": "= 3", "Places": "<- PlacesAll", "Kinds": "<- KindsAll", "ExtModes": "<- ExtBoth", "Ts": "<- Ts012"}
    NOADD = [a for a in MC_ACTIONS if a != "AddEvent"]
    # every run checks all invariants of Serial_mc.cfg; runs with Rec = TRUE also emit their heaps (there is no history
    # variable: emitting changes nothing in the state space)
    runs = [({"Rec": "= TRUE"}, MC_ACTIONS, None,
             "every heap with <=2 stations, <=2 EVs, <=1 event object, dumped from the simulator"),
            ({"RootKinds": "<- RootsNetQueue", "Kinds": "<- KindsAll", "Places": "<- PlacesQueue"}, MC_ACTIONS, None,
             "every heap with <=2 stations, <=2 EVs, <=1 event object (also a base-class Event, also pending twice), dumped "
             "from the network and from the queue"),
            ({"MaxS": "= 1", "MaxV": "= 0", "ExtModes": "<- ExtOnly", "RootKinds": "<- RootsAll"}, NOADD, None,
             "every heap with <=1 station, <=2 EVs, no events and one extension object, dumped from every object")]
    if not quick:
        runs += [({"MaxS": "= 1", "MaxV": "= 2", "Places": "<- PlacesApart", "Rec": "= TRUE"}, MC_ACTIONS, None,
                  "every heap with <=1 station, <=2 EVs, <=2 event objects (each pending or processed), dumped from the simulator"),
                 ({"RootKinds": "<- RootsSub", "Places": "<- PlacesAll"}, MC_ACTIONS, None,
                  "every heap with <=2 stations, <=2 EVs, <=1 event object (also pending twice), dumped from every sub-object"),
                 ({"MaxV": "= 0", "ExtModes": "<- ExtOnly", "RootKinds": "<- RootsAll"}, NOADD, None,
                  "every heap with <=2 stations, <=2 EVs, no events and one extension object, dumped from every object"),
                 ({"MaxS": "= 1", "MaxV": "= 1", "ExtModes": "<- ExtOnly", "Places": "<- PlacesApart", "Rec": "= TRUE"}, MC_ACTIONS, None,
                  "every heap with <=1 station, one extension object and <=1 event object, dumped from the simulator")]
    runs += [(dict(ALL, RootKinds="<- RootsAll"), None, 300 if quick else 4000,
              "sampled large heaps: <=3 event objects of all classes, pending twice, extension on/off, dumped from any object")]
    runs = [("Serial_mc",) + r for r in runs]
    runs += [("Serial_gen", ALL, None, 400 if quick else 5000, "generation of sampled large heaps, dumped from the simulator"),
             ("Serial_neg", {}, None, None, "NEGATIVE CONTROL (expected to fail): an EV loader that builds the battery without "
                                            "consulting loaded_dict")]

    def one(job):
        cfg, ov, acts, nsim, what = job
        # two TLC processes at a time with two workers each: four cores in all (-simulate: num is per worker)
        return run_tlc("MC_Serial", cfg, workers=2, coverage=nsim is None, overrides=ov, simulate=nsim * 2 if nsim else None,
                       depth=170 if nsim else None, seed=seed if nsim else None, timeout=3000)

    from concurrent.futures import ThreadPoolExecutor
    with ThreadPoolExecutor(max_workers=2) as ex:
        results = list(ex.map(one, runs))
    cases = []
    n_ex = 0
    for (cfg, ov, acts, nsim, what), r in zip(runs, results):
        if cfg == "Serial_neg":
            if r.ok or r.violated != "Isomorphic":
                raise TlcFailure("negative control: TLC did not refute Isomorphic for a loader that ignores loaded_dict "
                                 "(got %r) - the sharing invariant would be vacuous" % (r.violated,))
            rep.tlc_runs.append({"what": what, "cfg": cfg, "cmd": r.cmd, "generated": r.generated, "distinct": r.distinct,
                                 "depth": r.depth, "wall_s": round(r.wall_s, 1), "ok": r.ok, "violated": r.violated})
            rep.notes.append("negative control of the sharing invariant: with an EV loader that ignores loaded_dict TLC refutes "
                             "Isomorphic after %d states (two EVs on one Battery come back with a battery each)" % r.distinct)
            continue
        if cfg == "Serial_gen":
            rep.add_tlc(r, "%s (-simulate)" % what, "Serial_gen %s" % ov)
        else:
            rep.add_tlc(r, "%s (%s): %s" % ("invariants on -simulate behaviours" if nsim else "exhaustive model checking", what, INVS),
                        "Serial_mc %s" % ov, require_actions=acts)
        require_ok(r, "Serial.tla (%s)" % what)
        got = [c for c in r.emitted.get("BHV", []) if c["root"] == 1]
        if nsim is None:
            n_ex += len(got)
        cases += got
    # (B) every emitted heap through the real code
    for c in cases:
        c["sub_limit"] = 4 if quick else 8      # sub-objects dumped and loaded on their own, per heap
    seen = set()
    pats = set()
    order_ok = 0
    n_sub = 0
    todo = []
    for c in cases:
        k = jhash(c)
        if k not in seen:
            seen.add(k)
            todo.append((k, c))
    if len(todo) >= 64:
        from concurrent.futures import ProcessPoolExecutor
        with ProcessPoolExecutor(max_workers=W) as ex:
            results = list(ex.map(_work, [c for _, c in todo], chunksize=max(1, len(todo) // (W * 8))))
    else:
        results = [_work(c) for _, c in todo]
    for (k, c), (d, info) in zip(todo, results):
        rep.replayed += 1
        n_sub += info.get("subs", 0)
        pats.add(pattern(c))
        rep.count(k, nontrivial(c))
        if d is None:
            order_ok += bool(info.get("order_ok"))
            continue
        rep.violation(PFX + d["key"], json.dumps(d, default=repr)[:500],
                      {"kind": "case", "module": "props_serial", "case": c, "mismatch": d})
    rep.bounds["serial"] = {"stations": 2, "evs": 2, "event_objects": 3, "extension_objects": 1}
    rep.notes.append("serialisation mechanism (Serial.tla): %d heaps replayed through to_json/from_json (%d of the exhaustive "
                     "configurations, all of them), %d distinct sharing patterns, %d sub-objects dumped and loaded on their own; "
                     "the registry was filled in the order of the specification's traversal in %d of them"
                     % (len(seen), n_ex, len(pats), n_sub, order_ok))
    if cases:
        rep.sample({"serial_case": {k: cases[len(cases) // 2][k] for k in ("params", "root", "paths")}})
    return rep


def check_C09S(tier, seed):
    """Standalone wrapper for the serialisation part of C09 (the registered C09 check calls check_serial)."""
    rep = Report("C09", tier, seed)
    rep.rule = ("object graphs chosen by TLC (Serial.tla) with free sharing patterns; distinct by content; non-trivial = an "
                "object reached by two access paths, or an extension object")
    check_serial(rep, tier, seed)
    rep.exhaustive = True
    return rep.finish()
