"""C07 (estimator clause): the stateful upper-bound estimator SimpleRampdown against Rampdown.tla.

Property C07: the sorting-based algorithms never grant a session more than, "when an estimator is used, the
estimator's bound for that session (or the uninterrupted-charging minimum pilot, if that is larger)".
SortedAlgo.tla / props_sortedalgo.py take that bound as an input; this module adds where it comes from:
the table SimpleRampdown keeps across scheduler invocations and how preprocessing.apply_upper_bound_estimate
(with enforce_pilot_limit, reconcile_max_and_min, apply_minimum_charging_rate) turns it into rate bounds.

(A) model checking   MC_Rampdown / Rampdown_mc.cfg: every history of arrivals, departures, listed sets,
                     grants and actual rates within small bounds; invariants BoundsInRange, KeyedBySession,
                     NeverStarved, C07Clause, ... and the action properties of the rule (Rampdown.tla).
(B) spec -> code     behaviours emitted by TLC (Rampdown_gen.cfg, exhaustive + -simulate) are replayed:
                     a REAL SimpleRampdown inside a REAL SortedSchedulingAlgo / RoundRobin, registered with a
                     stub interface that serves the specification's observations; after every call the
                     returned table (keys and values), the rate bounds run_preprocessing produced and the
                     C07 clause on the schedule the real algorithm returned are compared.
(C) code -> spec     real closed-loop simulations (Simulator.run(), real batteries with a tail, finite-rate
                     and continuous EVSEs, session ids != station ids) are recorded at every scheduler
                     invocation (what the estimator was handed, what it read from the Interface, what it
                     returned, the schedule) and validated in batches by TLC with RampdownTrace.tla.

check_rampdown(rep, tier, seed) ADDS all of this to a given Report (it is meant to be called from check_C07);
check_C07R is a standalone wrapper for development only.

Units: specification 1e-2 A (model checking / generation), 1e-6 A (traces).
"""
import json
import os
import random
import time
import warnings
from concurrent.futures import ProcessPoolExecutor, ThreadPoolExecutor
from datetime import datetime

from .common import Report, jhash, through_impl
from .tlc import run_tlc, require_ok

MOD = "props_rampdown"
U = 100.0          # generation unit: 1e-2 A
UT = 1000000.0     # trace unit: 1e-6 A
WORKERS = int(os.environ.get("VERIF_WORKERS", "4"))
JVM_SMALL = {"JAVA_TOOL_OPTIONS": "-Xmx2g"}
JVM_MC = {"JAVA_TOOL_OPTIONS": "-Xmx6g"}
SORTS = ("first_come_first_served", "last_come_first_served", "earliest_deadline_first", "least_laxity_first",
         "largest_remaining_processing_time")
MC_ACTIONS = ["Arrive", "Depart", "Invoke", "DoEstimate", "Schedule", "Apply", "Finish"]
MC_WHAT = ("exhaustive model checking of Rampdown.tla: BoundsInRange, KeyedBySession, NeverStarved, C07Clause, CandsExact, "
           "ObsShape; EntriesStay, ChangeOnlyListedObserved, CreatedWhenListed, DownRule, UpRule, HoldRule, "
           "RisesByIncrement, RampDownLowers, OnlyCallWrites")


def close(x, y, tol=1e-9):
    return abs(float(x) - float(y)) <= tol * max(1.0, abs(float(y)))


def _fn(seq):
    """[{s, v}, ...] (AsSeq of a TLA+ function) -> dict."""
    return {e["s"]: e["v"] for e in (seq or [])}


# ------------------------------------------------------------------------------ spec -> code replay
def _levels(mx, mn):
    """Allowable pilots of the finite-rate EVSE the harness builds for a station with minimum pilot mn > 0 (A)."""
    out, x = [0.0], mn
    while x < mx:
        out.append(x)
        x += 2.0
    out.append(mx)
    return out


class StubInterface:
    """What the estimator and the preprocessing chain need from an Interface, served from the specification's
    state: the two observation dictionaries, max/min pilot of a station, the period, the infrastructure."""

    def __init__(self, stations, form=0, period=5.0):
        self.st = stations                     # {station id: (max pilot, min pilot)} in A
        self.ids = sorted(stations)
        self.form = form
        self._period = period
        self.pilots, self.rates, self.refused = {}, {}, set()
        self.t = 0
        self.reads = 0

    @property
    def last_applied_pilot_signals(self):
        self.reads += 1
        return dict(self.pilots)

    @property
    def last_actual_charging_rate(self):
        return dict(self.rates)

    def _num(self, v):
        import numpy as np
        if self.form % 3 == 0:
            return np.float64(v)               # what the real Interface returns (an element of a numpy array)
        if self.form % 3 == 1 and float(v).is_integer():
            return int(v)
        return float(v)

    def max_pilot_signal(self, station_id):
        return self._num(self.st[station_id][0])

    def min_pilot_signal(self, station_id):
        return self._num(self.st[station_id][1])

    @property
    def period(self):
        return self._period

    @property
    def current_time(self):
        return self.t

    def infrastructure_info(self):
        import numpy as np
        from acnportal.acnsim.interface import InfrastructureInfo
        n = len(self.ids)
        # one constraint per station; a station whose minimum pilot the specification refuses gets a limit
        # below its minimum pilot (apply_minimum_charging_rate then finds the minimum rate infeasible)
        limits = np.array([self.st[x][1] / 2.0 if x in self.refused else 1000.0 for x in self.ids])
        allow = [np.array(_levels(*self.st[x])) if self.st[x][1] > 0 else np.array([0.0, self.st[x][0]]) for x in self.ids]
        return InfrastructureInfo(np.eye(n), limits, np.zeros(n), np.full(n, 208.0), ["c-%s" % x for x in self.ids],
                                  list(self.ids), np.array([float(self.st[x][0]) for x in self.ids]),
                                  np.array([float(self.st[x][1]) for x in self.ids]), allow,
                                  np.array([self.st[x][1] == 0 for x in self.ids]))

    def remaining_amp_periods(self, session):
        from acnportal.algorithms.utils import remaining_amp_periods
        return remaining_amp_periods(session, self.infrastructure_info(), self._period)


def decisive(case):
    """All values of the generation lattices are multiples of 0.25 A, so the float arithmetic of the real estimator
    is exact and even a threshold hit exactly is decided.  Any other case is decisive only if no threshold margin is 0."""
    vals = [case["up"], case["dn"], case["inc"]] + [x for e in case["st"] for x in e["v"]]
    for step in case["steps"]:
        if "t" in step:
            vals += [x for e in step["obs"] for x in e["v"]]
    return all(v % 25 == 0 for v in vals)


def _algorithm(case, est, salt):
    from acnportal import algorithms as alg
    sort_fn = getattr(alg, SORTS[salt % 2])     # orders that do not consult the interface
    kw = dict(estimate_max_rate=True, max_rate_estimator=est, uninterrupted_charging=bool(case["unint"]))
    if salt % 4 < 2:
        return alg.SortedSchedulingAlgo(sort_fn, **kw), "greedy"
    return alg.RoundRobin(sort_fn, continuous_inc=(0.5, 1.0, 0.25)[salt % 3], **kw), "rr"


def replay_case(case):
    """Execute one emitted behaviour: every Estimate/Schedule pair is one call of the real algorithm's schedule()
    (run_preprocessing -> apply_upper_bound_estimate -> SimpleRampdown.get_maximum_rates) against the stub interface.
    Returns None or the first mismatch."""
    try:
        return _replay(case)
    except Exception as e:  # noqa
        if through_impl(e):
            return {"field": "exception", "spec": "no exception", "impl": "%s: %s" % (type(e).__name__, str(e)[:200])}
        raise


def _replay(case):
    from acnportal.acnsim.interface import SessionInfo
    from acnportal.algorithms import SimpleRampdown
    salt = int(jhash(case)[:6], 16)
    stations = {e["s"]: (e["v"][0] / U, e["v"][1] / U) for e in case["st"]}
    station_of = _fn(case["ses"])
    if set(station_of) & set(stations):
        raise RuntimeError("session ids must differ from station ids")
    unint = bool(case["unint"])
    with warnings.catch_warnings():
        warnings.simplefilter("ignore")
        stub = StubInterface(stations, form=salt)
        est = SimpleRampdown(up_threshold=case["up"] / U, down_threshold=case["dn"] / U, up_increment=case["inc"] / U)
        algo, _ = _algorithm(case, est, salt)
        algo.register_interface(stub)          # registers the estimator as well (the real path)
        seen = {}
        orig_est, orig_pre = est.get_maximum_rates, algo.run_preprocessing

        def get_maximum_rates(sessions):
            r = orig_est(sessions)
            seen["tab"] = r
            seen["calls"] = seen.get("calls", 0) + 1
            return r

        def run_preprocessing(sessions, infra):
            out = orig_pre(sessions, infra)
            seen["pre"] = {s.session_id: (float(s.min_rates[0]), float(s.max_rates[0])) for s in out}
            return out

        est.get_maximum_rates, algo.run_preprocessing = get_maximum_rates, run_preprocessing
        steps = case["steps"]
        n = 0
        while n < len(steps):
            call, sched = steps[n], steps[n + 1]
            t = call["t"]
            stub.t = t
            stub.pilots = {e["s"]: e["v"][0] / U for e in call["obs"]}
            stub.rates = {e["s"]: e["v"] / U for e in call["rates"]}
            stub.refused = {station_of[s] for s in sched["refused"]}
            sessions = [SessionInfo(station_of[s], s, 100.0, 0.0, max(0, t - 1 - k), t + 3 + k, current_time=t)
                        for k, s in enumerate(sorted(call["passed"], reverse=bool(salt & 8)))]
            seen.clear()
            out = algo.schedule(sessions)
            where = {"step": n, "t": t, "passed": call["passed"], "obs": call["obs"]}
            if seen.get("calls") != 1:
                return dict(where, field="estimator-calls", spec=1, impl=seen.get("calls", 0))
            tab, spec_tab = seen["tab"], _fn(call["tab"])
            # keyed by session id: every listed session has an entry, and there is no key the specification's table lacks
            # (a station id, an unknown id); entries of sessions that were not listed may be omitted from the RETURNED
            # dictionary - that they are kept is observed when the session is listed again
            if not isinstance(tab, dict) or not (set(call["passed"]) <= set(tab) <= set(spec_tab)):
                return dict(where, field="table:keys", spec=sorted(spec_tab), impl=sorted(map(str, tab)) if isinstance(tab, dict) else repr(tab)[:80])
            for s, v in spec_tab.items():
                if s not in tab:
                    continue
                if not close(tab[s], v / U):
                    return dict(where, field="table:value", session=s, spec=v / U, impl=float(tab[s]))
                if not (-1e-9 <= float(tab[s]) <= stations[station_of[s]][0] + 1e-9):
                    return dict(where, field="table:range", session=s, spec=[0, stations[station_of[s]][0]], impl=float(tab[s]))
            lohi = _fn(sched["lohi"])
            if set(seen["pre"]) != set(lohi):
                return dict(where, field="bounds:sessions", spec=sorted(lohi), impl=sorted(seen["pre"]))
            for s, (lo, hi) in lohi.items():
                if not (close(seen["pre"][s][0], lo / U) and close(seen["pre"][s][1], hi / U)):
                    return dict(where, field="bounds:lohi", session=s, refused=sched["refused"], spec=[lo / U, hi / U], impl=list(seen["pre"][s]))
            listed = {station_of[s]: s for s in call["passed"]}
            for x in stub.ids:
                g = float(out[x][0]) if x in out else 0.0
                if x not in listed:
                    if g != 0.0:
                        return dict(where, field="unlisted-charged", station=x, spec=0, impl=g)
                    continue
                s = listed[x]
                bound = max(spec_tab[s] / U, stations[x][1] if unint else 0.0)
                if g > bound + 1e-9:
                    return dict(where, field="bound-exceeded", session=s, station=x, spec="<= %r" % bound, impl=g)
            n += 3 if n + 2 < len(steps) and "applied" in steps[n + 2] else 2
    return None


def nontrivial(case):
    """A ramp-down fired for some listed session (pilot - rate > down threshold)."""
    for step in case["steps"]:
        if "t" in step:
            for e in step["obs"]:
                if e["s"] in step["passed"] and e["v"][0] - e["v"][1] > case["dn"]:
                    return True
    return False


def classes(case):
    """Which situations a behaviour contains (evidence of coverage; every class must occur)."""
    out = set()
    mx = {e["s"]: e["v"] for e in case["st"]}
    st = _fn(case["ses"])
    prev, now = {}, {}
    for step in case["steps"]:
        if "lohi" in step:
            for e in step["lohi"]:
                if e["v"][1] > now[e["s"]]:
                    out.add("min-pilot-above-bound")
            if step["refused"]:
                out.add("min-rate-refused")
            continue
        if "t" not in step:
            continue
        obs, now = {e["s"]: e["v"] for e in step["obs"]}, _fn(step["tab"])
        for s in step["passed"]:
            u = prev.get(s, mx[st[s]][0])
            if s not in prev:
                out.add("first-sight" + ("+observed" if s in obs else ""))
            if s in obs:
                p, r = obs[s]
                if p - r > case["dn"]:
                    out.add("down")
                elif u - r < case["up"]:
                    out.add("up-clipped" if u + case["inc"] > mx[st[s]][0] else "up")
                else:
                    out.add("hold")
                if p - r == case["dn"]:
                    out.add("down-threshold-hit-exactly")
                if p - r <= case["dn"] and u - r == case["up"]:
                    out.add("up-threshold-hit-exactly")
            elif s in prev:
                out.add("listed-without-observation")
        for s in prev:
            if s not in step["passed"]:
                out.add("entry-of-unlisted-session-kept")
                if s in obs:
                    out.add("observed-but-unlisted")
        if len(step["passed"]) >= 2:
            out.add("two-listed")
        if len({st[s] for s in now}) < len(now):
            out.add("station-reused")
        prev = now
    return out


REQUIRED = ("down", "up", "up-clipped", "hold", "first-sight", "listed-without-observation", "entry-of-unlisted-session-kept",
            "down-threshold-hit-exactly", "up-threshold-hit-exactly", "min-pilot-above-bound", "min-rate-refused", "two-listed",
            "station-reused", "observed-but-unlisted")


def _replay_worker(chunk):
    out = []
    for case in chunk:
        out.append((replay_case(case), nontrivial(case), sorted(classes(case))))
    return out


# ------------------------------------------------------------------------------ TLC runs
FRACTIONAL = {"UpThr": "= 50", "DownThr": "= 150", "UpInc": "= 25"}
SINGLE = {"MaxOn": "= 1", "SessIds": "<- SessOnST1", "MinPilot": "<- MinPilotHigh"}


def mc_runs(tier):
    if tier == "quick":
        return [({"MaxT": "= 3", "Drops": "<- DropsPair", "GLat": "<- NoLat"},
                 "two stations, three sessions, two plugged at once, uninterrupted charging, defaults 1/1/1, 3 periods"),
                (dict(SINGLE, MaxT="= 5"), "one station used twice, uninterrupted charging, defaults 1/1/1, 5 periods"),
                (dict(SINGLE, MaxT="= 4", Closed="= FALSE", Drops="<- DropsFrac", **FRACTIONAL),
                 "open environment (arbitrary observed pilots), thresholds 0.5 / 1.5 A, increment 0.25 A, 4 periods")]
    return [({"MaxT": "= 4", "Drops": "<- DropsPair", "GLat": "<- NoLat"},
             "two stations, three sessions, two plugged at once, uninterrupted charging, defaults 1/1/1, 4 periods"),
            ({"MaxT": "= 3"}, "two plugged at once, full rate / grant lattices, 3 periods"),
            ({"MaxT": "= 3", "Drops": "<- DropsPairFrac", "PLat": "<- PLatTwo", "GLat": "<- NoLat", "Closed": "= FALSE", "Unint": "= FALSE", **FRACTIONAL},
             "two plugged at once, open environment, thresholds 0.5 / 1.5 A, increment 0.25 A, 3 periods"),
            (dict(SINGLE, MaxT="= 7"), "one station used twice, uninterrupted charging, defaults 1/1/1, 7 periods"),
            (dict(SINGLE, MaxT="= 5", Closed="= FALSE", Drops="<- DropsMC", **FRACTIONAL),
             "open environment, thresholds 0.5 / 1.5 A, increment 0.25 A, 5 periods"),
            (dict(SINGLE, MaxT="= 6", Drops="<- DropsMC", UpThr="= 150", DownThr="= 50", UpInc="= 100"),
             "closed loop, thresholds 1.5 / 0.5 A (increment above the down threshold), 6 periods")]


def gen_runs(tier, seed):
    """(overrides, simulate, depth, what)"""
    q = tier == "quick"
    tiny = {"Drops": "<- DropsTiny", "GLat": "<- NoLat"}
    one = {"MaxOn": "= 1", "SessIds": "<- SessOne"}
    runs = [(dict(one, MaxT="= 4" if q else "= 5", Unint="= FALSE", **tiny), None, None,
             "every behaviour of one session over %d periods (exhaustive)" % (4 if q else 5)),
            (dict(SINGLE, MaxT="= 3", GLat="<- NoLat", Drops="<- DropsTwo" if q else "<- DropsTiny"), None, None,
             "every behaviour of 3 periods on one station used twice, uninterrupted charging (exhaustive)")]
    if not q:
        runs.append((dict(one, MaxT="= 4", MinPilot="<- MinPilotHigh", **tiny), None, None,
                     "every behaviour of one session over 4 periods, uninterrupted charging with a minimum pilot (exhaustive)"))
    n = 1200 if q else 15000
    return runs + [
        ({"MaxT": "= 6"}, n, 90, "sampled: two stations, three sessions, defaults 1/1/1, 6 periods"),
        (dict(SINGLE, MaxT="= 7", Unint="= FALSE", Closed="= FALSE", **FRACTIONAL), n, 100,
         "sampled: open environment (arbitrary observed pilots), thresholds 0.5 / 1.5 A, increment 0.25 A, 7 periods"),
        (dict(SINGLE, MaxT="= 8", UpThr="= 150", DownThr="= 50", UpInc="= 100"), n, 110,
         "sampled: one station used twice, thresholds 1.5 / 0.5 A, 8 periods"),
        ({"MaxT": "= 7", "MinPilot": "<- MinPilotHigh", "UpInc": "= 50"}, n, 100,
         "sampled: both stations finite-rate, increment 0.5 A, 7 periods")]


def _run_mc(args):
    (ov, what), quick = args
    return run_tlc("MC_Rampdown", "Rampdown_mc", workers=2 if quick else WORKERS, coverage=True, overrides=ov, timeout=1500, env_extra=JVM_MC), what


def _run_gen(args):
    (ov, sim, depth, what), seed = args
    return run_tlc("MC_Rampdown", "Rampdown_gen", workers=1 if sim else 2, simulate=sim, depth=depth, seed=seed if sim else None,
                   overrides=ov, timeout=1500, env_extra=JVM_SMALL), what


# ------------------------------------------------------------------------------ closed loop (code -> spec)
LEVEL_SETS = ([0, 8, 16, 24, 32], [0, 6, 12, 18, 24, 30], [0] + list(range(6, 33)), [0, 6, 8, 10, 13, 16], [0, 7.5, 15, 22.5, 30])
EST_PARAMS = ((1, 1, 1), (1, 1, 1), (0.5, 1, 0.5), (1, 2, 0.25), (0.5, 0.5, 1.0), (1.0, 0.75, 0.5), (2, 1, 1), (1.5, 0.5, 1))


def sim_station_id(i):
    return "EVSE-%d" % (i + 1)


def gen_simulation(rng, idx):
    """Parameters of one closed-loop simulation (JSON-serialisable, so a failing one can be replayed)."""
    n = rng.choice([2, 3, 3, 4])
    stations = []
    for i in range(n):
        if rng.random() < 0.5:
            stations.append({"kind": "fin", "lv": list(rng.choice(LEVEL_SETS))})
        else:
            stations.append({"kind": "cont", "max": rng.choice([16, 32, 32, 40, 20.5])})
    horizon = rng.choice([30, 36, 42])
    sessions = []
    for i in range(n):
        a = rng.randint(0, 6)
        k = 0
        while a < horizon - 5:
            dur = rng.randint(4, 16)
            kind = rng.choice(["2stage", "2stage", "2stage", "ideal"])
            if kind == "2stage":
                cap = rng.choice([6.0, 10.0, 16.0, round(rng.uniform(5, 20), 2)])
                soc0 = round(rng.uniform(0.35, 0.88), 3)
                target = rng.choice([0.93, 0.97, 1.0])
                b = {"k": "2stage", "cap": cap, "init": round(cap * soc0, 4), "pw": rng.choice([3.3, 6.6, 7.0]),
                     "noise": rng.choice([0, 0, 0.2]), "tsoc": rng.choice([0.8, 0.8, 0.6])}
                kwh = round(cap * (target - soc0), 4)
            else:
                b = {"k": "ideal", "pw": rng.choice([1.5, 3.3, 100.0])}
                kwh = round(rng.choice([0.8, 1.5, 2.5, 4.0]) * rng.uniform(0.8, 1.2), 3)
            # never equal to a station id, and not derivable from it
            sessions.append({"st": i, "arr": a, "dep": a + dur, "edep": a + dur + rng.choice([0, 0, 2, -1]) if dur > 2 else a + dur,
                             "kwh": max(kwh, 0.05), "batt": b, "id": "sn-%03d-%c%d" % (idx, "pqrs"[i], k)})
            a += dur + rng.choice([0, 0, 1, 3])
            k += 1
    algo = rng.choice(["greedy", "greedy", "rr"])
    return {"idx": idx, "T": 5, "st": stations, "limit": rng.choice([24.0, 40.5, 64.0, 1000.0]), "sessions": sessions,
            "est": list(rng.choice(EST_PARAMS)), "np_seed": rng.randrange(2 ** 31),
            "opt": {"algo": algo, "sort": rng.choice(SORTS), "unint": rng.random() < 0.5, "inc": rng.choice([0.1, 0.5, 1.0])}}


class _Tap:
    """Stands between the estimator and the real Interface and keeps what the estimator read."""

    def __init__(self, real):
        object.__setattr__(self, "_real", real)
        object.__setattr__(self, "seen", {})

    def __getattr__(self, name):
        v = getattr(object.__getattribute__(self, "_real"), name)
        if name in ("last_applied_pilot_signals", "last_actual_charging_rate"):
            object.__getattribute__(self, "seen")[name] = dict(v)
        return v


def _q(x):
    return int(round(float(x) * UT))


def run_simulation(p):
    """Real Simulator.run() under the real algorithm with a real SimpleRampdown; one trace line per scheduler
    invocation.  -> (lines, direct findings [mismatch dicts])."""
    import numpy as np
    from acnportal import algorithms as alg
    from acnportal.acnsim import Simulator, EventQueue, PluginEvent, ChargingNetwork, Current
    from acnportal.acnsim.models import EV, EVSE, FiniteRatesEVSE, Battery, Linear2StageBattery
    opt = p["opt"]
    n = len(p["st"])
    lines, direct = [], []
    state = np.random.get_state()
    np.random.seed(p["np_seed"])
    try:
        with warnings.catch_warnings(record=True) as wlist:
            warnings.simplefilter("always")
            network = ChargingNetwork()
            for i, st in enumerate(p["st"]):
                evse = FiniteRatesEVSE(sim_station_id(i), st["lv"]) if st["kind"] == "fin" else EVSE(sim_station_id(i), max_rate=st["max"], min_rate=0)
                network.register_evse(evse, 208, 0)
            network.add_constraint(Current([sim_station_id(i) for i in range(n)]), p["limit"], "agg")
            est = alg.SimpleRampdown(up_threshold=p["est"][0], down_threshold=p["est"][1], up_increment=p["est"][2])
            kw = dict(estimate_max_rate=True, max_rate_estimator=est, uninterrupted_charging=bool(opt["unint"]))
            sort_fn = getattr(alg, opt["sort"])
            algo = alg.SortedSchedulingAlgo(sort_fn, **kw) if opt["algo"] == "greedy" else alg.RoundRobin(sort_fn, continuous_inc=opt["inc"], **kw)
            evs, events = [], []
            for s in p["sessions"]:
                b = s["batt"]
                batt = Battery(s["kwh"] + 5.0, 0, b["pw"]) if b["k"] == "ideal" else \
                    Linear2StageBattery(b["cap"], b["init"], b["pw"], noise_level=b["noise"], transition_soc=b["tsoc"])
                ev = EV(s["arr"], s["dep"], s["kwh"], sim_station_id(s["st"]), s["id"], batt, estimated_departure=s["edep"])
                evs.append(ev)
                events.append(PluginEvent(s["arr"], ev))
            sim = Simulator(network, algo, EventQueue(events), datetime(2020, 1, 1), period=p["T"], verbose=False)
            tap = _Tap(est.interface)
            est.register_interface(tap)
            station_of = {s["id"]: sim_station_id(s["st"]) for s in p["sessions"]}
            mxs = {sim_station_id(i): float(network.max_pilot_signals[i]) for i in range(n)}
            mns = {sim_station_id(i): float(network.min_pilot_signals[i]) for i in range(n)}
            cur = {}
            orig_est, orig_run = est.get_maximum_rates, algo.run

            def get_maximum_rates(sessions):
                tap.seen.clear()
                listed = [(s.session_id, s.station_id, int(s.arrival)) for s in sessions]
                r = orig_est(sessions)
                cur["calls"] = cur.get("calls", 0) + 1
                cur["ses"] = [{"s": sid, "st": st, "mx": _q(mxs[st]), "mn": _q(mns[st]), "arr": arr} for sid, st, arr in listed]
                pp, pr = tap.seen.get("last_applied_pilot_signals", {}), tap.seen.get("last_actual_charging_rate", {})
                cur["obs"] = [{"s": sid, "st": station_of.get(sid, "?"), "p": _q(v), "r": _q(pr[sid])} for sid, v in sorted(pp.items()) if sid in pr]
                cur["obs_missing_rate"] = sorted(set(pp) - set(pr))
                cur["tab"] = [{"s": str(k), "v": _q(v)} for k, v in sorted(r.items(), key=lambda kv: str(kv[0]))] if isinstance(r, dict) else None
                return r

            def run():
                cur.clear()
                t = int(sim.iteration)
                sched = orig_run()
                if cur.get("calls") != 1 or cur.get("tab") is None or cur.get("obs_missing_rate"):
                    direct.append({"field": "estimator-call", "t": t, "impl": {k: cur.get(k) for k in ("calls", "obs_missing_rate")}})
                    return sched
                on = {e["st"]: e["s"] for e in cur["ses"]}
                lines.append({"tid": p["idx"], "t": t, "up": _q(p["est"][0]), "dn": _q(p["est"][1]), "inc": _q(p["est"][2]),
                              "unint": bool(opt["unint"]), "ses": cur["ses"], "obs": cur["obs"], "tab": cur["tab"],
                              "sched": [{"st": x, "s": on.get(x, ""), "g": _q(sched[x][0]) if x in sched else 0, "mn": _q(mns[x]), "mx": _q(mxs[x])}
                                        for x in sorted(mxs)]})
                return sched

            est.get_maximum_rates, algo.run = get_maximum_rates, run
            try:
                sim.run()
            except Exception as e:  # noqa
                if not through_impl(e):
                    raise
                direct.append({"field": "exception", "impl": "%s: %s" % (type(e).__name__, str(e)[:200]), "t": int(sim.iteration)})
        for w in wlist:
            if "Invalid schedule provided" in str(w.message):
                direct.append({"field": "infeasible-schedule-warning", "impl": str(w.message)[:200]})
                break
    finally:
        np.random.set_state(state)
    return lines, direct


def _sim_worker(p):
    try:
        return p, run_simulation(p)
    except Exception as e:  # noqa  (machinery)
        return p, ([], [{"field": "machinery", "impl": "%s: %s" % (type(e).__name__, e)}])


def validate_lines(lines, rep=None, what="closed-loop invocations replayed against the rule"):
    """One TLC run per batch of at most 30000 lines (a simulation is never split).
    Returns ({line number (1-based over `lines`): why}, counters)."""
    rejected, cnt = {}, {}
    start = 0
    while start < len(lines):
        end = min(len(lines), start + 30000)
        while end < len(lines) and lines[end]["tid"] == lines[end - 1]["tid"]:
            end += 1
        text = "".join(json.dumps(l) + "\n" for l in lines[start:end])
        res = run_tlc("RampdownTrace", "Rampdown_trace", workers=1, extra_files={"Rampdown_trace.ndjson": text}, tags=("REJ",),
                      timeout=1500, env_extra=JVM_SMALL)
        require_ok(res, "rampdown trace validation")
        out = res.emitted.get("REJ", [])
        if len(out) != 1 or out[0]["lines"] != end - start:
            raise RuntimeError("trace validation did not read the whole batch: %r" % (out[:1],))
        if rep is not None:
            rep.add_tlc(res, "code->spec: %d %s (RampdownTrace.tla)" % (end - start, what), "Rampdown_trace")
        for r in out[0]["rejected"]:
            rejected[start + r["line"]] = r["why"]
        for k, v in out[0]["cnt"].items():
            cnt[k] = cnt.get(k, 0) + v
        start = end
    return rejected, cnt


def replay_sim(case):
    """Re-run one recorded simulation with the current tree and have TLC validate it again."""
    lines, direct = run_simulation(case["sim"])
    if direct:
        return direct[0]
    rejected, _ = validate_lines(lines)
    for k in sorted(rejected):
        if not rejected[k].startswith("observation"):
            return {"field": rejected[k], "line": lines[k - 1]}
    return None


def selftest_traces(lines):
    """Corrupted copies of an accepted simulation: one table entry shifted by 1e-3 A; one observed rate moved across the
    down threshold.  -> [(lines, index of the corrupted line, description)]"""
    tests = []
    by_tid = {}
    for ln in lines:
        by_tid.setdefault(ln["tid"], []).append(ln)
    for tid, ls in by_tid.items():
        for k, ln in enumerate(ls):
            obs = {o["s"]: o for o in ln["obs"]}
            cand = [e for e in ln["ses"] if e["s"] in obs and obs[e["s"]]["p"] - obs[e["s"]]["r"] > ln["dn"] + 1000
                    and obs[e["s"]]["r"] + ln["inc"] < e["mx"] - 1000]
            if not cand or k + 1 >= len(ls):
                continue
            s = cand[0]["s"]
            a = json.loads(json.dumps(ls))
            for e in a[k]["tab"]:
                if e["s"] == s:
                    e["v"] += 1000
            b = json.loads(json.dumps(ls))
            for o in b[k]["obs"]:
                if o["s"] == s:
                    o["r"] = o["p"]      # the EV drew exactly its pilot: no ramp-down
            c = json.loads(json.dumps(ls))
            for e in c[k]["sched"]:
                if e["s"] == s:
                    e["g"] = max(e["mn"], [x["v"] for x in c[k]["tab"] if x["s"] == s][0]) + 1000
            tests = [(a, k, "table entry +1e-3 A", "table:value"), (b, k, "observed rate := pilot", "table:value"),
                     (c, k, "grant := bound + 1e-3 A", "bound-exceeded")]
            return tests
    return tests


# ------------------------------------------------------------------------------ the check
def check_rampdown(rep, tier, seed, par=WORKERS):
    """Adds model checking of Rampdown.tla, the replay of its behaviours through the real estimator and the validation of
    closed-loop traces to `rep`.  Violation keys: C07:rampdown:<class>."""
    q = tier == "quick"
    t0 = time.time()
    found_before = len(rep.violations) + len(rep.known_hits) + sum(rep.foreign.values())
    rep.assumptions += [
        "rampdown: the generation lattices are multiples of 0.25 A (binary fractions), so the real estimator's float arithmetic "
        "is exact on emitted behaviours and threshold hits are decided exactly; model checking adds offsets of 0.01 A",
        "rampdown: thresholds and increment are non-negative; stations have a finite maximum pilot; rate <= pilot",
        "rampdown: observations are present as acnsim.Interface reports them (active session plugged in during the previous "
        "period, never in periods 0 and 1); replay serves them through a stub interface, traces record the real Interface",
        "rampdown: trace validation in 1e-6 A with slack 2e-6 A; a threshold test within the slack is non-decisive (both "
        "outcomes accepted, counted)",
    ]
    # the closed-loop simulations (C) run in the process pool while TLC works on (A)
    rng = random.Random("rampdown-%s" % seed)
    params = [gen_simulation(rng, k) for k in range(60 if q else 1500)]
    pool = ProcessPoolExecutor(par)
    try:
        sim_futs = [pool.submit(_sim_worker, p) for p in params]
        # (A) model checking and generation: independent TLC processes side by side
        mcs, gens = mc_runs(tier), gen_runs(tier, seed)
        with ThreadPoolExecutor(3) as ex:
            f_mc = [ex.submit(_run_mc, (a, q)) for a in mcs]
            f_gen = [ex.submit(_run_gen, (a, seed)) for a in gens]
            for f in f_mc:
                res, what = f.result()
                rep.add_tlc(res, MC_WHAT + " (" + what + ")", "Rampdown_mc", require_actions=MC_ACTIONS)
                require_ok(res, "Rampdown model checking (%s)" % what)
            cases, seen = [], set()
            for f in f_gen:
                res, what = f.result()
                require_ok(res, "Rampdown generation (%s)" % what)
                rep.add_tlc(res, "generation: " + what, "Rampdown_gen")
                for b in res.emitted.get("BHV", []):
                    k = jhash(b)
                    if k not in seen:
                        seen.add(k)
                        cases.append(b)
        t_tlc = time.time() - t0
        # (B) replay
        skipped = [c for c in cases if not decisive(c)]
        cases = [c for c in cases if decisive(c)]
        rep.non_decisive += len(skipped)
        chunks = [cases[i::par * 8] for i in range(par * 8)]
        found_classes = {}
        for chunk, results in zip(chunks, pool.map(_replay_worker, chunks)):
            for case, (d, nt, cls) in zip(chunk, results):
                rep.replayed += 1
                rep.count("rampdown-" + jhash(case), nt)
                for c in cls:
                    found_classes[c] = found_classes.get(c, 0) + 1
                if d is not None:
                    rep.violation("C07:rampdown:%s" % d["field"], json.dumps(d, default=repr)[:500],
                                  {"kind": "case", "module": MOD, "case": case, "mismatch": d})
        missing = [c for c in REQUIRED if not found_classes.get(c)]
        if missing:
            raise RuntimeError("rampdown generation is vacuous for: %s" % ", ".join(missing))
        if cases:
            rep.sample({"rampdown_behaviour": next((c for c in cases if nontrivial(c)), cases[0])})
        t_replay = time.time() - t0 - t_tlc
        # (C) closed loop
        lines, owner = [], {}
        for f in sim_futs:
            p, (ls, direct) = f.result()
            for d in direct:
                if d["field"] == "machinery":
                    raise RuntimeError("rampdown closed-loop driver failed: %s" % d["impl"])
                rep.violation("C07:rampdown:closed-loop:%s" % d["field"], "%s (simulation %d, %s)" % (d["impl"], p["idx"], p["opt"]),
                              {"kind": "case", "module": MOD, "fn": "replay_sim", "case": {"sim": p}, "mismatch": d})
            owner[p["idx"]] = p
            lines += ls
    finally:
        pool.shutdown(wait=False, cancel_futures=True)
    # (a vacuous closed loop or a failing self-test is a machinery failure - unless the run has found violations already:
    #  a defective estimator may well make the loop degenerate, and the violations are what has to be reported then)
    machinery = []
    tests = selftest_traces(lines)
    if len(tests) != 3:
        machinery.append("rampdown trace self-test: no simulation with a decisive ramp-down to corrupt")
    extra, expect = [], []
    for j, (ls, k, what, why) in enumerate(tests):
        expect.append((len(lines) + len(extra) + k + 1, len(lines) + len(extra) + 1, len(lines) + len(extra) + len(ls), what, why))
        extra += [dict(l, tid=10 ** 6 + j) for l in ls]
    rejected, cnt = validate_lines(lines + extra, rep)
    for line_no, first, last, what, why in expect:
        got = sorted(k for k in rejected if first <= k <= last)
        if not got or got[0] != line_no or rejected[line_no] != why:
            machinery.append("rampdown trace self-test (%s): expected line %d rejected first with %s, got %r" % (
                what, line_no, why, [(k, rejected[k]) for k in got]))
    if not machinery:
        rep.notes.append("rampdown trace binding self-test: in copies of an accepted simulation a table entry shifted by 1e-3 A, an "
                         "observed rate moved across the down threshold and a grant 1e-3 A above its bound were each rejected at "
                         "exactly the corrupted invocation")
    for need in ("down", "up", "hold", "first", "capped"):
        if not cnt.get(need):
            machinery.append("rampdown closed loop is vacuous: no decisive '%s' evaluation in %d invocations" % (need, len(lines)))
    bad_tids = {}
    for k in sorted(k for k in rejected if k <= len(lines)):
        ln, why = lines[k - 1], rejected[k]
        if why.startswith("observation"):
            # the environment model (what the Interface reports) is the business of C04 / C05
            rep.foreign_divergence("C05", {"why": why, "line": ln})
            bad_tids.setdefault(ln["tid"], why)
            continue
        if ln["tid"] in bad_tids:
            continue
        bad_tids[ln["tid"]] = why
        p = owner[ln["tid"]]
        d = {"field": why, "t": ln["t"], "line": ln}
        rep.violation("C07:rampdown:%s" % why, "simulation %d period %d %s est=%s: %s" % (p["idx"], ln["t"], p["opt"], p["est"], json.dumps(ln)[:300]),
                      {"kind": "case", "module": MOD, "fn": "replay_sim", "case": {"sim": p}, "mismatch": d})
    if machinery:
        if len(rep.violations) + len(rep.known_hits) + sum(rep.foreign.values()) == found_before:
            raise RuntimeError("; ".join(machinery))
        rep.notes.append("rampdown: self-test / coverage requirements not met in a run that found violations: " + "; ".join(machinery)[:600])
    rep.traces_accepted += len(params) - len(bad_tids)
    rep.non_decisive += cnt.get("nd", 0)
    for p in params:
        rep.count("rampdown-sim-%d" % p["idx"], True)
    stats = {"behaviours_replayed": len(cases), "behaviours_non_decisive": len(skipped), "classes": found_classes,
             "simulations": len(params), "invocations": len(lines), "rule_evaluations": cnt,
             "seconds": {"tlc": round(t_tlc, 1), "replay": round(t_replay, 1), "closed_loop": round(time.time() - t0 - t_tlc - t_replay, 1)}}
    rep.bounds["rampdown"] = stats
    rep.notes.append("rampdown: %d behaviours of Rampdown.tla replayed through the real SimpleRampdown / preprocessing / algorithm; "
                     "%d invocations of %d real closed-loop simulations validated by TLC (%d ramp-downs, %d ramp-ups, %d holds, "
                     "%d grants capped by the estimator's bound, %d non-decisive)" % (
                         len(cases), len(lines), len(params), cnt.get("down", 0), cnt.get("up", 0), cnt.get("hold", 0),
                         cnt.get("capped", 0), cnt.get("nd", 0)))
    return stats


def check_C07R(tier, seed):
    """Standalone wrapper (development only; the registered check is check_C07 of props_sortedalgo)."""
    rep = Report("C07", tier, seed)
    rep.rule = ("behaviour = one history of Rampdown.tla (events, listed sessions, observations, grants), distinct by content; "
                "non-trivial = a ramp-down fires; closed loop: one count per simulation")
    check_rampdown(rep, tier, seed)
    rep.exhaustive = True
    return rep.finish()
