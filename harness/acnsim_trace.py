"""code -> spec binding for AcnSim.tla: record executions of the real Simulator through the
env-guarded trace points (acnportal/acnsim/_verif.py) and have TLC validate them, in batches,
against spec/AcnSimTrace.tla.

Drivers build random scenarios inside the scope of the specification (sessions that do not
overlap on a station, integer lattice of energies) and run them under REAL schedulers
(UncontrolledCharging, SortedSchedulingAlgo on finite-rate EVSEs, RoundRobin with unit increments,
a random scripted scheduler that also raises / triggers JSON round trips) and REAL batteries
(ideal, two-stage continuous / stepwise, with noise).  Every trace line carries the action name,
its arguments and a small projection of the state after it; all numbers are integers
(energies in W*min).
"""
import json
import random
import warnings
from datetime import datetime

import numpy as np

KWH = 60000.0
START = datetime(2021, 3, 1, 6, 30)
LEVELS = [0, 8, 16, 24, 32]


def sid(s):
    return "ST-%d" % s


def vid(i):
    return "sess-%d" % i


def _lcm(xs):
    from math import gcd
    out = 1
    for x in xs:
        out = out * x // gcd(out, x)
    return out


class Cfg:
    """The constants of one trace (NS, Volt, VL, T of AcnSim.tla) and the naming of stations and
    sessions: spec station s is station_ids[s-1], spec session i is session_ids[i-1]."""

    def __init__(self, volt, T, station_ids=None, session_ids=None):
        self.volt = [int(v) for v in volt]
        self.ns = len(self.volt)
        self.T = int(T)
        self.vl = _lcm(self.volt)
        self.station_ids = list(station_ids) if station_ids else [sid(s) for s in range(1, self.ns + 1)]
        self.session_ids = list(session_ids) if session_ids else None

    def key(self):
        return (self.ns, tuple(self.volt), self.vl, self.T)

    def st(self, s):
        return self.station_ids[s - 1]

    def sess_index(self, session_id):
        if self.session_ids is None:
            return int(session_id.split("-")[1])
        return self.session_ids.index(session_id) + 1

    def sess_id(self, i):
        return vid(i) if self.session_ids is None else self.session_ids[i - 1]


DEFAULT_CFG = Cfg([208, 240, 120], 5)
CFG_MENU = [([208, 240, 120], 5), ([208, 240, 120], 5), ([208, 208], 1), ([240, 120, 208, 220], 15), ([220, 220, 240], 3)]


class OutOfScope(Exception):
    """The execution left the scope of the specification's units (e.g. a non-integer pilot):
    the trace is discarded and counted, it is neither accepted nor a violation."""


# ----------------------------------------------------------------------------------- TLA+ literals
def tla(x):
    if isinstance(x, bool):
        return "TRUE" if x else "FALSE"
    if isinstance(x, int):
        return str(x)
    if isinstance(x, str):
        return '"%s"' % x
    if isinstance(x, (list, tuple)):
        return "<<" + ", ".join(tla(y) for y in x) + ">>"
    if isinstance(x, (set, frozenset)):
        return "{" + ", ".join(tla(y) for y in sorted(x)) + "}"
    if isinstance(x, IntFun):
        if not x.d:
            return "<<>>"
        return "(" + " @@ ".join("%d :> %s" % (k, tla(v)) for k, v in sorted(x.d.items())) + ")"
    if isinstance(x, dict):
        return "[" + ", ".join("%s |-> %s" % (k, tla(v)) for k, v in x.items()) + "]"
    raise TypeError("no TLA+ literal for %r" % (x,))


class IntFun:
    """A TLA+ function with an integer domain that is not 1..n."""

    def __init__(self, d):
        self.d = dict(d)


# ----------------------------------------------------------------------------------- recorder
class Recorder:
    """The trace sink: called at the simulator's trace points."""

    def __init__(self, scn, menu, cfg=None):
        self.scn = scn
        self.cfg = cfg or DEFAULT_CFG
        self.menu = menu          # this trace's schedules: canonical schedule -> index (1-based)
        self.lines = []
        self.nsess = len(scn["sess"])

    # -- projections (integers only)
    def idx(self, ev):
        return self.cfg.sess_index(ev.session_id) if ev is not None else 0

    def occ(self, sim):
        return [self.idx(sim.network.get_ev(self.cfg.st(s))) for s in range(1, self.cfg.ns + 1)]

    def ev_of(self, sim, i):
        name = self.cfg.sess_id(i)
        if name in sim.ev_history:
            return sim.ev_history[name]
        for _, e in sim.event_queue.queue:
            if e.event_type == "Plugin" and e.ev.session_id == name:
                return e.ev
        raise KeyError(i)

    @staticmethod
    def integer(x, what):
        r = int(round(float(x)))
        if abs(float(x) - r) > 1e-7 * max(1.0, abs(r)):
            raise OutOfScope("%s = %r is not on the integer lattice" % (what, x))
        return r

    def canon(self, sim, schedule):
        rows = {}
        for k, v in schedule.items():
            if k not in sim.network.station_ids:
                raise OutOfScope("scripted bad schedule")
            rows[self.cfg.station_ids.index(k) + 1] = tuple(self.integer(p, "pilot") for p in v)
        lens = {len(v) for v in rows.values()}
        if len(lens) > 1:
            raise OutOfScope("ragged")
        key = tuple(sorted(rows.items()))
        if key not in self.menu:
            self.menu[key] = len(self.menu) + 1
        return self.menu[key]

    def __call__(self, point, sim, f):
        if point.startswith("step_"):
            return
        getattr(self, "on_" + point)(sim, f)

    def on_loop(self, sim, f):
        self.lines.append({"a": "loop", "t": sim.iteration, "n": len(f["events"])})

    def on_proc(self, sim, f):
        e = f["event"]
        if e.event_type == "Recompute":
            i = 100 + e.timestamp
        else:
            i = self.idx(e.ev)
        self.lines.append({"a": "proc", "kind": e.event_type, "ts": int(e.timestamp), "id": i, "occ": self.occ(sim),
                           "qlen": len(sim.event_queue)})

    def on_sched(self, sim, f):
        active = {self.idx(ev) for ev in sim.get_active_evs()}
        self.lines.append({"a": "sched", "t": sim.iteration, "m": self.canon(sim, f["schedule"]), "active": active})

    def on_update(self, sim, f):
        sch = f["schedule"]
        L = len(next(iter(sch.values()))) if len(sch) else 0
        t = sim.iteration
        P = []
        for s in range(1, self.cfg.ns + 1):
            j = sim.network.station_ids.index(self.cfg.st(s))
            P.append([self.integer(sim.pilot_signals[j, k], "pilot") for k in range(t, t + L)])
        self.lines.append({"a": "update", "t": t, "P": P})

    def on_apply(self, sim, f):
        t = sim.iteration
        ideal = self.scn["ideal"]
        frac = 0
        P, E, EP = [], [], []
        for s in range(1, self.cfg.ns + 1):
            j = sim.network.station_ids.index(self.cfg.st(s))
            P.append(self.integer(sim.pilot_signals[j, t], "pilot"))
            EP.append(self.integer(sim.network._EVSEs[self.cfg.st(s)].current_pilot, "pilot"))
            e = float(sim.charging_rates[j, t]) * self.cfg.volt[s - 1] * self.cfg.T
            if ideal and abs(e - round(e)) > 1e-6:
                frac = 1
            E.append(int(round(e)) if ideal else self.round_in(e))
        evE, chg = [], []
        for i in range(1, self.nsess + 1):
            ev = self.ev_of(sim, i)
            a, b = ev.energy_delivered * KWH, ev._battery._current_charge * KWH
            if ideal and (abs(a - round(a)) > 1e-6 or abs(b - round(b)) > 1e-6):
                frac = 1
            evE.append(int(round(a)))
            chg.append(int(round(b)))
        pk = float(sim.peak) * self.cfg.vl * self.cfg.T
        if ideal and abs(pk - round(pk)) > 1e-5:
            frac = 1
        self.lines.append({"a": "apply", "t": t, "occ": self.occ(sim), "P": P, "EP": EP, "E": E, "evE": evE, "chg": chg,
                           "peakN": int(round(pk)), "frac": frac})

    @staticmethod
    def round_in(e):
        """Round a delivered energy to an integer without leaving the closed interval the
        specification checks: values within 1e-6 of an integer snap to it, others round to nearest."""
        return int(round(e))

    def on_done(self, sim, f):
        self.lines.append({"a": "done", "t": sim.iteration, "qlen": len(sim.event_queue), "occ": self.occ(sim)})


# ----------------------------------------------------------------------------------- scenarios
def random_scenario(rng, ideal=True, max_sess=5, cfg=None):
    NS = (cfg or DEFAULT_CFG).ns
    n = rng.randint(1, max_sess)
    sess = []
    for _ in range(n * 3):
        if len(sess) >= n:
            break
        st = rng.randint(1, NS)
        arr = rng.randint(0, 7)
        dep = arr + rng.randint(1, 4)
        if any(x["st"] == st and not (x["dep"] <= arr or dep <= x["arr"]) for x in sess):
            continue
        req = rng.choice([8320, 20000, 33310, 50000, 4000])
        if rng.random() < 0.5:
            init, cap, pw = 0, req, 6656
        else:
            init, cap, pw = 30000, 120000, rng.choice([3000, 6000])
        sess.append({"st": st, "arr": arr, "dep": dep, "req": req, "cap": cap, "init": init, "pw": pw})
    sess.sort(key=lambda x: (x["arr"], x["st"]))
    last = max(x["dep"] for x in sess)
    recomp = set()
    if rng.random() < 0.4:
        recomp = set(rng.sample(range(0, last + 3), rng.randint(1, 2)))
    return {"sess": sess, "recomp": recomp, "mr": rng.choice([0, 0, 1, 2, 3]), "ideal": ideal}


class RandomScripted:
    """A scripted scheduler with random integer schedules; sometimes raises."""

    def __init__(self, rng, crash_p, ns=3):
        from acnportal.algorithms import BaseAlgorithm
        self.ns = ns

        outer = self

        class _Alg(BaseAlgorithm):
            def schedule(self, active_sessions):
                return outer.schedule(self, active_sessions)

        self.alg = _Alg()
        self.rng, self.crash_p, self.crashes = rng, crash_p, 0

    def schedule(self, alg, active_sessions):
        rng = self.rng
        if self.crashes < 2 and rng.random() < self.crash_p:
            self.crashes += 1
            raise ScriptedCrash()
        c = rng.random()
        if c < 0.15:
            return {}
        L = rng.randint(1, 4)
        sts = rng.sample(range(1, self.ns + 1), rng.randint(1, self.ns))
        return {sid(s): [rng.choice(LEVELS) for _ in range(L)] for s in sts}


class ScriptedCrash(Exception):
    pass


def build(scn, rng, sched_kind, cfg=None):
    cfg = cfg or DEFAULT_CFG
    NS, VOLT, T = cfg.ns, cfg.volt, cfg.T
    from acnportal.acnsim import Simulator
    from acnportal.acnsim.events import EventQueue, PluginEvent, RecomputeEvent
    from acnportal.acnsim.models import EV, Battery, Linear2StageBattery, EVSE, FiniteRatesEVSE
    from acnportal.acnsim.network import ChargingNetwork, Current
    from acnportal.algorithms import (UncontrolledCharging, SortedSchedulingAlgo, RoundRobin, first_come_first_served,
                                      earliest_deadline_first, least_laxity_first, last_come_first_served)
    net = ChargingNetwork()
    finite = sched_kind in ("sorted", "scripted")
    threeph = rng.random() < 0.5
    for s in range(1, NS + 1):
        evse = FiniteRatesEVSE(sid(s), LEVELS) if finite else EVSE(sid(s), max_rate=32)
        net.register_evse(evse, VOLT[s - 1], [30, -90, 150][(s - 1) % 3] if threeph else 0)
    if rng.random() < 0.7:
        net.add_constraint(Current([sid(s) for s in range(1, NS + 1)]), rng.choice([40.0, 56.0]), name="agg")
    events = []
    for i, x in enumerate(scn["sess"], 1):
        cap, init, pw = x["cap"] / KWH, x["init"] / KWH, x["pw"] / 1000.0
        if scn["ideal"]:
            batt = Battery(cap, init, pw)
        else:
            batt = Linear2StageBattery(cap, init, pw, noise_level=scn.get("noise", 0.0),
                                       transition_soc=scn.get("tau", 0.8),
                                       charge_calculation=scn.get("calc", "continuous"))
        est = x["dep"] + rng.choice([-1, 0, 0, 2, 5])    # irrelevant to the simulator; only schedulers read it
        events.append(PluginEvent(x["arr"], EV(x["arr"], x["dep"], x["req"] / KWH, sid(x["st"]), vid(i), batt,
                                               estimated_departure=est if est > x["arr"] else None)))
    events += [RecomputeEvent(r) for r in sorted(scn["recomp"])]
    rng.shuffle(events)
    scripted = None
    if sched_kind == "uncontrolled":
        alg = UncontrolledCharging()
    elif sched_kind == "sorted":
        alg = SortedSchedulingAlgo(rng.choice([first_come_first_served, earliest_deadline_first, least_laxity_first,
                                               last_come_first_served]))
    elif sched_kind == "rr":
        alg = RoundRobin(first_come_first_served, continuous_inc=1)
    else:
        scripted = RandomScripted(rng, 0.15, NS)
        alg = scripted.alg
    alg.max_recompute = scn["mr"] if scn["mr"] else None
    sim = Simulator(net, alg, EventQueue(events), START, period=T, verbose=False,
                    store_schedule_history=rng.random() < 0.5)
    return sim, alg


def record_one(seed, ideal=True, **scn_extra):
    """Run one random scenario under the real code; returns (trace dict, info) or raises OutOfScope."""
    from acnportal.acnsim import Simulator, _verif
    rng = random.Random(seed)
    cfg = Cfg(*CFG_MENU[seed % len(CFG_MENU)])
    scn = random_scenario(rng, ideal=ideal, cfg=cfg)
    scn.update(scn_extra)
    kind = rng.choice(["uncontrolled", "sorted", "rr", "scripted", "scripted"])
    np.random.seed(seed % (2 ** 31))
    with warnings.catch_warnings():
        warnings.simplefilter("ignore")
        sim, alg = build(scn, rng, kind, cfg)
        menu = {}
        rec = Recorder(scn, menu, cfg)
        prev = _verif.set_sink(rec)
        try:
            for _ in range(5):
                try:
                    sim.run()
                    break
                except OutOfScope:
                    raise
                except ScriptedCrash:
                    rec.lines.append({"a": "raise", "t": sim.iteration})
                    if rng.random() < 0.5:
                        sim2 = Simulator.from_json(sim.to_json())
                        sim2.update_scheduler(alg)
                        sim = sim2
                        rec.lines.append({"a": "dumpload"})
                    rec.lines.append({"a": "resume"})
                except Exception as e:  # noqa - the real code failed: the specification has no such action
                    rec.lines.append({"a": "exception", "t": sim.iteration, "type": type(e).__name__,
                                      "msg": str(e)[:80].replace('"', "'").replace("\\", "/")})
                    break
        finally:
            _verif.set_sink(prev)
    scn_tla = {"sess": scn["sess"], "recomp": set(scn["recomp"]), "mr": scn["mr"], "ideal": scn["ideal"],
               "menu": menu_tla(menu)}
    return {"scn": scn_tla, "ev": rec.lines, "cfg": cfg}, {"seed": seed, "scheduler": kind, "ideal": ideal,
                                                            "lines": len(rec.lines), "final_t": sim.iteration,
                                                            "volt": cfg.volt, "T": cfg.T}


# ----------------------------------------------------------------------------------- validation
def menu_tla(menu):
    out = []
    for key, _ in sorted(menu.items(), key=lambda kv: kv[1]):
        rows = dict(key)
        L = len(next(iter(rows.values()))) if rows else 0
        out.append({"kind": "ok", "len": L, "rows": IntFun({s: list(v) for s, v in rows.items()})})
    if not out:
        out.append({"kind": "ok", "len": 0, "rows": IntFun({})})
    return out


def validate_batch(traces, timeout=1800):
    """One TLC run over the batch.  Returns (TlcResult, verdicts) where verdicts[i] =
    dict(reached, total, bad, pc, t) for trace i (0-based)."""
    import re
    from .tlc import run_tlc, TlcFailure
    c0 = traces[0].get("cfg") or DEFAULT_CFG
    if any((tr.get("cfg") or DEFAULT_CFG).key() != c0.key() for tr in traces):
        raise TlcFailure("validate_batch: traces with different constants in one batch")
    NS, VOLT, VL, T = c0.ns, c0.volt, c0.vl, c0.T
    H = max([l["t"] for tr in traces for l in tr["ev"] if "t" in l] + [1]) + 6
    max_sess = max(len(tr["scn"]["sess"]) for tr in traces)
    data = ["---- MODULE MC_AcnSimTrace ----", "EXTENDS AcnSimTrace",
            "TrVolt == %s" % tla(VOLT),
            "TrMenu == <<>>",
            ] + ["Trace%d == %s" % (i + 1, tla({"scn": tr["scn"], "ev": tr["ev"]})) for i, tr in enumerate(traces)] + [
            "TrInit == " + " \\/ ".join("TInitFrom(%d, Trace%d)" % (i + 1, i + 1) for i in range(len(traces))),
            "TrVerdicts == Verdicts(%d)" % len(traces),
            "===="]
    cfg = "\n".join([
        "CONSTANTS", "  NS = %d" % NS, "  Volt <- TrVolt", "  VL = %d" % VL, "  T = %d" % T, "  MRSet = {0}",
        "  MaxSess = %d" % max_sess, "  MaxArr = 0", "  MaxDur = 1", "  ReqSet = {0}", "  BattSet = {0}",
        "  Menu <- TrMenu", "  RecompSets = {{}}", "  MaxCrash = 9", "  AllowDump = TRUE", "  H = %d" % H,
        "  Rec = FALSE",
        "  Sched <- TrSchedOf", "  MenuIds <- TrMenuIds",
        "INIT TrInit", "NEXT TNext", "CONSTRAINT RecordProgress", "POSTCONDITION TrVerdicts", "CHECK_DEADLOCK FALSE",
        "INVARIANT TypeOK", "INVARIANT EventOrder", "INVARIANT ProcessedOnTime", "INVARIANT PlugOnce",
        "INVARIANT ConnectedExactly", "INVARIANT OneOccupant", "INVARIANT DoneShape", "INVARIANT Ledger",
        "INVARIANT VacantZero", "INVARIANT NotYetZero", "INVARIANT PeakIsMax", "INVARIANT RateBounds",
        "INVARIANT PilotsMatchSubmissions", "INVARIANT InvokeIff", "INVARIANT AtMostOncePerPeriod",
        "INVARIANT InvokedAfterEvents", "INVARIANT CrashTransparent", ""])
    import os
    import tempfile
    fd, cfg_path = tempfile.mkstemp(suffix=".cfg", dir=os.environ.get("VERIF_SCRATCH") or "/var/tmp")
    with os.fdopen(fd, "w") as fh:
        fh.write(cfg)
    try:
        res = run_tlc("MC_AcnSimTrace", cfg_path, workers=1, deadlock=False, timeout=timeout,
                      extra_files={"MC_AcnSimTrace.tla": "\n".join(data)})
    finally:
        os.unlink(cfg_path)
    verdicts = {}
    pat = re.compile(r'<<\s*"TR",\s*(\d+),\s*(\d+),\s*(\d+),\s*"([^"]*)",\s*<<"(\w+)",\s*(-?\d+)>>\s*>>')
    for m in pat.finditer(res.stdout):
        verdicts[int(m.group(1)) - 1] = {"reached": int(m.group(2)), "total": int(m.group(3)), "bad": m.group(4),
                                         "pc": m.group(5), "t": int(m.group(6))}
    if res.violated is None and len(verdicts) != len(traces):
        raise TlcFailure("trace validation printed %d verdicts for %d traces\n%s" % (len(verdicts), len(traces),
                                                                                    res.stdout[-2000:]))
    return res, verdicts


def explain(tr, v):
    """Human-readable reason a trace was rejected."""
    if v["bad"]:
        line = tr["ev"][v["reached"] - 2] if v["reached"] >= 2 else None
        return "line %d %s: logged state disagrees with the specification on %s" % (
            v["reached"] - 1, json.dumps(line, default=list), v["bad"])
    k = v["reached"]
    line = tr["ev"][k - 1] if k <= len(tr["ev"]) else None
    return "line %d %s: the specification does not allow this action here (spec is at pc=%s, period %d)" % (
        k, json.dumps(line, default=list), v["pc"], v["t"])


def clause(tr, v):
    if v["bad"]:
        return v["bad"].split(" ")[0]
    k = v["reached"]
    a = tr["ev"][k - 1]["a"] if k <= len(tr["ev"]) else "end"
    return "%s-not-enabled@%s" % (a, v["pc"])


# ----------------------------------------------------------------------------------- check integration
CLAUSE_OWNER = [
    ("apply.E", None),  # decided below (ideal: C02, envelope: C03)
    ("apply.P", "C04"), ("apply.evsePilot", "C04"), ("update.pilots", "C04"), ("update.", "C04"), ("reject", "C04"),
    ("apply.exact", "C02"), ("apply.evE", "C02"), ("apply.chg", "C02"), ("apply.peak", "C02"),
    ("sched.", "C05"), ("sched-not-enabled", "C05"), ("apply-not-enabled@Sched", "C05"), ("update-not-enabled", "C05"),
    ("raise", "C09"), ("resume", "C09"), ("dumpload", "C09"),
]


def owner_of(tr, v):
    c = clause(tr, v)
    own = "C01"
    if c.startswith("apply.E"):
        own = "C02" if tr["scn"]["ideal"] else "C03"
    else:
        for pre, o in CLAUSE_OWNER:
            if o and c.startswith(pre):
                own = o
                break
    owners = {own}
    upto = tr["ev"][: max(0, v["reached"] - 1)]
    if any(l["a"] == "raise" for l in upto):
        owners.add("C09")
    return c, owners


def _corrupt(tr):
    """A copy of an accepted trace with one logged field changed (binding self-test)."""
    import copy
    c = copy.deepcopy({"scn": {k: v for k, v in tr["scn"].items() if k != "menu"}, "ev": tr["ev"]})
    c["scn"]["menu"] = tr["scn"]["menu"]
    c["cfg"] = tr.get("cfg")
    for line in c["ev"]:
        if line["a"] == "apply" and any(line["occ"]):
            i = [o for o in line["occ"] if o][0]
            line["evE"][i - 1] += 7 + (0 if tr["scn"]["ideal"] else 2 * len(c["ev"]))
            return c
    for line in c["ev"]:
        if line["a"] == "done":
            line["t"] += 1
            return c
    return None


def _validate_job(args):
    traces = args
    res, verdicts = validate_batch(traces)
    return ({"generated": res.generated, "distinct": res.distinct, "ok": res.ok, "violated": res.violated,
             "wall_s": res.wall_s, "cmd": res.cmd, "depth": res.depth, "tail": res.stdout[-1500:]}, verdicts)


def trace_validation(rep, prop, owners, seed, n, twostage_frac=0.3, noise=True, batch=40, repo_tests=False):
    """Record n executions of the real code, validate them with TLC, book the results in rep."""
    import random as _r
    from concurrent.futures import ThreadPoolExecutor
    from .tlc import TlcFailure
    traces, infos, oos = [], [], 0
    for j in range(n):
        s = seed * 1009 + j
        r = _r.Random(s)
        ideal = r.random() >= twostage_frac
        extra = {}
        if not ideal:
            extra = dict(noise=r.choice([0.0, 0.0, 0.5, 2.0]) if noise else 0.0, tau=r.choice([0.0, 0.5, 0.8, 0.95]),
                         calc=r.choice(["continuous", "stepwise"]))
        try:
            tr, info = record_one(s, ideal=ideal, **extra)
        except OutOfScope:
            oos += 1
            continue
        info.update(extra)
        traces.append(tr)
        infos.append(info)
    if repo_tests:
        # the simulations the repository's own tests build, run under the hook
        for label, tr, why in record_repo_tests():
            if tr is None:
                rep.notes.append("repository test simulation %s not validated: %s" % (label, why))
                continue
            traces.append(tr)
            infos.append({"seed": -1, "label": label, "scheduler": "repository test", "ideal": tr["scn"]["ideal"],
                          "lines": len(tr["ev"]), "final_t": tr["ev"][-1].get("t"), "volt": tr["cfg"].volt,
                          "T": tr["cfg"].T})
    # binding self-test: corrupted copies must be rejected
    corrupted = []
    for tr in traces[:6]:
        c = _corrupt(tr)
        if c is not None:
            corrupted.append(c)
    allt = traces + corrupted
    # one TLC run per batch; a batch holds traces of one configuration (NS, Volt, T are constants)
    groups = {}
    for i, tr in enumerate(allt):
        groups.setdefault((tr.get("cfg") or DEFAULT_CFG).key(), []).append(i)
    chunk_idx = []
    for key in sorted(groups):
        g = groups[key]
        chunk_idx += [g[i:i + batch] for i in range(0, len(g), batch)]
    chunks = [[allt[i] for i in idxs] for idxs in chunk_idx]
    with ThreadPoolExecutor(max_workers=8) as ex:
        outs = list(ex.map(_validate_job, chunks))
    verdicts, states, gen = {}, 0, 0
    for ci, (st, v) in enumerate(outs):
        if not st["ok"]:
            raise TlcFailure("trace validation: TLC reports %s\n%s" % (st["violated"], st["tail"]))
        rep.tlc_runs.append({"what": "code->spec trace validation (AcnSimTrace.tla), all AcnSim invariants in every state",
                             "cfg": "generated", "cmd": st["cmd"], "generated": st["generated"],
                             "distinct": st["distinct"], "depth": st["depth"], "wall_s": round(st["wall_s"], 1),
                             "ok": True, "violated": None})
        rep.states += st["distinct"]
        rep.transitions += st["generated"]
        for k, x in v.items():
            verdicts[chunk_idx[ci][k]] = x
    nbad = 0
    for i, tr in enumerate(allt):
        v = verdicts[i]
        accepted = v["reached"] == v["total"] and not v["bad"]
        if i >= len(traces):          # a corrupted copy
            if accepted:
                raise TlcFailure("binding self-test failed: a corrupted trace was accepted")
            nbad += 1
            continue
        info = infos[i]
        rep.count("trace-%s" % (info.get("label") or info["seed"]), info["lines"] > 12)
        if accepted:
            rep.traces_accepted += 1
            continue
        c, own = owner_of(tr, v)
        if own & set(owners):
            rep.violation("%s:trace:%s" % (sorted(own & set(owners))[0], c), explain(tr, v)[:700],
                          {"kind": "acnsim_trace", "info": info, "verdict": v,
                           "trace": json.loads(json.dumps({"scn": tr["scn"], "ev": tr["ev"]}, default=_jsonable))})
        else:
            for o in own:
                rep.foreign_divergence(o, {"explain": explain(tr, v)[:900], "info": info, "verdict": v,
                                           "trace": json.loads(json.dumps({"scn": tr["scn"], "ev": tr["ev"]},
                                                                          default=_jsonable))})
    rep.notes.append("%d executions of the real simulator (real schedulers: uncontrolled / sorted / round robin / random "
                     "scripted with exceptions and JSON round trips; ideal and two-stage batteries) recorded through "
                     "the trace points and validated by TLC; %d out of scope (non-integer pilots); binding self-test: "
                     "%d corrupted copies, all rejected" % (len(traces), oos, nbad))
    if traces:
        rep.sample({"trace_info": infos[0], "first_lines": json.loads(json.dumps(traces[0]["ev"][:6], default=_jsonable))})
    return len(traces)


def _jsonable(o):
    if isinstance(o, (set, frozenset)):
        return sorted(o)
    if isinstance(o, IntFun):
        return {str(k): v for k, v in o.d.items()}
    return repr(o)


def replay_trace(payload):
    """./check --replay for a recorded trace violation: re-record the same seed and validate it."""
    info = payload["info"]
    if info.get("label"):
        got = [t for lab, t, why in record_repo_tests() if lab == info["label"]]
        if not got or got[0] is None:
            return {"clause": "not-recordable", "why": "the repository test simulation could not be recorded again"}
        tr = got[0]
    else:
        extra = {k: info[k] for k in ("noise", "tau", "calc") if k in info}
        tr, _ = record_one(info["seed"], ideal=info["ideal"], **extra)
    res, v = validate_batch([tr])
    v = v[0]
    if v["reached"] == v["total"] and not v["bad"]:
        return None
    return {"clause": clause(tr, v), "why": explain(tr, v)}


# ----------------------------------------------------------------------------------- the repository's own tests
class AutoRecorder(Recorder):
    """A recorder that derives the scenario and the constants from the simulator itself at the first
    trace point (used for simulations built by the repository's own tests)."""

    def __init__(self):
        self.cfg = None
        self.scn = None
        self.menu = {}
        self.lines = []
        self.sim0 = None

    def __call__(self, point, sim, f):
        if point.startswith("step_"):
            raise OutOfScope("step() driven simulation")
        if self.cfg is None:
            if point != "loop" or sim.iteration != 0:
                raise OutOfScope("recording started in the middle of a run")
            self.configure(sim, f["events"])
        elif sim is not self.sim0:
            raise OutOfScope("a second simulator ran under the same recorder")
        getattr(self, "on_" + point)(sim, f)

    @staticmethod
    def _int(x, what, up=None):
        import math
        v = float(x)
        r = round(v)
        if abs(v - r) <= 1e-7 * max(1.0, abs(r)):
            return int(r), True
        return int(math.ceil(v) if up else math.floor(v)), False

    def configure(self, sim, popped):
        from acnportal.acnsim.models import Battery
        self.sim0 = sim
        net = sim.network
        stations = list(net.station_ids)
        volt = []
        for st in stations:
            v, ok = self._int(net.voltages[st], "voltage")
            if not ok:
                raise OutOfScope("non-integer voltage")
            volt.append(v)
        T, ok = self._int(sim.period, "period")
        if not ok or T <= 0:
            raise OutOfScope("non-integer period")
        evs, recomp = [], set()
        for e in list(popped) + [e for _, e in sim.event_queue.queue]:
            if e.event_type == "Plugin":
                if e.timestamp != e.ev.arrival:
                    raise OutOfScope("plug-in event not at the EV's arrival")
                evs.append(e.ev)
            elif e.event_type == "Recompute":
                recomp.add(int(e.timestamp))
            else:
                raise OutOfScope("event of type %r" % e.event_type)
        evs.sort(key=lambda ev: (ev.arrival, stations.index(ev.station_id)))
        sess, exact = [], True
        for ev in evs:
            if ev.energy_delivered != 0:
                raise OutOfScope("EV with energy delivered before the run")
            b = ev._battery
            req, ok1 = self._int(ev.requested_energy * KWH, "request")
            cap, ok2 = self._int(b._capacity * KWH, "capacity", up=True)
            init, ok3 = self._int(b._current_charge * KWH, "charge", up=False)
            pw, ok4 = self._int(b._max_power * 1000.0, "power", up=True)
            exact = exact and ok1 and ok2 and ok3 and ok4 and type(b) is Battery
            sess.append({"st": stations.index(ev.station_id) + 1, "arr": int(ev.arrival), "dep": int(ev.departure),
                         "req": req, "cap": cap, "init": init, "pw": pw})
        for i, a in enumerate(sess):
            if a["dep"] <= a["arr"] or a["arr"] < 0:
                raise OutOfScope("session with departure <= arrival")
            for b2 in sess[i + 1:]:
                if a["st"] == b2["st"] and a["arr"] < b2["dep"] and b2["arr"] < a["dep"]:
                    raise OutOfScope("overlapping sessions on a station")
        self.cfg = Cfg(volt, T, stations, [ev.session_id for ev in evs])
        mr = sim.max_recompute
        self.scn = {"sess": sess, "recomp": recomp, "mr": int(mr) if mr else 0, "ideal": exact}
        self.nsess = len(sess)

    def trace(self):
        scn = dict(self.scn)
        scn["menu"] = menu_tla(self.menu)
        return {"scn": scn, "ev": self.lines, "cfg": self.cfg}


def _load_repo_test_module(name):
    import importlib.util
    import os
    import acnportal
    root = os.path.dirname(os.path.dirname(os.path.abspath(acnportal.__file__)))
    path = os.path.join(root, "tests", name + ".py")
    spec = importlib.util.spec_from_file_location("verif_repo_" + name, path)
    mod = importlib.util.module_from_spec(spec)
    spec.loader.exec_module(mod)
    return mod


REPO_TEST_SIMS = [("test_integration", "TestEmptyScheduleSim"), ("test_json_io", "TestJSONIO")]


def record_repo_tests():
    """Run the simulations the repository's own (offline) tests build, under the trace recorder.
    Returns a list of (label, trace | None, reason)."""
    from acnportal.acnsim import _verif
    out = []
    for modname, cls in REPO_TEST_SIMS:
        label = "%s.%s.setUpClass" % (modname, cls)
        rec = AutoRecorder()
        prev = _verif.set_sink(rec)
        try:
            with warnings.catch_warnings():
                warnings.simplefilter("ignore")
                mod = _load_repo_test_module(modname)
                getattr(mod, cls).setUpClass()
            if rec.cfg is None:
                out.append((label, None, "no simulation ran"))
            else:
                out.append((label, rec.trace(), ""))
        except OutOfScope as e:
            out.append((label, None, "out of the specification's scope: %s" % e))
        finally:
            _verif.set_sink(prev)
    return out
