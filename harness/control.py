"""Control.tla: the control skeleton of Simulator.run() (when is the scheduler invoked).

Three runs, added to C05's report:
  1. TLC explores Control.tla itself (bounded t, max_recompute in 0..4) with the inductive invariant as an invariant;
  2. Apalache discharges the inductive invariant for ALL integers (any horizon, any max_recompute, any event pattern):
     Init => IndInv  and  IndInv /\\ Next => IndInv'.  IndInv contains `ok`, i.e. property C05's "invoked iff required,
     at most once per period".  Apalache's verdict is *recorded* (the bounded TLC runs are what the check relies on):
     if the tool is unavailable or exceeds its timeout this is noted, not failed; a counterexample to induction on the
     committed specification, however, is a machinery failure (the specification changed without its proof);
  3. TLC checks that AcnSim.tla - the model bound to the code by replay and trace validation - REFINES Control.tla
     (AcnSimControl.tla: Spec => Ctl!Spec, and the proved invariant evaluated on AcnSim's states).
"""
import os
import shutil
import subprocess
import time

from .tlc import run_tlc, require_ok, scratch_dir, SPEC_DIR


def _apalache(args, timeout_s):
    exe = shutil.which("apalache-mc")
    if exe is None:
        return "unavailable", "apalache-mc not on PATH"
    d = scratch_dir("verif-apa-")
    try:
        shutil.copy(os.path.join(SPEC_DIR, "Control.tla"), d)
        t0 = time.time()
        try:
            p = subprocess.run([exe, "check"] + args + ["--out-dir=" + os.path.join(d, "out"), "Control.tla"], cwd=d,
                               stdout=subprocess.PIPE, stderr=subprocess.STDOUT, text=True, timeout=timeout_s,
                               env=dict(os.environ, JVM_ARGS="-Xmx4g"))
        except subprocess.TimeoutExpired:
            return "timeout", "no verdict within %ds" % timeout_s
        out = p.stdout or ""
        if "The outcome is: NoError" in out:
            return "proved", "%.1fs" % (time.time() - t0)
        if "The outcome is: Error" in out:
            return "refuted", out[-1500:]
        return "no-verdict", out[-800:]
    finally:
        shutil.rmtree(d, ignore_errors=True)


def check_control(rep, tier):
    res = require_ok(run_tlc("MC_Control", "Control_mc", workers=2, coverage=True, deadlock=False),
                     "Control.tla bounded exploration")
    rep.add_tlc(res, "Control.tla: the control skeleton of run(), bounded (t <= 7, max_recompute 0..4), inductive invariant "
                     "as an invariant", "Control_mc",
                require_actions=["Start", "Loop", "Proc", "ProcEnd", "Decide", "SchedReturn", "Update", "SchedRaise",
                                 "Reject", "Resume", "Apply"])
    base, step = _apalache(["--init=Init", "--inv=IndInv", "--length=0"], 240), None
    if base[0] == "proved":
        step = _apalache(["--init=IndInit", "--inv=IndInv", "--length=1"], 420)
    verdicts = {"Init => IndInv": base, "IndInv /\\ Next => IndInv'": step or ("skipped", "")}
    rep.notes.append("Apalache, inductive invariant of Control.tla over unbounded integers (recorded, not relied on): "
                     + "; ".join("%s: %s (%s)" % (k, v[0], v[1][:60]) for k, v in verdicts.items()))
    rep.bounds["control_inductive_invariant"] = {k: v[0] for k, v in verdicts.items()}
    for k, v in verdicts.items():
        if v[0] == "refuted":
            raise RuntimeError("Control.tla: the inductive invariant is not inductive any more (%s)\n%s" % (k, v[1]))
    cfg = "AcnSimControl_quick" if tier == "quick" else "AcnSimControl_mc"
    res = require_ok(run_tlc("AcnSimControl", cfg, workers=8 if tier == "quick" else 16, timeout=3000),
                     "AcnSim.tla refines Control.tla")
    rep.add_tlc(res, "refinement: every behaviour of AcnSim.tla (scenarios, schedules, interruptions, JSON round trips) projects "
                     "onto a behaviour of Control.tla; the proved invariant holds in every AcnSim state", cfg)
