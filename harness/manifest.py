"""Regenerates /verif/MANIFEST.json from the table below (python3 -m harness.manifest)."""
import json
import os
import subprocess

VERIF = os.path.dirname(os.path.dirname(os.path.abspath(__file__)))

MC = "model_checking"
ACN_NOTE = ("Trusted: TLC/SANY, CommunityModules Json, the replay harness' projection of the implementation state "
            "(harness/acnsim_replay.py). Small scope: the model is exhaustive within the constants of "
            "spec/cfg/AcnSim_mc_*.cfg, behaviours beyond them are sampled with -simulate. Sessions do not overlap on a "
            "station; menu pilots are accepted by all EVSE classes; ideal Battery where energies are compared to the spec.")

CHECKS = {
    "C01": dict(
        text="AcnSim.tla models Simulator.run action by action; TLC checks EventOrder, ProcessedOnTime, PlugOnce, "
             "ConnectedExactly, DoneShape over all scenarios of the small configuration and Termination (liveness, weak "
             "fairness). Binding: TLC-generated behaviours are replayed through the real Simulator/EventQueue/"
             "ChargingNetwork/EVSE and compared at every scheduler invocation, every applied period and at the end; "
             "traces of real schedulers are validated against the spec.",
        tech="TLA+ spec (AcnSim.tla) + TLC invariants/liveness + spec-to-code behaviour replay + code-to-spec trace validation",
        ref="5/C01", note=ACN_NOTE),
    "C02": dict(
        text="Ledger, VacantZero, PeakIsMax, RateBounds are invariants of AcnSim.tla (energy in exact integer W*min). "
             "Replay compares three separately stored implementation quantities (charging_rates*V*T, EV energy, battery "
             "charge), peak and total energy with the spec after every period.",
        tech="TLA+ spec (AcnSim.tla) + TLC invariants + spec-to-code behaviour replay",
        ref="5/C02", note=ACN_NOTE),
    "C04": dict(
        text="PilotsMatchSubmissions compares the pilot matrix with an independent definition from the submission log; "
             "Reject leaves durable state unchanged (action property). Replay submits the spec's schedules (permuted "
             "mapping order, int/float/numpy values, longer than the horizon, at every period incl. the last, unknown "
             "station, ragged rows) and compares the recorded and applied pilots.",
        tech="TLA+ spec (AcnSim.tla) + TLC invariants/action properties + spec-to-code behaviour replay",
        ref="5/C04", note=ACN_NOTE),
    "C05": dict(
        text="InvokeIff/AtMostOncePerPeriod/InvokedAfterEvents are invariants with the invocation rule defined from the "
             "scenario only; Obs defines what must be observable. Replay compares everything a recording scheduler reads "
             "through the Interface with Obs, and repeats behaviours with a scheduler that mutates every object it is "
             "handed.",
        tech="TLA+ spec (AcnSim.tla) + TLC invariants + spec-to-code behaviour replay (recording and mutating schedulers)",
        ref="5/C05", note=ACN_NOTE),
    "C09": dict(
        text="CrashTransparent (re-invocation on the identical durable state after an interruption) and DumpLoad = "
             "identity are checked by TLC with SchedRaise/Reject enabled in every period. Replay raises where the spec "
             "says, optionally round-trips through JSON, resumes, and compares every later step and the final state with "
             "the spec (hence with the uninterrupted run), object sharing after load included; two-stage batteries are "
             "compared run-vs-twin.",
        tech="TLA+ spec (AcnSim.tla) + TLC invariants/action properties + spec-to-code replay with interruption-free twin",
        ref="5/C09", note=ACN_NOTE + " Naive datetime start."),
    "C10": dict(
        text="The spec state is keyed by identity, so order independence holds in the model by construction; the "
             "implementation is bound by replaying each TLC behaviour under station/session/constraint permutations, "
             "duplicate builds and time shifts and requiring identical per-station outputs; real uncontrolled and "
             "finite-rate sorted schedulers are run on the same scenarios under the same variations.",
        tech="TLA+ spec (AcnSim.tla) + TLC behaviour generation + metamorphic spec-to-code replay",
        ref="5/C10", note=ACN_NOTE + " Shift k is a multiple of max_recompute; distinct priority keys for sorted schedulers."),
}

CHECKS["C13"] = dict(
    text="EVSE.tla models one station (continuous, deadband, finite-rate) with plugin/unplug/set_pilot as actions; "
         "TLC checks AdvertisedAccepted, PilotIsValid and that refused calls change nothing, for every call sequence "
         "within the bound. Every sequence TLC enumerates (pilots at each boundary +-{0,.5,.9,1.1,2}e-3 A) is replayed "
         "through the real EVSE classes, the network cache and the Interface accessors, comparing outcome, pilot, "
         "occupant, EV energy and battery charge after each call.",
    tech="TLA+ spec (EVSE.tla) + TLC invariants/action properties + exhaustive spec-to-code replay",
    ref="5/C13", note="Trusted: TLC, replay harness. Probes never sit exactly on +-1e-3 A (undecidable in floats); "
                      "accepted negative pilots only on a vacant station.")

NOT_APPLICABLE = []


def build():
    props = [json.loads(l)["id"] for l in open(os.path.join(VERIF, "properties.jsonl"))]
    checks = []
    for pid in props:
        if pid not in CHECKS:
            continue
        c = CHECKS[pid]
        checks.append({
            "property_id": pid,
            "quick_cmd": "./check %s --tier quick" % pid,
            "thorough_cmd": "./check %s --tier thorough" % pid,
            "evidence_file": "/verif/evidence/%s.json" % pid,
            "replay_cmd_template": "./check %s --replay {path}" % pid,
            "engine": c.get("engine", "tlc+replay"),
            "level_claimed": {"category": c.get("level", MC), "text": c["text"], "design_ref": c["ref"]},
            "level_note": c["note"],
            "technique": c["tech"],
        })
    try:
        commits = subprocess.check_output(
            ["git", "-C", "/repo", "log", "--format=%h %s", "--grep=^hook:"], text=True).strip().splitlines()
    except Exception:
        commits = []
    na = [n for n in NOT_APPLICABLE]
    claimed = {c["property_id"] for c in checks}
    for pid in props:
        if pid not in claimed and pid not in {n["property_id"] for n in na}:
            na.append({"property_id": pid, "reason": "check not built yet in this session (planned; see DESIGN.md section 5)"})
    return {
        "version": 1,
        "setup_cmd": "./setup.sh",
        "hooks": {
            "guard": "ACNPORTAL_VERIF",
            "enable": "export ACNPORTAL_VERIF=1 (set by ./check); Python is imported from /repo's working tree on every run, nothing is built",
            "baseline_off_cmd": "cd /repo && env -u ACNPORTAL_VERIF /venv/bin/python -m pytest -ra -q -p no:cacheprovider --timeout=900 --continue-on-collection-errors",
            "source_commits": [c.split()[0] for c in commits],
            "add_only": True,
        },
        "engines": [
            {"name": "tlc+replay", "path": "/verif/harness", "serves_properties": sorted(claimed),
             "kind_free_text": "TLA+ specifications in /verif/spec checked by TLC; behaviours/cases emitted by TLC are "
                               "replayed through the real acnportal classes, and traces of the real code are validated "
                               "by TLC against trace specifications"}],
        "checks": checks,
        "not_applicable": na,
        "notes": "See DESIGN.md. known_findings.json lists repaired defects (fixed) and open findings.",
    }


if __name__ == "__main__":
    m = build()
    with open(os.path.join(VERIF, "MANIFEST.json"), "w") as fh:
        json.dump(m, fh, indent=1)
    print("MANIFEST.json: %d checks, %d not_applicable" % (len(m["checks"]), len(m["not_applicable"])))
