"""Regenerates /verif/MANIFEST.json from the table below (python3 -m harness.manifest)."""
import json
import os
import subprocess

VERIF = os.path.dirname(os.path.dirname(os.path.abspath(__file__)))

MC = "model_checking"
ACN_NOTE = ("Trusted: TLC/SANY, CommunityModules Json, the replay harness' projection of the implementation state "
            "(harness/acnsim_replay.py). Small scope: the model is exhaustive within the constants of "
            "spec/cfg/AcnSim_mc_*.cfg, behaviours beyond them are sampled with -simulate. Sessions do not overlap on a "
            "station; menu pilots are accepted by the EVSE classes used (decided by MenuAcceptedBy in the spec); ideal Battery "
            "where energies are compared to the spec. Spec-irrelevant choices varied per behaviour: station registration "
            "order, EVSE classes, constraint sets, mapping order and value types, queue construction (constructor, "
            "add_events, add_event, reused, restored from JSON), verbose, late scheduler attachment, JSON target (string, "
            "file object, path).")

CHECKS = {
    "C01": dict(
        text="AcnSim.tla models Simulator.run action by action; TLC checks EventOrder, ProcessedOnTime, PlugOnce, "
             "ConnectedExactly, DoneShape over all scenarios of the small configuration and Termination (liveness, weak "
             "fairness). Binding: TLC-generated behaviours are replayed through the real Simulator/EventQueue/"
             "ChargingNetwork/EVSE and compared at every scheduler invocation, every applied period and at the end; "
             "traces of real schedulers are validated against the spec. Long horizons (about 20 periods, 3 stations) are sampled; "
             "Simulator.step() is modelled separately (AcnSimStep.tla) and replayed. Scenarios include stray (second) Unplug "
             "events for sessions that are gone. Network.tla drives ChargingNetwork directly with arbitrary call sequences "
             "(plug-in / unplug forms incl. deprecated and mismatched ones) and owns C01's plug/unplug discipline there.",
        tech="TLA+ specs (AcnSim.tla, AcnSimStep.tla, Network.tla) + TLC invariants/liveness + spec-to-code behaviour replay + "
             "code-to-spec trace validation",
        ref="5/C01", note=ACN_NOTE),
    "C02": dict(
        text="Ledger, VacantZero, PeakIsMax, RateBounds are invariants of AcnSim.tla (energy in exact integer W*min). "
             "Replay compares three separately stored implementation quantities (charging_rates*V*T, EV energy, battery "
             "charge), peak and total energy with the spec after every period; Network.tla adds the per-EV ledger and "
             "current_charging_rates across direct network calls.",
        tech="TLA+ specs (AcnSim.tla, Network.tla) + TLC invariants + spec-to-code behaviour replay",
        ref="5/C02", note=ACN_NOTE),
    "C04": dict(
        text="PilotsMatchSubmissions compares the pilot matrix with an independent definition from the submission log; "
             "Reject leaves durable state unchanged (action property). Replay submits the spec's schedules (permuted "
             "mapping order, int/float/numpy values, longer than the horizon, at every period incl. the last, unknown "
             "station, ragged rows) and compares the recorded and applied pilots. Full-station schedules also go through format_array_schedule; pilots inside the acceptance band above the maximum (32.0005 A) must be recorded as submitted; a one-element row among longer ones is rejected.",
        tech="TLA+ spec (AcnSim.tla) + TLC invariants/action properties + spec-to-code behaviour replay",
        ref="5/C04", note=ACN_NOTE),
    "C05": dict(
        text="InvokeIff/AtMostOncePerPeriod/InvokedAfterEvents are invariants with the invocation rule defined from the "
             "scenario only; Obs defines what must be observable. Replay compares everything a recording scheduler reads "
             "through the Interface with Obs, and repeats behaviours with a scheduler that mutates every object it is "
             "handed. The invocation rule is additionally isolated in Control.tla (the control skeleton of run()), whose inductive "
             "invariant Apalache discharges for every horizon, max_recompute and event pattern, and TLC checks that AcnSim.tla "
             "refines it (AcnSimControl.tla).",
        tech="TLA+ spec (AcnSim.tla, Control.tla) + TLC invariants and refinement + Apalache inductive invariant (recorded) + "
             "spec-to-code behaviour replay (recording and mutating schedulers)",
        ref="5/C05", note=ACN_NOTE),
    "C09": dict(
        text="CrashTransparent (re-invocation on the identical durable state after an interruption) and DumpLoad = "
             "identity are checked by TLC with SchedRaise/Reject enabled in every period. Replay raises where the spec "
             "says, optionally round-trips through JSON, resumes, and compares every later step and the final state with "
             "the spec (hence with the uninterrupted run), object sharing after load included; DumpLoad is also enabled before "
             "the first run() and after completion; every scalar attribute of simulator, EVSEs, EVs and batteries is compared "
             "across the round trip; two-stage batteries (continuous, tau 0.6, stepwise) are compared run-vs-twin. Serial.tla "
             "models the id-based JSON mechanism itself over arbitrary object graphs with freely chosen sharing (Isomorphic: "
             "two paths lead to one object after loading iff they did before); every emitted heap is built from the real "
             "classes, dumped, loaded, compared by identity structure and attributes, and resumed.",
        tech="TLA+ specs (AcnSim.tla, Serial.tla) + TLC invariants/action properties + spec-to-code replay with "
             "interruption-free twin + object-graph replay",
        ref="5/C09", note=ACN_NOTE + " Naive datetime start."),
    "C10": dict(
        text="The spec state is keyed by identity, so order independence holds in the model by construction; the "
             "implementation is bound by replaying each TLC behaviour under station/session/constraint permutations, "
             "duplicate builds and time shifts and requiring identical per-station outputs; real uncontrolled and "
             "finite-rate sorted schedulers are run on the same scenarios under the same variations.",
        tech="TLA+ spec (AcnSim.tla) + TLC behaviour generation + metamorphic spec-to-code replay",
        ref="5/C10", note=ACN_NOTE + " Shift k is a multiple of max_recompute; distinct priority keys for sorted schedulers."),
}

CHECKS["C13"] = dict(
    text="EVSE.tla models one station (continuous, deadband, finite-rate) with plugin/unplug/set_pilot as actions; "
         "TLC checks AdvertisedAccepted, PilotIsValid and that refused calls change nothing, for every call sequence "
         "within the bound. Every sequence TLC enumerates (pilots at each boundary +-{0,.5,.9,1.1,2}e-3 A) is replayed "
         "through the real EVSE classes, the network cache and the Interface accessors, comparing outcome, pilot, "
         "occupant, EV energy and battery charge after each call; finite level lists are handed over as list, tuple, ndarray, "
         "generator, iterator or dict view, a companion station of the same class shares the network, and what is advertised "
         "is re-read after a caller mutated the description it was handed. RoundTrip (JSON dump + load of the station) is an "
         "action: the loaded station advertises and accepts what the original did. Network.tla adds refused plug-ins and "
         "invalid pilots at network level (update_pilots stops at the refusing station).",
    tech="TLA+ specs (EVSE.tla, Network.tla) + TLC invariants/action properties + exhaustive spec-to-code replay",
    ref="5/C13", note="Trusted: TLC, replay harness. Probes never sit exactly on +-1e-3 A (undecidable in floats); "
                      "accepted negative pilots only on a vacant station.")

CHECKS["C06"] = dict(
    text="Feasibility.tla transcribes 'feasible' into exact integer arithmetic (every constraint and period: phasor "
         "magnitude <= limit + max(atol, rtol*limit); exact quadratic forms for the angle families {30,-90,150}, "
         "{0,+-120} and collinear). TLC proves LinearConservative, NoConstraintsAcceptsAll, PeriodLocal, "
         "CollinearAgrees and related theorems over the whole lattice and evaluates every case; each case is executed "
         "through ChargingNetwork.is_feasible, Interface.is_feasible (dict form, dropped/permuted stations) and "
         "algorithms.utils.infrastructure_constraints_feasible and must give the spec's verdict and magnitude. A "
         "constraint-free network is driven through the Interface and the real schedulers. Inside the simulator: "
         "AcnSim.tla defines Warning(ConsAgg, m) (whether _update_schedules must warn about a submitted schedule, and the "
         "worst constraint, column and excess it names); behaviours are replayed and the real warnings compared. Aggregates exactly on limit + tolerance are decisive where floating point is exact (network E1); one case in sixteen is resubmitted behind 1100 idle periods.",
    tech="TLA+ spec (Feasibility.tla) + TLC theorems over an exact lattice + one implementation test per TLC case",
    ref="5/C06", note="Trusted: TLC, Json module (the harness recomputes every row verdict with Fractions and aborts as "
                      "machinery failure on disagreement). Limits >= 0; verdicts compared on decisive cases only (exact "
                      "distance to the bound >= 1e-9 relative); units 1e-6 A on collinear rows, 0.1 A on phasor rows.")
CHECKS["C19"] = dict(
    text="StochasticNet.tla models StochasticNetwork as Simulator.run drives it (PluginStoch with ANY free station, "
         "PluginWait, UnplugWaiting/Connected/Gone, EarlyDeparture). TLC checks ExactlyOnePlace, NoTwoInOneStation, "
         "NoWaitWhileFree, FIFOAdmission, NeverChargedCounted, AllGoneAtEnd over every scenario, event order and "
         "free-station choice within the constants, and Termination under weak fairness. Every emitted behaviour is "
         "replayed through the real Simulator+StochasticNetwork with random.choice returning the spec's station; "
         "runs with real random seeds under real schedulers are validated in batch by TLC against "
         "StochasticNetTrace.tla, and equal seeds must give identical traces. Real-seed runs fix the seed before or after the network is built, are repeated on a network object that served a simulation before, and contain sessions that request nothing.",
    tech="TLA+ spec (StochasticNet.tla) + TLC invariants/action property/liveness + spec-to-code replay + "
         "code-to-spec batch trace validation",
    ref="5/C19", note="Trusted: TLC/SANY, Json/IOUtils, the recording subclass. arrival >= 0, departure > arrival; "
                      "ideal battery with capacity = request in replay; tie order among equal (timestamp, precedence) "
                      "events is an input; early departures in station registration order (other legal orders are "
                      "counted non-decisive, never alarmed).")
CHECKS["C20"] = dict(
    text="DataClient.tla models the paging protocol (Pull, First, Yield, Follow, Stop, Abandon, Count): TLC decides that "
         "the yielded sequence is always a prefix of, and at the end equals, the concatenation of the pages, one request "
         "per page visited, next links followed exactly, parameters sent, invalid sites rejected before any request, "
         "laziness, and termination under fairness. DataClientTime.tla decides parse/format identity, same instant and "
         "local fields for four zones in exact integer arithmetic over a lattice around DST transitions and a "
         "day-by-day calendar walk. DataClientTwo.tla: two generators of ONE client pulled in every order for every pair "
         "of pagings (OwnPrefix, CompleteAtStop, OneRequestPerPage, BothFinish). Every behaviour and lattice case is executed against the real DataClient (fake "
         "transport) and acndata.utils. Calls are also made with positional arguments; a third of the documents spell days below 10 without the leading zero (RFC 1123 1*2DIGIT, theorem ThCompactDay).",
    tech="TLA+ specs (DataClient.tla, DataClientTime.tla) + TLC invariants/liveness + exhaustive spec-to-code replay",
    ref="5/C20", note="Trusted: TLC/SANY, Json, pytz as oracle for the four transcribed zones, the fake Eve-style "
                      "server. Stateless well-formed server, no HTTP errors; whole seconds 1971-2037; filters without "
                      "characters needing percent-encoding; parameter order not compared.")

CHECKS["C12"] = dict(
    text="Currents.tla keeps the same three parallel arrays as ChargingNetwork (matrix, limits, names), edited the same "
         "way (add = concat + fill 0 + reindex, remove = delete first match, update = remove + append) next to a ghost "
         "list of the constraints as stated; TLC checks Shape, RowsAligned, LimitsAligned, NamesAligned, QueryRows, "
         "RegisterRefusedAfterConstraint, RefusedChangesNothing, UpdateIsRemoveAppend over every call sequence within "
         "the bound, with Currents built by +, -, k*a, a*k (depth 2) from strings, lists, dicts. Every emitted "
         "behaviour is replayed through the real ChargingNetwork/Current and compared after each call "
         "(station_ids, constraint_matrix, constraints_as_df, magnitudes, constraint_index, constraint_current for "
         "subsets of constraints and periods, every node of every Current expression). Queries are repeated with linear=True on the same row/column subsets; UpdateUnknown models update_constraint with an unregistered station (either outcome the statement allows is accepted, alignment is demanded).",
    tech="TLA+ spec (Currents.tla) + TLC invariants/action properties + spec-to-code behaviour replay",
    ref="5/C12", note="Trusted: TLC, Json module, pandas/numpy. Phase angle 0 on all stations (phasor geometry is C06); "
                      "coefficients are multiples of 1/8 so float arithmetic is exact; time_indices ascending; values of "
                      "Currents are compared, not their Python type; JSON round trips are exercised but owned by C09.")

CHECKS["C17"] = dict(
    text="Tariff.tla + Calendar.tla (civil date <-> day number, weekday, 14 calendar types, checked by TLC as "
         "CalendarTheorems over 1970-2037) on constants transcribed from the bundled JSON files at run time. A clock "
         "state machine walks every day of all 14 calendar types for all five files: ExactlyOne, "
         "PriceIsLatestBreakpoint, WrapEquivalence, SameDaySameSchedule, PriceChangesAtBreakpoints; a second machine "
         "models get_tariffs / one simulation (VecAligned, CostIsSum, PeakIsMax). Every probe TLC visits is executed "
         "through TimeOfUseTariff.get_tariff/get_demand_charge/get_tariffs, Interface.get_prices/get_demand_charge "
         "inside a real simulation and analysis.energy_cost/demand_charge. Vector periods include 90, 720 (and 10080) "
         "minutes; one long-lived tariff object per file answers most probes and every fifth probe uses a fresh object. Cost functions are asked with the simulation's tariff signal, an explicit tariff, an explicit tariff over a different signal, and without signals; periods up to 25 hours.",
    tech="TLA+ specs (Tariff.tla, Calendar.tla) + TLC invariants/action properties + one implementation test per TLC state",
    ref="5/C17", note="Trusted: TLC, Json module, Python datetime/pytz. Prices piecewise constant between probes "
                      "(every breakpoint +-1 s/60 s, 00:00:00, 23:59:59, seeded seconds); years 1970-2037 represented by "
                      "the first year of each calendar type; wall-clock semantics for aware datetimes; prices multiples "
                      "of 1e-5 $, breakpoints on whole seconds.")

CHECKS["C15"] = dict(
    text="EventGen.tla specifies the conversion document/sample -> session (floor of the instant to the period index "
         "minus the start index, max_len and force_feasible caps, arguments of the capacity function, battery "
         "coverage); TLC proves FloorProperty, OrderPreserved, DepartureAfterArrival, both caps and Coverage on the "
         "lattice. Every lattice case is converted by the real _convert_to_ev / _convert_ev_matrix / generate_events and "
         "must equal the spec's session. For the two-stage capacity fit, TLC judges every (cap, init) the real "
         "batt_cap_fn returns against an exact fixed-point enclosure of the two-stage law, and a real "
         "Linear2StageBattery charged at full rate for the stay must deliver the request. MustFit: the request "
         "force_feasible caps a document at (exactly 32 A for the stay) is held in the linear stage by a menu battery "
         "whenever it is at most 80 % of it, so the fit must answer there (this found the defect fixed by 9f1a084).",
    tech="TLA+ spec (EventGen.tla) + TLC invariants + spec-to-code case replay + code-to-spec validation of observed fits",
    ref="5/C15", note="Trusted: TLC/SANY, Json/SequencesExt, numpy, pytz (zone table cross-checked on every use). "
                      "Whole-second aware instants 1970-2038 at or after the start; valid sample rows; stochastic max_len "
                      "in hours (pinned by the repo tests); fit at 32 A, transition SoC 0.8; boundary-exact float cases "
                      "are skipped as non-decisive except where MustFit applies.")

CHECKS["C16"] = dict(
    text="Sites.tla transcribes the three site designs (phase groups with line-to-line angles 30/-90/150, pods, "
         "sub-panels, delta-wye algebra, ratings as functions of the transformer capacities) and an independently "
         "described plant (Kirchhoff line currents, real power through the 120 V wye windings). TLC decides in exact "
         "integer phasor arithmetic that every lattice assignment the constraint set accepts stays within the plant's "
         "ratings (FeasibleWithinRatings, SecondaryAloneSuffices, Structure). The constraint set each real factory "
         "builds is compared entry by entry with the spec's table (basic and real EVSE types, several capacities), every "
         "lattice point is executed through the real ChargingNetwork (magnitudes, is_feasible), and schedules the real "
         "networks accept at their bisected feasibility boundary are checked directly against the ratings. Thorough: "
         "Apalache proves the core implication for all non-negative integers (recorded, not relied on).",
    tech="TLA+ spec (Sites.tla) + TLC theorems on exact integer lattices + configuration conformance and spec-to-code replay",
    ref="5/C16", note="Ratings are read in the 120 V line-to-neutral system the factories document: power = 120*sqrt(3)*sum(I); "
                      "the literal 208 V product may exceed the rating by the nominal rounding 208/(120*sqrt 3) = 1.00074 and "
                      "no more (DESIGN.md 12.4). Capacities 20-300 kW; integer group totals within 32 A per EVSE; the "
                      "physical wiring is the one in the factories' id lists and comments (a common misreading of the real "
                      "site would go unnoticed).")

CHECKS["C03"] = dict(
    text="Battery.tla is one state machine (Charge(pilot, duration, noise draw), Reset, ResetTo(c), ResetRefused, RoundTrip through JSON) for the ideal, stepwise two-stage "
         "and continuous two-stage laws in exact integer arithmetic (continuous law: rigorous rational enclosure with K "
         "Euler micro-steps). TLC proves RateNonNegative, RateAtMostPilot, PowerAtMostMax, ChargeWithinCapacity, "
         "ChargeNeverDecreases, DeliveredIsStored over every lattice battery, noise draw and call sequence within the "
         "bound. Every emitted sequence is executed through Battery, EV/EVSE and whole Simulator runs (noise injected "
         "as the spec's draw) and must meet the bounds and the spec bracket; real-noise executions of random "
         "off-lattice batteries are validated by TLC against the physical envelope (BatteryTrace.tla), and the "
         "in-simulation form (0 <= recorded rate <= pilot, energy inside the envelope) is validated on traces of real "
         "simulations (AcnSimTrace.tla).",
    tech="TLA+ spec (Battery.tla) + TLC invariants + spec-to-code replay + code-to-spec trace validation",
    ref="5/C03", note="Trusted: TLC, Json module, the unit mapping (ratios of one capacity). Non-negative pilots; a noisy "
                      "stepwise battery sitting exactly at the transition SoC is non-decisive (the law jumps there).")
CHECKS["C14"] = dict(
    text="On Battery.tla with noise off TLC checks the documented laws as theorems over every reachable state of charge: "
         "IdealIsMinOfThree, ZeroPilot, Monotone (in pilot and in T), Split (T = T/2 + T/2), DecliningStage, "
         "TwoStageVsIdeal, EnclosureTight, ResetRestores, ResetToSets, RefusedResetChangesNothing (also after a JSON round trip of the battery inside its EV and station), on a per-state probe table of the spec's answer to every "
         "(pilot, duration) call. The real classes must reproduce the exact ideal and stepwise values, lie inside the "
         "rigorous enclosure of the continuous law, and satisfy the split / monotonicity / zero-pilot / reset identities "
         "directly at float precision.",
    tech="TLA+ spec (Battery.tla) + TLC theorems over probe tables + spec-to-code replay (exact values and enclosure)",
    ref="5/C14", note="Trusted: TLC, Json module. Agreement with the continuous law is decided up to the enclosure width "
                      "(<= 0.4 % of one period's maximum dSoC at K=128, 0.2 % at K=256); the identities are evaluated on "
                      "the real battery at 1e-9 and do not inherit that width.")
CHECKS["C11"] = dict(
    text="EventQueue.tla models the pending set with Add, AddMany, AddManyFail (a batch whose source raises midway), GetEvent (any event of minimal (time, precedence)), "
         "GetCurrent(t), the queries and the JSON round trip; TLC decides theorems T1-T8 (order, exact split at t, "
         "conservation, queries reflect the pending set, round trip = identity, drain sorted) over all call sequences, "
         "and that the heapq/tuple mechanism refines it (EventQueueHeap.tla, with a negative control). Binding is a "
         "round trip: TLC emits plans, each plan is executed on the real EventQueue with real events and real "
         "from_json(to_json()), and every log is validated by TLC against EventQueueTrace.tla in batches (a Python "
         "reference model judges every line as a second oracle; nine corrupted traces must be rejected on every run). Plain Events with a caller-chosen precedence (-inf, default +inf) are two more kinds in the sampled plans.",
    tech="TLA+ specs (EventQueue.tla, EventQueueHeap.tla refinement) + TLC invariants + plan execution on the real queue "
         "+ code-to-spec batch trace validation",
    ref="5/C11", note="Trusted: TLC/SANY, Json, the harness' event identification. Integer timestamps >= 0; get_event only "
                      "on a non-empty queue; equal-key events may come out in any order; _timestep is not observed.")
CHECKS["C18"] = dict(
    text="Analysis.tla EXTENDS AcnSim and defines every function of acnsim.analysis as an exact operator over the recorded "
         "trajectory (dE, Volt, T, sess, evE, t); TLC checks theorems tying the definitions to each other and to the "
         "simulator state (A_Energy, A_Peak, A_Phasor, A_PhaseSum, A_RightNames for every subset and order of requested "
         "ids, A_Nema, A_Proportion, A_Datetimes, A_Cost). Each completed behaviour is replayed step by step through the "
         "real Simulator on a network with heterogeneous voltages and three-phase constraint rows, then every real "
         "analysis function is called and compared with the spec's value (the order in which the two representations of "
         "constraint currents are requested varies; the unbalance is asked for right after the other representation). Behaviours with every station on one phase are included and the complex phasor is compared wherever it is handed out; half of the networks have a constraint history (a row added first and removed last).",
    tech="TLA+ spec (Analysis.tla over AcnSim.tla) + TLC theorems + spec-to-code behaviour replay",
    ref="5/C18", note="Trusted: TLC, Json, the AcnSim replay harness. Angles in {30,-90,150}; coefficients multiples of 1/4; "
                      "rates multiples of 0.1 A (exact squared magnitudes); thresholds compared on decisive points only; "
                      "undefined values (0/0) not compared; return_magnitudes polarity not compared.")

SORTED_NOTE = ("Trusted: TLC, Json, an in-process recorder wrapping sorted_algorithms.infrastructure_constraints_feasible and "
               "the two search routines; Simulator._iteration is set directly when a lattice case is staged. EVSEs are "
               "continuous-from-zero or finite-rate; limits <= 100 A; angles {30,-90,150} or single phase; distinct "
               "priority keys; the estimator is a dict session_id -> bound (closed loop: the real SimpleRampdown); "
               "undecidable float coincidences are counted non-decisive. Lattices include finite-rate EVSEs with fractional levels, coefficients above 1, a 7-minute "
               "period and int-typed rates (this found the truncation defect fixed by d6a4472). A third of the "
               "lattice cases run after the same algorithm object scheduled on a perturbed, then reconfigured, infrastructure "
               "(history independence); a quarter call schedule() with caller-built SessionInfo objects.")
CHECKS["C07"] = dict(
    text="SortedAlgo.tla models the sorting-based schedulers as a state machine (Preprocess, MinRate, Sort, ServeGreedy, "
         "RRStep, Uncontrolled) with exact feasibility (limb arithmetic, the 1e-5 A tolerance included). TLC checks "
         "OutputFeasible, LevelsAllowed, WithinDemand, WithinEstimatorOrMin, ZeroForInactive, NeverValueError in every "
         "state of every scheduler run of the lattice (infrastructures x session profiles x option records). Every "
         "emitted case is executed through a real ChargingNetwork + Simulator + Interface with the real algorithm and "
         "compared exactly, step transcript included; continuous bisection results and every scheduler invocation of "
         "closed-loop Simulator.run() on generated three-phase networks are re-executed and judged by TLC "
         "(SortedAlgoTrace.tla); the runs are also watched for infeasible-schedule warnings, InvalidRateError and "
         "energy above the request. Rampdown.tla models how SimpleRampdown computes and carries the estimator's bound across "
         "invocations (down/up/hold rules, preprocessing on top, grant <= max(bound, minimum pilot)); its behaviours are "
         "replayed through real schedulers and real closed-loop simulations are validated by RampdownTrace.tla.",
    tech="TLA+ specs (SortedAlgo.tla, Rampdown.tla) + TLC invariants/action properties + spec-to-code case replay + "
         "code-to-spec batch trace validation",
    ref="5/C07", note=SORTED_NOTE)
CHECKS["C08"] = dict(
    text="On SortedAlgo.tla TLC checks GreedyMaximal (defined independently on the final schedule: higher-priority "
         "sessions at their final pilots, lower-priority ones at their lower bounds, no larger admissible level or r+eps "
         "feasible), QueueSorted, ServedInOrder, RRStopsOnlyWhenBlocked (re-evaluated on recorded intermediate "
         "schedules), RROneLevelAtATime and UncontrolledExact; sort keys are compared by cross-multiplication with "
         "unequal max pilots, voltages and periods. Same binding as C07: every lattice case through the real classes, "
         "step transcripts compared, continuous results judged by TLC.",
    tech="TLA+ spec (SortedAlgo.tla) + TLC invariants/action property + spec-to-code case replay + code-to-spec validation",
    ref="5/C08", note=SORTED_NOTE)

NOT_APPLICABLE = []


def build():
    props = [json.loads(l)["id"] for l in open(os.path.join(VERIF, "properties.jsonl"))]
    checks = []
    for pid in props:
        if pid not in CHECKS:
            continue
        c = CHECKS[pid]
        checks.append({
            "property_id": pid,
            "quick_cmd": "./check %s --tier quick" % pid,
            "thorough_cmd": "./check %s --tier thorough" % pid,
            "evidence_file": "/verif/evidence/%s.json" % pid,
            "replay_cmd_template": "./check %s --replay {path}" % pid,
            "engine": c.get("engine", "tlc+replay"),
            "level_claimed": {"category": c.get("level", MC), "text": c["text"], "design_ref": c["ref"]},
            "level_note": c["note"],
            "technique": c["tech"],
        })
    try:
        commits = subprocess.check_output(
            ["git", "-C", "/repo", "log", "--format=%h %s", "--grep=^hook:"], text=True).strip().splitlines()
    except Exception:
        commits = []
    na = [n for n in NOT_APPLICABLE]
    claimed = {c["property_id"] for c in checks}
    for pid in props:
        if pid not in claimed and pid not in {n["property_id"] for n in na}:
            na.append({"property_id": pid, "reason": "check not built yet in this session (planned; see DESIGN.md section 5)"})
    return {
        "version": 1,
        "setup_cmd": "./setup.sh",
        "hooks": {
            "guard": "ACNPORTAL_VERIF",
            "enable": "export ACNPORTAL_VERIF=1 (set by ./check); Python is imported from /repo's working tree on every run, nothing is built",
            "baseline_off_cmd": "cd /repo && env -u ACNPORTAL_VERIF /venv/bin/python -m pytest -ra -q -p no:cacheprovider --timeout=900 --continue-on-collection-errors",
            "source_commits": [c.split()[0] for c in commits],
            "add_only": True,
        },
        "engines": [
            {"name": "tlc+replay", "path": "/verif/harness", "serves_properties": sorted(claimed),
             "kind_free_text": "TLA+ specifications in /verif/spec checked by TLC; behaviours/cases emitted by TLC are "
                               "replayed through the real acnportal classes, and traces of the real code are validated "
                               "by TLC against trace specifications"}],
        "checks": checks,
        "not_applicable": na,
        "notes": "See DESIGN.md. known_findings.json lists repaired defects (fixed) and open findings.",
    }


if __name__ == "__main__":
    m = build()
    with open(os.path.join(VERIF, "MANIFEST.json"), "w") as fh:
        json.dump(m, fh, indent=1)
    print("MANIFEST.json: %d checks, %d not_applicable" % (len(m["checks"]), len(m["not_applicable"])))
