"""C07, C08: the sorting-based schedulers (greedy, round robin, uncontrolled) against SortedAlgo.tla.

spec -> code (B): every case TLC evaluates (infrastructure x sessions x options, one per complete
  behaviour of SortedAlgo.tla) is built with the real classes - ChargingNetwork, EVSEs, EVs, a Simulator
  and its Interface, the real algorithm registered as the simulator's scheduler - and algorithm.run()
  is compared with the specification: the schedule exactly (finite-rate, round robin, uncontrolled,
  continuous grants that hit their bound) and the step transcript (order in which sessions are served,
  the schedule each search starts from, every round-robin attempt and its verdict).
code -> spec (C): schedules the specification does not fix (continuous bisection results), every
  schedule that differs from the specification, and every scheduler invocation of closed-loop
  simulations (real Simulator.run() under the real algorithms on generated three-phase networks) are
  written as one line each and validated by TLC with SortedAlgoTrace.tla, which re-executes the
  invocation with the actions of SortedAlgo.tla and judges the observed schedule with exact feasibility.

Units of the specification: current 1e-5 A, remaining demand 1e-5 amp-periods.
"""
import json
import os
import random
import threading
import time
import warnings
from concurrent.futures import ProcessPoolExecutor, ThreadPoolExecutor
from datetime import datetime

from .common import Report, jhash
from .tlc import run_tlc, require_ok, TlcFailure

U = 100000.0
MOD = "props_sortedalgo"
SORT_FN = {"fcfs": "first_come_first_served", "lcfs": "last_come_first_served",
           "edf": "earliest_deadline_first", "llf": "least_laxity_first",
           "lrpt": "largest_remaining_processing_time"}
WORKERS = int(os.environ.get("VERIF_WORKERS", "4"))                    # quick tier and development
WORKERS_T = int(os.environ.get("VERIF_WORKERS_THOROUGH", "8"))         # thorough tier
# every TLC process gets a bounded heap (the JVM default of a quarter of the RAM per process is not
# affordable when a dozen single-worker processes run side by side)
JVM_SMALL = {"JAVA_TOOL_OPTIONS": "-Xmx2g"}
JVM_MC = {"JAVA_TOOL_OPTIONS": "-Xmx6g"}
C07_PREDICATES = ("OutputFeasible", "LevelsAllowed", "WithinDemand", "WithinEstimatorOrMin", "ZeroForInactive")


def close(x, y, tol=1e-9):
    return abs(float(x) - float(y)) <= tol * max(1.0, abs(float(y)))


def station_id(i):
    return "ST-%d" % (i + 1)


def session_id(i, s):
    # never equal to a station id, and not derivable from it by the code under test
    return "ses-%d-arr%d" % (7 * (i + 1) + 3, s["arr"])


# ---------------------------------------------------------------------------------- real objects
def _num(x, ints):
    """x (in spec units) as the number a user would write: a Python int where it is whole and `ints` is on."""
    v = x / U
    return int(round(v)) if ints and float(v).is_integer() else v


def build_network(net, ints=False):
    """ints: whole-valued rates, levels and limits are written as Python ints (32 instead of 32.0) - the values are
    the same, so the specification's answer is."""
    from acnportal.acnsim import ChargingNetwork, Current
    from acnportal.acnsim.models import EVSE, FiniteRatesEVSE
    n = ChargingNetwork()
    for i, st in enumerate(net["st"]):
        if st["kind"] == "fin":
            evse = FiniteRatesEVSE(station_id(i), [_num(l, ints) for l in st["lv"]])
        else:
            evse = EVSE(station_id(i), max_rate=_num(st["max"], ints), min_rate=0)
        n.register_evse(evse, st["volt"], st["ang"])
    for k, c in enumerate(net["con"]):
        n.add_constraint(Current({station_id(i): cf for i, cf in enumerate(c["coef"]) if cf != 0}),
                         _num(c["lim"], ints), "con-%d" % k)
    return n


def _fixed_estimator(bounds):
    from acnportal.algorithms import UpperBoundEstimatorBase

    class FixedEstimator(UpperBoundEstimatorBase):
        """An estimator as documented: a dictionary mapping session ids to maximum rates."""

        def get_maximum_rates(self, sessions):
            return dict(bounds)

    return FixedEstimator()


def make_algorithm(opt, bounds=None, estimator=None):
    from acnportal import algorithms as alg
    if opt["algo"] == "unc":
        return alg.UncontrolledCharging()
    sort_fn = getattr(alg, SORT_FN[opt["sort"]])
    if opt["est"] and estimator is None:
        estimator = _fixed_estimator(bounds or {})
    kw = dict(estimate_max_rate=bool(opt["est"]), max_rate_estimator=estimator if opt["est"] else None,
              uninterrupted_charging=bool(opt["unint"]))
    if opt["algo"] == "greedy":
        return alg.SortedSchedulingAlgo(sort_fn, **kw)
    return alg.RoundRobin(sort_fn, continuous_inc=opt["inc"] / U, **kw)


def build_case(case):
    """Real network + simulator (at period `now`) + interface + registered algorithm for one case."""
    from acnportal.acnsim import Simulator, EventQueue
    from acnportal.acnsim.models import EV, Battery
    net, ses, opt = case["net"], case["ses"], case["opt"]
    bounds = {session_id(i, s): s["est"] / U for i, s in enumerate(ses) if s["on"] and s["est"] >= 0}
    algo = make_algorithm(opt, bounds)
    network = build_network(net, ints=int(jhash({"ints": case_id(case)})[:4], 16) % 2 == 0)
    sim = Simulator(network, algo, EventQueue(), datetime(2020, 1, 1), period=net["T"], verbose=False)
    sim._iteration = opt["now"]  # the only private access: the invocation happens in period `now`
    for i, s in enumerate(ses):
        if not s["on"]:
            continue
        v = net["st"][i]["volt"]
        req = (s["rem"] + s["dlv"]) / U * v * net["T"] / 60000.0  # kWh
        ev = EV(s["arr"], s["dep"], req, station_id(i), session_id(i, s), Battery(1000, 0, 1000),
                estimated_departure=s["edep"])
        network.plugin(ev)
        if s["dlv"] > 0:  # a partially served session: deliver through the public charging path
            ev.charge(s["dlv"] / U, v, net["T"])
    return sim, algo


class _Recorder:
    """Observes the allocation loops without touching the repository: the feasibility tests of
    round_robin (module global of sorted_algorithms) and the two search routines of the greedy loop."""

    def __init__(self, algo):
        import acnportal.algorithms.sorted_algorithms as sa
        self.sa, self.algo = sa, algo
        self.tests, self.searches = [], []
        self._orig = sa.infrastructure_constraints_feasible

    def __enter__(self):
        orig = self._orig

        def feasible(rates, infrastructure, *a, **k):
            r = orig(rates, infrastructure, *a, **k)
            self.tests.append(([float(x) for x in rates], bool(r)))
            return r

        self.sa.infrastructure_constraints_feasible = feasible
        if hasattr(self.algo, "max_feasible_rate"):
            cls = type(self.algo)

            def cont(station_index, ub, schedule, infrastructure, eps=0.0001, lb=0.0):
                r = cls.max_feasible_rate(station_index, ub, schedule, infrastructure, eps=eps, lb=lb)
                self.searches.append((int(station_index), [float(x) for x in schedule], float(r), float(eps)))
                return r

            def disc(station_index, allowable_pilots, schedule, infrastructure):
                r = cls.discrete_max_feasible_rate(station_index, allowable_pilots, schedule, infrastructure)
                self.searches.append((int(station_index), [float(x) for x in schedule], float(r), None))
                return r

            self.algo.max_feasible_rate = cont
            self.algo.discrete_max_feasible_rate = disc
        return self

    def __exit__(self, *exc):
        self.sa.infrastructure_constraints_feasible = self._orig
        for name in ("max_feasible_rate", "discrete_max_feasible_rate"):
            self.algo.__dict__.pop(name, None)
        return False


def _con_current(c):
    from acnportal.acnsim import Current
    return Current({station_id(i): cf for i, cf in enumerate(c["coef"]) if cf != 0})


def warm_up(case, sim, algo):
    """History independence: the algorithm object has already scheduled once for the same stations and
    sessions under a *different* infrastructure (every limit scaled, one extra tight constraint), which
    is then reconfigured through the network's public API (update_constraint / remove_constraint) into
    the case's infrastructure.  SortedAlgo.tla defines the result as a function of the infrastructure
    and the sessions at the invocation, so nothing of the earlier call may show in the later one."""
    net = case["net"]
    network = sim.network
    h = int(case_id(case)[:6], 16)
    scale = [0.5, 3.0, 0.25][h % 3]
    for k, c in enumerate(net["con"]):
        network.update_constraint("con-%d" % k, _con_current(c), c["lim"] / U * scale)
    extra = None
    if (h >> 2) % 2:
        from acnportal.acnsim import Current
        extra = "warm-extra"
        network.add_constraint(Current([station_id(i) for i in range(len(net["st"]))]), 1.0, extra)
    try:
        algo.run()
    except Exception:  # noqa  (the perturbed infrastructure may defeat e.g. the minimum-rate step; not this case's business)
        pass
    if extra:
        network.remove_constraint(extra)
    for k, c in enumerate(net["con"]):
        network.update_constraint("con-%d" % k, _con_current(c), c["lim"] / U)


def call_form(case):
    """How the algorithm is invoked: run() (sessions fetched through the Interface), or schedule() with
    sessions the caller built itself - bounds as lists, or as ndarrays that sessions with the same
    remaining time SHARE (a caller may well build them from one array).  The specification's result
    depends on the values only."""
    if case["opt"]["algo"] == "unc":
        return "run"
    return ("run", "run", "schedule-lists", "schedule-shared")[int(case_id(case)[10:13], 16) % 4]


def call_algorithm(case, sim, algo):
    form = call_form(case)
    if form == "run":
        return algo.run()
    import numpy as np
    from acnportal.acnsim.interface import SessionInfo
    shared = {}
    hand = []
    for x in algo.interface.active_sessions():
        rt = x.remaining_time
        if form == "schedule-lists":
            lo, hi = [0] * rt, [float("inf")] * rt
        else:
            lo, hi = shared.setdefault(rt, (np.zeros(rt), np.full(rt, np.inf)))
        hand.append(SessionInfo(x.station_id, x.session_id, x.requested_energy, x.energy_delivered, x.arrival,
                                x.departure, x.estimated_departure, x.current_time, min_rates=lo, max_rates=hi))
    return algo.schedule(hand)


def is_warm(case):
    return int(case_id(case)[6:10], 16) % 3 == 0


def run_case(case):
    """algorithm.run() on the real objects. -> {"out": [A per station], "keys", "tests", "searches"} or {"exc"}."""
    with warnings.catch_warnings():
        warnings.simplefilter("ignore")
        sim, algo = build_case(case)
        n = len(case["net"]["st"])
        try:
            if is_warm(case):
                warm_up(case, sim, algo)
        except Exception as e:  # noqa
            return {"exc": "reconfiguring the network: %s: %s" % (type(e).__name__, str(e)[:200])}
        try:
            with _Recorder(algo) as rec:
                sched = call_algorithm(case, sim, algo)
        except Exception as e:  # noqa
            return {"exc": "%s: %s" % (type(e).__name__, str(e)[:200])}
        bad = [k for k in sched if k not in [station_id(i) for i in range(n)]]
        if bad:
            return {"exc": "UnknownStation: %r" % bad}
        for k, v in sched.items():
            if len(v) != 1:
                return {"exc": "ScheduleLength: %s -> %d entries" % (k, len(v))}
        out = [float(sched[station_id(i)][0]) if station_id(i) in sched else 0.0 for i in range(n)]
        return {"out": out, "keys": sorted(sched), "tests": rec.tests, "searches": rec.searches}


# ---------------------------------------------------------------------------------- comparison (B)
def case_id(case):
    return jhash({"net": case["net"], "ses": case["ses"], "opt": case["opt"]})


def compare_exact(case, res):
    """The implementation against one fully determined behaviour of the specification."""
    n = len(case["net"]["st"])
    if "exc" in res:
        return {"field": "exception", "spec": case["end"], "impl": res["exc"]}
    if case["end"] == "error":
        return {"field": "exception", "spec": "ValueError", "impl": "returned %r" % res["out"]}
    spec = [p / U for p in case["pilot"]]
    opt = case["opt"]
    if opt["algo"] == "unc":
        want = sorted(station_id(i) for i in range(n) if case["active"][i])
        if res["keys"] != want:
            return {"field": "unc:stations", "spec": want, "impl": res["keys"]}
    for i in range(n):
        if not close(res["out"][i], spec[i]):
            return {"field": "schedule", "station": i + 1, "spec": spec, "impl": res["out"]}
    steps = case["steps"]
    if opt["algo"] == "rr":
        cur = None
        calls = res["tests"]
        k = 0
        for st in steps:
            if st["a"] == "sort":
                cur = [p / U for p in st["start"]]
                if k >= len(calls) or not all(close(a, b) for a, b in zip(calls[k][0], cur)) or not calls[k][1]:
                    return {"field": "rr:transcript", "at": "start", "spec": cur, "impl": calls[k] if k < len(calls) else None}
                k += 1
            elif st["a"] == "try" and st["lv"] >= 0:
                want = list(cur)
                want[st["st"] - 1] = st["lv"] / U
                if k >= len(calls) or not all(close(a, b) for a, b in zip(calls[k][0], want)) or calls[k][1] != st["ok"]:
                    return {"field": "rr:transcript", "at": k, "spec": [want, st["ok"]],
                            "impl": calls[k] if k < len(calls) else None}
                if st["ok"]:
                    cur = want
                k += 1
        if cur is not None and k != len(calls):
            return {"field": "rr:transcript", "at": "length", "spec": k, "impl": len(calls)}
    if opt["algo"] == "greedy":
        grants = [s for s in steps if s["a"] == "grant" and s["nc"] != 0]
        if len(grants) != len(res["searches"]):
            return {"field": "greedy:order", "spec": [g["st"] for g in grants], "impl": [s[0] + 1 for s in res["searches"]]}
        for g, (idx, pre, r, eps) in zip(grants, res["searches"]):
            if idx + 1 != g["st"] or not all(close(a, b / U) for a, b in zip(pre, g["pre"])) or not close(r, g["r"] / U):
                return {"field": "greedy:order", "spec": g, "impl": [idx + 1, pre, r]}
            if eps is not None and not close(eps, 0.01):
                return {"field": "greedy:eps", "spec": 0.01, "impl": eps}
    return None


def float_decisive(case):
    """Decisions only floating point can take differently are excluded (counted as non-decisive):
    a continuous round-robin level that coincides with a non-integer bound (k*inc in floats vs the bound)."""
    if not case.get("dec", True):
        return False
    opt = case["opt"]
    if opt["algo"] == "rr":
        for i, st in enumerate(case["net"]["st"]):
            s = case["ses"][i]
            if st["kind"] == "cont" and s["on"]:
                top = min(case["ub"][i], st["max"], s["rem"])
                if top > 0 and (top - case["lb"][i]) % opt["inc"] == 0 and top % int(U) != 0:
                    return False
    return True


def trace_line(case, out, tid):
    opt = dict(case["opt"])
    opt["tid"] = tid
    return {"net": case["net"], "ses": case["ses"], "opt": opt, "obs": [int(round(x * U)) for x in out]}


def _replay_worker(group):
    """group = the behaviours of one case (several when continuous grants branch). Returns
    (case, res, mismatch or None, needs_trace)."""
    case = group[0]
    res = run_case(case)
    if len(group) == 1 or "exc" in res:
        d = compare_exact(case, res)
        return case, res, d, (d is not None and "out" in res)
    return case, res, None, True


# ---------------------------------------------------------------------------------- validation (C)
def validate_lines(lines, procs=WORKERS, rep=None, what="trace validation"):
    """Batch validation by TLC. lines: dicts with opt.tid = 1..n (renumbered per batch here).
    Returns {original index -> verdict dict}."""
    if not lines:
        return {}
    procs = max(1, min(procs, (len(lines) + 499) // 500))
    batches = [[] for _ in range(procs)]
    for k, ln in enumerate(lines):
        batches[k % procs].append((k, ln))
    out, errs, stats = {}, [], []
    lock = threading.Lock()

    def one(batch):
        try:
            txt = []
            for j, (k, ln) in enumerate(batch):
                ln = dict(ln)
                ln["opt"] = dict(ln["opt"], tid=j + 1)
                txt.append(json.dumps(ln))
            res = run_tlc("SortedAlgoTrace", "SortedAlgo_trace", workers=1, tags=("TRC",), timeout=3000, env_extra=JVM_SMALL,
                          extra_files={"SortedAlgo_trace.ndjson": "\n".join(txt) + "\n"})
            require_ok(res, what)
            with lock:
                stats.append(res)
                for v in res.emitted.get("TRC", []):
                    out[batch[v["tid"] - 1][0]] = v
        except Exception as e:  # noqa
            errs.append(e)

    ths = [threading.Thread(target=one, args=(b,)) for b in batches if b]
    [t.start() for t in ths]
    [t.join() for t in ths]
    if errs:
        raise errs[0]
    if len(out) != len(lines):
        raise TlcFailure("%s: %d of %d lines received no verdict" % (what, len(lines) - len(out), len(lines)))
    if rep is not None:
        for r in stats:
            rep.add_tlc(r, what + " (SortedAlgoTrace.tla, %d batches)" % len(stats), "SortedAlgo_trace")
    return out


def replay_case(case):
    """./check --replay: one recorded case (lattice case or closed-loop simulation) against the current tree."""
    if case.get("kind") == "sim":
        lines, direct, _ = run_simulation(case["sim"])
        if direct:
            return direct[0]
        vs = validate_lines(lines, procs=1)
        for k in sorted(vs):
            d = judge(vs[k], lines[k], closed_loop=True)
            if d:
                return d
        return None
    res = run_case(case)
    if "exc" in res:
        return compare_exact(case, res)
    line = trace_line(case, res["out"], 1)
    return judge(validate_lines([line], procs=1)[0], line, closed_loop=False)


def judge(v, line, closed_loop):
    """A TLC verdict -> None or a mismatch description."""
    if v["fails"]:
        return {"field": "safety", "fails": sorted(v["fails"]), "verdict": v["verdict"], "decisive": v["dec"],
                "spec_pilot": v["pilot"], "impl": None if line is None else line["obs"]}
    if v["end"] == "error":
        return {"field": "spec-raises", "verdict": "lower bounds infeasible in the specification", "decisive": v["dec"]}
    if v["end"] == "reject" and v["dec"]:
        return {"field": "functional", "verdict": v["verdict"], "decisive": True, "spec_pilot": v["pilot"],
                "impl": None if line is None else line["obs"]}
    return None


# ---------------------------------------------------------------------------------- generation
def generate(cfg, parts, rep, what, par=WORKERS):
    """Emit every case of a lattice. parts: list of override dicts, run as single-worker TLC processes
    (PrintT output of several workers of one process would interleave), at most `par` at a time."""
    out, stats = [], []
    lock = threading.Lock()

    def one(ov):
        res = run_tlc("MC_SortedAlgo", cfg, workers=1, overrides=ov, timeout=3000, env_extra=JVM_SMALL)
        require_ok(res, what)
        with lock:
            stats.append(res)
            out.extend(res.emitted.get("BHV", []))

    with ThreadPoolExecutor(max_workers=par) as ex:
        for f in [ex.submit(one, ov) for ov in parts]:
            f.result()
    for r in stats:
        rep.add_tlc(r, what, cfg)
    groups = {}
    for b in out:
        groups.setdefault(case_id(b), []).append(b)
    return [groups[k] for k in sorted(groups)]


CLASSES = {
    "min-rate refused": lambda c: any(s["a"] == "min" and not s["ok"] for s in c["steps"]),
    "min-rate granted": lambda c: any(s["a"] == "min" and s["ok"] for s in c["steps"]),
    "finished session removed": lambda c: any(a and (i + 1) not in c["actv"] for i, a in enumerate(c["active"])) and c["opt"]["algo"] != "unc",
    "fully charged session plugged": lambda c: any(s["on"] and not a for s, a in zip(c["ses"], c["active"])),
    "network-limited finite grant": lambda c: any(s["a"] == "grant" and s["nc"] > 0 and s["r"] < min(c["ub"][s["st"] - 1], c["ses"][s["st"] - 1]["rem"]) for s in c["steps"]),
    "network-limited continuous grant": lambda c: any(s["a"] == "grant" and s["nc"] == -1 and s["r"] < min(c["ub"][s["st"] - 1], c["ses"][s["st"] - 1]["rem"]) for s in c["steps"]),
    "demand-limited grant": lambda c: any(s["a"] == "grant" and s["r"] == c["ses"][s["st"] - 1]["rem"] for s in c["steps"]),
    "round-robin increment refused": lambda c: any(s["a"] == "try" and s["lv"] >= 0 and not s["ok"] for s in c["steps"]),
    "round-robin out of levels": lambda c: any(s["a"] == "try" and s["lv"] < 0 for s in c["steps"]),
    "uncontrolled": lambda c: c["opt"]["algo"] == "unc",
}
CLASSES_EST = {
    "estimator bound binds": lambda c: c["opt"]["est"] and any(s["on"] and 0 <= s["est"] == p for s, p in zip(c["ses"], c["pilot"])),
    "estimator bound below minimum pilot": lambda c: c["opt"]["est"] and c["opt"]["unint"] and any(
        s["on"] and 0 <= s["est"] < p for s, p in zip(c["ses"], c["pilot"])),
}


def require_classes(groups, classes, rep):
    """Vacuity guard: the lattice must contain every situation the checks claim to cover."""
    seen = {k: 0 for k in classes}
    for g in groups:
        for k, f in classes.items():
            if f(g[0]):
                seen[k] += 1
    rep.bounds["situations_covered"] = seen
    missing = [k for k, n in seen.items() if n == 0]
    if missing:
        raise RuntimeError("vacuous lattice: no case with %s" % ", ".join(missing))


def selftest_lines(groups):
    """Binding self-test: the specification's own schedule for a case with a network-limited continuous
    grant must be accepted, and the same schedule with that grant moved by +-0.05 A must be rejected."""
    for g in groups:
        if len(g) < 2 or g[0]["opt"]["algo"] != "greedy":
            continue
        c = g[0]
        for st in c["steps"]:
            if st["a"] == "grant" and st["nc"] == -1:
                i = st["st"] - 1
                top = min(c["ub"][i], c["ses"][i]["rem"])
                if c["lb"][i] + 20000 < st["r"] < top - 20000 and c["pilot"][i] == st["r"]:
                    ok = trace_line(c, [p / U for p in c["pilot"]], 0)
                    hi, lo = json.loads(json.dumps(ok)), json.loads(json.dumps(ok))
                    hi["obs"][i] += 5000
                    lo["obs"][i] -= 5000
                    return [(ok, "done"), (hi, "reject"), (lo, "reject")]
    return []


def check_selftest(tests, verdicts, offset):
    for k, (ln, want) in enumerate(tests):
        v = verdicts[offset + k]
        if v["end"] != want:
            raise RuntimeError("binding self-test failed: line %d expected %s, TLC says %s / %s" % (k, want, v["end"], v["verdict"]))


def nontrivial(case):
    """At least two active sessions and the network (or a refused minimum rate) limits somebody."""
    n = len(case["net"]["st"])
    act = [i for i in range(n) if case["active"][i]]
    if len(act) < 2:
        return False
    if case["opt"]["algo"] == "unc":
        return True
    for i in case["actv"]:
        top = min(case["ub"][i - 1], case["ses"][i - 1]["rem"])
        if case["pilot"][i - 1] < top:
            return True
    return False


def replay_lattice(groups, rep, prop, par=WORKERS):
    """Run every case through the real code; exact comparison where the specification is deterministic.
    Returns (lines, meta): the observed schedules TLC has to judge (continuous grants, disagreements)."""
    lines, meta = [], []
    with ProcessPoolExecutor(par) as ex:
        for case, res, d, needs_trace in ex.map(_replay_worker, groups, chunksize=64):
            rep.replayed += 1
            rep.count(case_id(case), nontrivial(case))
            if not float_decisive(case):
                rep.non_decisive += 1
                continue
            if "exc" in res:
                rep.violation("%s:exception:%s" % (prop, res["exc"].split(":")[0]), json.dumps(d)[:400],
                              {"kind": "case", "module": MOD, "case": case, "mismatch": d})
                continue
            if needs_trace:
                lines.append(trace_line(case, res["out"], len(lines) + 1))
                meta.append((case, d))
    return lines, meta


def settle_lattice(lines, meta, verdicts, rep, prop, own_fields):
    """Turn TLC's verdicts on the observed schedules of lattice cases into violations of `prop`."""
    for k, (case, d) in enumerate(meta):
        v = verdicts[k]
        rep.traces_accepted += 1 if (v["end"] == "done" and not v["fails"]) else 0
        opt = case["opt"]
        where = "algo=%s sort=%s unint=%s est=%s inc=%s net=%s: observed %s, specification %s (%s)" % (
            opt["algo"], opt["sort"], opt["unint"], opt["est"], opt["inc"], case["net"]["id"], lines[k]["obs"], v["pilot"], v["verdict"])
        payload = {"kind": "case", "module": MOD, "case": case, "mismatch": judge(v, lines[k], False) or d}
        functional = (v["end"] == "reject") or (d is not None and d["field"] == "schedule")
        if prop == "C07":
            for f in sorted(v["fails"]):
                rep.violation("C07:%s" % f, where, payload)
            if not v["fails"] and v["end"] == "error":
                rep.violation("C07:lower-bounds-infeasible", where, payload)
            elif not v["fails"] and functional and v["dec"]:
                rep.foreign_divergence("C08")
            continue
        # C08
        if functional and not v["dec"]:
            rep.non_decisive += 1
        elif functional:
            if v["fails"] and set(v["fails"]) <= {"WithinEstimatorOrMin"}:
                rep.foreign_divergence("C07")
            else:
                rep.violation("C08:%s" % (v["verdict"] if v["end"] == "reject" else opt["algo"] + ":schedule"), where, payload)
        elif d is not None and d["field"] in own_fields:
            # the schedule agrees, the way it was reached does not
            rep.violation("C08:%s" % d["field"], json.dumps(d, default=repr)[:400], payload)


# ---------------------------------------------------------------------------------- closed loop
LEVEL_SETS = ([0, 8, 16, 24, 32], [0, 6, 12, 18, 24, 30], [0] + list(range(6, 33)), [0, 6, 8, 10, 13, 16], [0, 7.5, 15, 22.5, 30])
ANGLES = (30, -90, 150)


def gen_simulation(rng, idx):
    """Parameters of one closed-loop simulation (JSON-serialisable, so a failing one can be replayed)."""
    n = rng.choice([3, 4, 4, 5, 6])
    stations = []
    for i in range(n):
        ang = ANGLES[i % 3] if i < 3 else rng.choice(ANGLES)
        if rng.random() < 0.5:
            stations.append({"kind": "fin", "lv": [int(a * U) for a in rng.choice(LEVEL_SETS)], "max": 0, "volt": 208, "ang": ang})
        else:
            stations.append({"kind": "cont", "lv": [], "max": int(rng.choice([16, 32, 32, 40]) * U), "volt": 208, "ang": ang})
    leg = {a: [i for i in range(n) if stations[i]["ang"] == a] for a in ANGLES}
    cons = []
    # line currents of a delta connection: differences of two legs (mixed signs), limits that bind
    for a, b in ((30, 150), (-90, 30), (150, -90)):
        coef = [1 if i in leg[a] else (-1 if i in leg[b] else 0) for i in range(n)]
        cons.append({"coef": coef, "lim": int(rng.choice([20.037, 28.5, 36.25, 48.0, 60.125]) * U)})
    if rng.random() < 0.7:  # aggregate over all stations (phasor sum)
        cons.append({"coef": [1] * n, "lim": int(rng.choice([18.037, 25.5, 40.25]) * U)})
    fins = [i for i in range(n) if stations[i]["kind"] == "fin"]
    if len(fins) >= 2 and rng.random() < 0.6:  # so tight that two minimum pilots do not fit together
        two = rng.sample(fins, 2)
        sign = rng.choice([1, 1, -1]) if stations[two[0]]["ang"] != stations[two[1]]["ang"] else 1
        cons.append({"coef": [1 if i == two[0] else (sign if i == two[1] else 0) for i in range(n)],
                     "lim": int(rng.choice([9.037, 11.5, 13.037]) * U)})
    if n >= 4 and rng.random() < 0.7:  # a pod with a transformer-like weight
        pod = rng.sample(range(n), 2)
        cons.append({"coef": [2 if i in pod else 0 for i in range(n)], "lim": int(rng.choice([50.037, 64.5, 80.0]) * U)})
    period = rng.choice([5, 5, 10])
    horizon = rng.choice([24, 30, 36])
    arrs = rng.sample(range(0, horizon - 6), min(horizon - 6, 2 * n + 2))
    edeps = rng.sample(range(2, horizon + 10), len(arrs))
    sessions, free = [], [0] * n
    for k, a in enumerate(sorted(arrs)):
        cand = [i for i in range(n) if free[i] <= a]
        if not cand:
            continue
        i = rng.choice(cand)
        dur = rng.randint(2, 12)
        free[i] = a + dur
        kwh = round(rng.choice([0.3, 0.8, 1.5, 2.5, 4.0, 7.0]) * rng.uniform(0.8, 1.2), 3)
        ed = edeps[k] if edeps[k] > a else a + dur + k % 3  # distinct in almost all cases; ties are flagged by TLC
        batt = rng.choice([{"k": "ideal", "pw": 100.0}, {"k": "ideal", "pw": 3.3}, {"k": "ideal", "pw": 5.0},
                           {"k": "2stage", "pw": 6.6}])
        sessions.append({"st": i, "arr": a, "dep": a + dur, "edep": ed, "kwh": kwh, "batt": batt, "id": "sess-%03d-%d" % (idx, k)})
    algo = rng.choice(["greedy", "greedy", "rr"])
    opt = {"algo": algo, "sort": rng.choice(sorted(SORT_FN)), "unint": rng.random() < 0.5, "est": rng.random() < 0.5,
           "inc": int(rng.choice([0.5, 1.0, 2.0]) * U) if algo == "rr" else 0}
    # the documented attribute max_recompute of the algorithm (the simulator re-invokes it at least that often): with a
    # cadence of 3 a one-period schedule covers one period in three - less energy, never more than requested
    return {"idx": idx, "T": period, "st": stations, "con": cons, "sessions": sessions, "opt": opt, "mr": rng.choice([1, 1, 3])}


def run_simulation(p):
    """Real Simulator.run() under the real algorithm; every scheduler invocation is recorded.
    -> (trace lines, direct violations [mismatch dicts], number of invocations)."""
    from acnportal.acnsim import Simulator, EventQueue, PluginEvent
    from acnportal.acnsim.models import EV, Battery, Linear2StageBattery, InvalidRateError
    from acnportal.algorithms import SimpleRampdown
    net = {"id": "sim-%d" % p["idx"], "T": p["T"], "st": p["st"], "con": p["con"]}
    opt = p["opt"]
    n = len(net["st"])
    lines, direct = [], []
    with warnings.catch_warnings(record=True) as wlist:
        warnings.simplefilter("always")
        network = build_network(net)
        estimator = SimpleRampdown() if opt["est"] else None
        algo = make_algorithm(dict(opt), estimator=estimator)
        algo.max_recompute = p.get("mr", 1)
        evs, events = [], []
        for s in p["sessions"]:
            if s["batt"]["k"] == "ideal":
                b = Battery(s["kwh"] + 5.0, 0, s["batt"]["pw"])
            else:
                cap = s["kwh"] / 0.7
                b = Linear2StageBattery(cap, cap * 0.25, s["batt"]["pw"])
            ev = EV(s["arr"], s["dep"], s["kwh"], station_id(s["st"]), s["id"], b, estimated_departure=s["edep"])
            evs.append(ev)
            events.append(PluginEvent(s["arr"], ev))
        sim = Simulator(network, algo, EventQueue(events), datetime(2020, 1, 1), period=p["T"], verbose=False)
        bounds = {}
        if estimator is not None:
            orig_est = estimator.get_maximum_rates

            def get_maximum_rates(sessions):
                r = orig_est(sessions)
                bounds.clear()
                bounds.update({k: float(v) for k, v in r.items()})
                return r

            estimator.get_maximum_rates = get_maximum_rates
        orig_run = algo.run

        def run():
            bounds.clear()
            now = sim.iteration
            ses = []
            for i in range(n):
                ev = network.get_ev(station_id(i))
                if ev is None:
                    ses.append({"on": False, "arr": 0, "dep": 1, "edep": 1, "rem": 0, "dlv": 0, "est": -1, "sid": ""})
                else:
                    rap = (ev.requested_energy - ev.energy_delivered) * 1000.0 / net["st"][i]["volt"] * 60.0 / p["T"]
                    ses.append({"on": True, "arr": int(ev.arrival), "dep": int(ev.departure), "edep": int(ev.estimated_departure),
                                "rem": int(round(rap * U)), "dlv": 0, "est": -1, "sid": ev.session_id})
            sched = orig_run()
            for s in ses:
                if s["on"] and s["sid"] in bounds:
                    s["est"] = int(round(bounds[s["sid"]] * U))
                s.pop("sid")
            out = [float(sched[station_id(i)][0]) if station_id(i) in sched else 0.0 for i in range(n)]
            o = dict(opt, now=int(now), tid=len(lines) + 1)
            lines.append({"net": net, "ses": ses, "opt": o, "obs": [int(round(x * U)) for x in out]})
            return sched

        algo.run = run
        try:
            sim.run()
        except InvalidRateError as e:
            direct.append({"field": "InvalidRateError", "impl": str(e)[:200], "period": sim.iteration})
        except Exception as e:  # noqa
            direct.append({"field": "exception:" + type(e).__name__, "impl": str(e)[:200], "period": sim.iteration})
    for w in wlist:
        if "Invalid schedule provided" in str(w.message):
            direct.append({"field": "infeasible-schedule-warning", "impl": str(w.message)[:200]})
            break
    for ev in evs:
        if ev.energy_delivered > ev.requested_energy + 1e-6:
            direct.append({"field": "over-delivery", "impl": [ev.session_id, ev.energy_delivered, ev.requested_energy]})
            break
    return lines, direct, len(lines)


def _sim_worker(p):
    try:
        return p, run_simulation(p)
    except Exception as e:  # noqa  (machinery)
        return p, ([], [{"field": "machinery", "impl": "%s: %s" % (type(e).__name__, e)}], 0)


def closed_loop(rep, nsims, seed, par=WORKERS):
    """Run the simulations. Returns (lines, owner): every scheduler invocation and the simulation it belongs to."""
    rng = random.Random(seed)
    params = [gen_simulation(rng, k) for k in range(nsims)]
    lines, owner = [], []
    with ProcessPoolExecutor(par) as ex:
        for p, (ls, direct, ninv) in ex.map(_sim_worker, params, chunksize=2):
            rep.count("sim-%d" % p["idx"], ninv > 0, n=1)
            for d in direct:
                if d["field"] == "machinery":
                    raise RuntimeError("closed-loop driver failed: %s" % d["impl"])
                rep.violation("C07:closed-loop:%s" % d["field"].split(":")[0], "%s (simulation %d, %s)" % (d["impl"], p["idx"], p["opt"]),
                              {"kind": "case", "module": MOD, "case": {"kind": "sim", "sim": p}, "mismatch": d})
            for ln in ls:
                lines.append(ln)
                owner.append(p)
    return lines, owner


def settle_closed_loop(lines, owner, verdicts, rep):
    stats = {"simulations": len({p["idx"] for p in owner}), "invocations": len(lines), "matched": 0, "non_decisive": 0,
             "functional_mismatch": 0}
    for k, ln in enumerate(lines):
        v = verdicts[k]
        p = owner[k]
        payload = {"kind": "case", "module": MOD, "case": {"kind": "sim", "sim": p}, "mismatch": judge(v, ln, True)}
        where = "simulation %d period %d %s: observed %s, specification %s (%s)" % (
            p["idx"], ln["opt"]["now"], p["opt"], ln["obs"], v["pilot"], v["verdict"])
        if v["fails"]:
            for f in sorted(v["fails"]):
                rep.violation("C07:closed-loop:%s" % f, where, payload)
        elif v["end"] == "done":
            stats["matched"] += 1
            rep.traces_accepted += 1
        elif not v["dec"]:
            stats["non_decisive"] += 1
            rep.non_decisive += 1
        elif v["end"] == "error":
            rep.violation("C07:closed-loop:lower-bounds-infeasible", where, payload)
        else:
            stats["functional_mismatch"] += 1
            rep.foreign_divergence("C08")
    return stats


# ---------------------------------------------------------------------------------- the checks
MC_ACTIONS = ["Preprocess", "MinRate", "Sort", "ServeGreedy", "RRStep", "Uncontrolled", "Finish"]


def _phase(rep, name):
    now = time.time()
    ph = rep.bounds.setdefault("phase_seconds", {})
    ph[name] = round(now - getattr(rep, "_t_phase", rep.t0), 1)
    rep._t_phase = now


def _lattice(rep, prop, q, par):
    """Model checking + generation for one property and tier. Returns the case groups."""
    tag = prop[1:]
    if q:
        mcs = [({}, "%sQ lattice" % tag)]
        gens = [{"Infras": "<- Infras%sQ" % tag, "Profiles": "<- Prof%sQ" % tag, "Opts": "<- Opts%sQ%d" % (tag, k)} for k in (1, 2)]
        # two sessions with the same departure (they may share bound arrays when the caller builds them)
        gens.append({"Infras": "<- InfrasShare", "Profiles": "<- ProfShare", "Opts": "<- OptsShare"})
        # negative laxities (sessions that cannot finish any more); duplicated constraint rows with different limits
        gens.append({"Infras": "<- InfrasNeg", "Profiles": "<- ProfNeg", "Opts": "<- OptsNeg"})
        if prop == "C08":   # thousands of round-robin steps per case (increment 0.02 A)
            gens.append({"Infras": "<- InfrasRR002", "Profiles": "<- ProfRR002", "Opts": "<- OptsRR002"})
    else:
        mcs = [({"Infras": "<- Infras%sT" % tag, "Profiles": "<- Prof%sT" % tag, "Opts": "<- Opts%sT" % tag}, "three-station infrastructures"),
               ({"Infras": "<- Infras%sN" % tag, "Profiles": "<- Prof%sN" % tag, "Opts": "<- Opts%sT" % tag}, "four-station infrastructures")]
        infs = ["Infras%sT1" % tag, "Infras%sT2" % tag] + (["Infras07N"] if prop == "C07" else ["Infras08N1", "Infras08N2"])
        gens = [{"Infras": "<- " + i, "Profiles": "<- Prof%s%s" % (tag, "N" if "N" in i[6:] else "T"), "Opts": "<- Opts%sT%s" % (tag, f)}
                for i in infs for f in "abcd"]
        gens.append({"Infras": "<- InfrasRR01", "Profiles": "<- ProfRR01", "Opts": "<- OptsRR01"})
        gens.append({"Infras": "<- InfrasNeg", "Profiles": "<- ProfNeg", "Opts": "<- OptsNeg"})
        gens.append({"Infras": "<- InfrasRR002", "Profiles": "<- ProfRR002", "Opts": "<- OptsRR002"})
    what = {"C07": "exhaustive model checking of OutputFeasible, LevelsAllowed, WithinDemand, WithinEstimatorOrMin, ZeroForInactive, "
                   "NeverValueError in every state of every scheduler run",
            "C08": "exhaustive model checking of QueueSorted, ServedInOrder, GreedyMaximal (independent definition), "
                   "RRStopsOnlyWhenBlocked, RROneLevelAtATime, UncontrolledExact"}[prop]
    for ov, name in mcs:
        mc = run_tlc("MC_SortedAlgo", "SortedAlgo_mc" + tag, workers=par, coverage=True, overrides=ov, timeout=3000, env_extra=JVM_MC)
        rep.add_tlc(mc, what + " (" + name + ")", "SortedAlgo_mc" + tag, require_actions=MC_ACTIONS)
        require_ok(mc, "SortedAlgo %s model checking" % prop)
    _phase(rep, "model checking")
    return generate("SortedAlgo_gen", gens, rep, "generation: every case of the lattice emitted by TLC", par=par)


def check_C07(tier, seed):
    rep = Report("C07", tier, seed)
    rep.rule = ("case = infrastructure x assignment of session profiles to stations x (algorithm, sort order, "
                "uninterrupted, estimator, increment), distinct by content; non-trivial = at least two active sessions "
                "and a network constraint (or a refused minimum rate) limits a session; closed-loop: one count per "
                "simulation with at least one scheduler invocation")
    rep.assumptions += [
        "EVSEs are continuous-from-zero (EVSE, min_rate 0) or FiniteRatesEVSE, as the property states; constraint limits <= 100 A "
        "(so the feasibility tolerance is exactly 1e-5 A); phase angles in {30,-90,150} or a single phase",
        "priority keys of simultaneously plugged sessions are distinct (with a margin of 1e-5 amp-periods for laxity / processing time)",
        "lattice demands and limits keep every float threshold decision >= 1e-4 A away from its threshold; exact coincidences "
        "(sum of levels = limit) are kept and decided by the modelled 1e-5 A tolerance",
        "the estimator is any object with the documented contract (dict session_id -> bound); closed loop uses the real SimpleRampdown",
        "the scheduler invocation happens in period `now` of a real Simulator (Simulator._iteration is set directly); partially served "
        "sessions are charged through EV.charge",
    ]
    q = tier == "quick"
    par = WORKERS if q else WORKERS_T
    groups = _lattice(rep, "C07", q, par)
    _phase(rep, "generation")
    require_classes(groups, dict(CLASSES, **CLASSES_EST), rep)
    lines, meta = replay_lattice(groups, rep, "C07", par)
    _phase(rep, "replay through the real classes")
    sim_lines, owner = closed_loop(rep, 40 if q else 1000, seed, par)
    _phase(rep, "closed-loop simulations")
    tests = selftest_lines(groups)
    verdicts = validate_lines(lines + sim_lines + [t[0] for t in tests], procs=par, rep=rep,
                              what="observed schedules (lattice cases, then closed-loop invocations) re-executed and judged by the specification")
    _phase(rep, "trace validation")
    check_selftest(tests, verdicts, len(lines) + len(sim_lines))
    settle_lattice(lines, meta, verdicts, rep, "C07", ())
    st = settle_closed_loop(sim_lines, owner, {k: verdicts[len(lines) + k] for k in range(len(sim_lines))}, rep)
    rep.exhaustive = True
    rep.bounds.update({"cases": len(groups), "cases_judged_by_tlc": len(lines), "closed_loop": st, "binding_selftest_lines": len(tests),
                  "lattice": "Infras07Q x Prof07Q x Opts07Q" if q else "Infras07T x Prof07T x Opts07T + Infras07N x Prof07N x Opts07T + RR01"})
    rep.notes.append("every case of the lattice was replayed through the real classes; %d observed schedules "
                     "(continuous bisection results and schedules differing from the specification) and %d closed-loop "
                     "invocations were re-executed and judged by TLC" % (len(lines), st["invocations"]))
    for g in groups[:: max(1, len(groups) // 3)][:3]:
        rep.sample({k: g[0][k] for k in ("net", "ses", "opt", "pilot", "lb", "ub")})
    # the estimator's bound itself: SimpleRampdown's table across invocations (Rampdown.tla), model-checked, replayed and
    # validated on closed-loop traces
    from .props_rampdown import check_rampdown
    check_rampdown(rep, tier, seed, par)
    return rep.finish()


def check_C08(tier, seed):
    rep = Report("C08", tier, seed)
    rep.rule = ("case = infrastructure x assignment of session profiles to stations x (algorithm, sort order, uninterrupted, "
                "increment), distinct by content; non-trivial = at least two active sessions and a network constraint "
                "(or a refused minimum rate) limits a session")
    rep.assumptions += [
        "priority keys of simultaneously plugged sessions are distinct (the property's scope); margin 1e-5 amp-periods",
        "EVSEs continuous-from-zero or finite-rate; limits <= 100 A; phase angles in {30,-90,150} or a single phase",
        "continuous greedy grants are judged within the bisection accuracy eps = 0.01 A hard-wired in sorting_algorithm "
        "(+1e-4 A margin for a definite non-maximality verdict)",
        "the invocation happens in period `now` of a real Simulator (Simulator._iteration set directly)",
    ]
    q = tier == "quick"
    par = WORKERS if q else WORKERS_T
    groups = _lattice(rep, "C08", q, par)
    _phase(rep, "generation")
    require_classes(groups, {k: f for k, f in CLASSES.items() if "session" not in k}, rep)
    lines, meta = replay_lattice(groups, rep, "C08", par)
    _phase(rep, "replay through the real classes")
    tests = selftest_lines(groups)
    verdicts = validate_lines(lines + [t[0] for t in tests], procs=par, rep=rep,
                              what="observed schedules re-executed and judged by the specification")
    _phase(rep, "trace validation")
    check_selftest(tests, verdicts, len(lines))
    settle_lattice(lines, meta, verdicts, rep, "C08", ("rr:transcript", "greedy:order", "greedy:eps", "unc:stations"))
    rep.exhaustive = True
    rep.bounds.update({"cases": len(groups), "cases_judged_by_tlc": len(lines), "binding_selftest_lines": len(tests),
                  "lattice": "Infras08Q x Prof08Q x Opts08Q" if q else "Infras08T x Prof08T x Opts08T + Infras08N x Prof08N x Opts08T + RR01"})
    rep.notes.append("every case replayed; %d observed schedules judged by TLC (GreedyContAccept for continuous grants)" % len(lines))
    for g in groups[:: max(1, len(groups) // 3)][:3]:
        rep.sample({k: g[0][k] for k in ("net", "ses", "opt", "pilot", "lb", "ub")})
    return rep.finish()
