"""C03 / C14: Battery.tla behaviours replayed through the real Battery, Linear2StageBattery, EV, EVSE, Simulator.

Battery.tla works in ratios of one capacity (CAP fine units).  Every emitted behaviour is mapped to
several physical (capacity kWh, voltage V, period min) triples - the state of charge must not depend
on that choice - and executed

  route A   Battery.charge / Battery.reset directly,
  route B   EVSE.set_pilot -> EV.charge -> Battery.charge on an identical battery carried by a
            connected EV (the "actual rate" the simulator records), EV.reset,
  route S   (uniform-period sequences) a whole Simulator run with a scripted schedule; the
            recorded charging_rates / pilot_signals are what is bounded,

with the spec's noise draw injected by patching numpy.random.normal (as the repository's tests do).
After every call the C03 bounds are evaluated on the implementation's own numbers and the
implementation state is compared with the spec bracket [lo, hi] (lo = hi for the exact laws).
For C14 the spec also emits, for every visited state, its answer to every probe call (pilot,
duration); each probe is run on a copy of the real battery and the period-splitting, monotonicity
and zero-pilot identities are evaluated on the implementation directly (float precision, not
bracket width).

BatteryTrace.tla is the other direction: calls of the real classes with real numpy noise and
off-lattice random parameters are logged with outward rounding and TLC validates every logged call
against the physical envelope InEnvelope of Battery.tla.
"""
import copy
import json
import math
import os
import random
import warnings
from concurrent.futures import ThreadPoolExecutor
from datetime import datetime
from unittest.mock import patch

from .common import Report, jhash
from .tlc import run_tlc, require_ok

# physical (capacity kWh, voltage V, full period min) triples a lattice point is mapped to
PHYS = [(60.0, 240.0, 5.0), (13.7, 208.0, 1.0), (100.0, 277.0, 15.0), (8.0, 120.0, 60.0), (24.0, 400.0, 2.0),
        (75.5, 208.0, 5.0), (40.0, 208.0, 7.0), (16.0, 240.0, 45.0)]     # ... incl. periods that do not divide an hour
BIG_RATE = 1.0e9


def tol(s, rel=1e-9):
    return rel * max(1.0, abs(float(s)))


class Map:
    """spec units <-> physical floats for one behaviour and one physical triple."""

    def __init__(self, b, phys):
        self.cap_u = float(b["cap"])
        self.capK, self.V, self.T = (float(x) for x in phys)
        self.bat = b["bat"]

    def kwh(self, units):
        return units / self.cap_u * self.capK

    def pilot(self, P):  # A
        return P / self.cap_u * self.capK * 60.0 / self.T * 1000.0 / self.V

    def draw(self, Z):  # kW
        return Z / self.cap_u * self.capK * 60.0 / self.T

    def period(self, d):
        return self.T * d / 2.0

    def max_power(self):
        return self.bat["mn"] / self.bat["md"] * self.capK * 60.0 / self.T

    def battery(self):
        from acnportal.acnsim.models import Battery, Linear2StageBattery
        bat = self.bat
        init = self.kwh(bat["init"])
        if bat["kind"] == "ideal":
            return Battery(self.capK, init, self.max_power())
        self._built = getattr(self, "_built", 0) + 1
        if self._built % 2 == 0:
            # the documented signature (capacity, init_charge, max_power, noise_level, transition_soc, charge_calculation),
            # every argument by position
            return Linear2StageBattery(self.capK, init, self.max_power(), 1.0 if bat["noisy"] else 0,
                                       (bat["td"] - bat["tn"]) / bat["td"], bat["kind"])
        return Linear2StageBattery(self.capK, init, self.max_power(), noise_level=1.0 if bat["noisy"] else 0,
                                   transition_soc=(bat["td"] - bat["tn"]) / bat["td"],
                                   charge_calculation=bat["kind"])


def tag_of(bat):
    return bat["kind"] + ("+noise" if bat["noisy"] else "")


def _mis(field, step, op, spec, impl, phys, **kw):
    d = {"field": field, "step": step, "op": {k: v for k, v in op.items() if k != "tab"}, "spec": spec, "impl": impl,
         "phys": list(phys)}
    d.update(kw)
    return d


def _bounds(m, n, op, phys, rate, power, charge, prev, pilot, period):
    """The C03 bounds, on the implementation's own numbers (energies in kWh, powers in kW, 1e-9)."""
    h = m.V / 1000.0 * (period / 60.0)  # kWh per A
    e, pe = rate * h, pilot * h
    if not e >= -tol(0):
        return _mis("negative-rate", n, op, ">= 0 A", rate, phys, charge_before=prev, charge_after=charge)
    if not e <= pe + tol(pe):
        return _mis("rate-above-pilot", n, op, "<= pilot %r A" % pilot, rate, phys)
    if not power <= m.max_power() + tol(m.max_power()):
        return _mis("power-above-max", n, op, "<= max_power %r kW" % m.max_power(), power, phys)
    if not charge >= prev - tol(prev):
        return _mis("charge-decreases", n, op, ">= %r kWh" % prev, charge, phys)
    if not charge <= m.capK + tol(m.capK):
        return _mis("charge-above-capacity", n, op, "<= %r kWh" % m.capK, charge, phys)
    if not abs(power - rate * m.V / 1000.0) <= tol(power):
        return _mis("power-vs-rate", n, op, "current_charging_power = rate * V", [power, rate * m.V / 1000.0], phys)
    return None


def _within(x, lo, hi):
    return lo - tol(lo) <= x <= hi + tol(hi)


def run_sequence(b, phys, laws=False):
    """Routes A and B.  Returns (mismatch or None, number of non-decisive steps)."""
    from acnportal.acnsim.models import EV, EVSE
    m = Map(b, phys)
    with warnings.catch_warnings():
        warnings.simplefilter("ignore")
        A = m.battery()
        ev = EV(0, 1000, m.capK, "E-1", "s-1", m.battery())
        evse = EVSE("E-1", max_rate=BIG_RATE)
        evse.plugin(ev)
        B = ev._battery
        init = m.kwh(b["bat"]["init"])
        agree = True  # the spec's prediction is still decisive
        nd = 0
        for n, op in enumerate(b["ops"]):
            prev = A._current_charge
            if op["op"] == "init":
                pass
            elif op["op"] == "reset":
                A.reset()
                ev.reset()
                # the EV object is used again (a second simulation after the documented EV.reset()): it leaves its
                # station and is plugged into an idle one
                evse.unplug()
                evse = EVSE("E-%d" % (n + 2), max_rate=BIG_RATE)
                evse.plugin(ev)
                agree = True
                for name, got, want in (("reset.charge", A._current_charge, init), ("reset.power", A.current_charging_power, 0),
                                        ("reset.ev_battery_charge", B._current_charge, init),
                                        ("reset.ev_battery_power", B.current_charging_power, 0),
                                        ("reset.energy_delivered", ev.energy_delivered, 0)):
                    if got != want:
                        return _mis(name, n, op, want, got, phys), nd
            elif op["op"] == "resetto":
                # Battery.reset(c) directly and on the EV's battery (after EV.reset(), which clears the EV's counter)
                c = m.kwh(op["c"])
                A.reset(c)
                ev.reset()
                B.reset(c)
                agree = True
                for name, got, want in (("reset(c).charge", A._current_charge, c), ("reset(c).power", A.current_charging_power, 0),
                                        ("reset(c).ev_battery_charge", B._current_charge, c),
                                        ("reset(c).energy_delivered", ev.energy_delivered, 0)):
                    if got != want:
                        return _mis(name, n, op, want, got, phys), nd
            elif op["op"] == "roundtrip":
                # the battery alone, and the station with its EV and the EV's battery, through JSON; go on with the loaded ones
                before = (float(A._current_charge), float(A.current_charging_power), float(B._current_charge),
                          float(B.current_charging_power), float(ev.energy_delivered), float(ev.current_charging_rate),
                          float(evse.current_pilot))
                A = type(A).from_json(A.to_json())
                evse = type(evse).from_json(evse.to_json())
                ev = evse.ev
                B = ev._battery
                after = (float(A._current_charge), float(A.current_charging_power), float(B._current_charge),
                         float(B.current_charging_power), float(ev.energy_delivered), float(ev.current_charging_rate),
                         float(evse.current_pilot))
                if before != after:
                    return _mis("roundtrip.changed-state", n, op, list(before), list(after), phys), nd
            elif op["op"] == "resetbad":
                c = m.kwh(op["c"])
                before = (A._current_charge, A.current_charging_power, B._current_charge, ev.energy_delivered)
                for which, bt in (("direct", A), ("ev", B)):
                    try:
                        bt.reset(c)
                        return _mis("reset(c>capacity).accepted", n, op, "ValueError", "accepted (%s)" % which, phys), nd
                    except ValueError:
                        pass
                after = (A._current_charge, A.current_charging_power, B._current_charge, ev.energy_delivered)
                if before != after:
                    return _mis("reset(c>capacity).changed-state", n, op, list(before), list(after), phys), nd
            else:
                pilot, period, z = m.pilot(op["p"]), m.period(op["d"]), m.draw(op["z"])
                if pilot == 0 and n % 2 == 0:
                    # the EV moves to another, idle station before a period without current (no reset in between): what it
                    # reports afterwards is that period's rate, 0 A - not what it drew at the station it left
                    evse.unplug()
                    evse = EVSE("E-m%d" % n, max_rate=BIG_RATE)
                    ev.update_station_id(evse.station_id)
                    evse.plugin(ev)
                with patch("numpy.random.normal", return_value=z):
                    rate = A.charge(pilot, m.V, period)
                    evse.set_pilot(pilot, m.V, period)
                rate = float(rate)
                d = _bounds(m, n, op, phys, rate, float(A.current_charging_power), float(A._current_charge), prev, pilot, period)
                if d is not None:
                    return d, nd
                # the wrappers: what the EV reports is what its battery did, and equals the direct call
                if not (float(ev.current_charging_rate) == rate and float(B._current_charge) == float(A._current_charge)):
                    return _mis("wrapper-vs-direct", n, op, [rate, A._current_charge],
                                [ev.current_charging_rate, B._current_charge], phys), nd
                if evse.current_pilot != pilot:
                    return _mis("evse.current_pilot", n, op, pilot, evse.current_pilot, phys), nd
                if not op["dec"]:
                    if agree:
                        nd += 1
                    agree = False
                if agree:
                    e = rate * m.V / 1000.0 * (period / 60.0)
                    if not _within(e, m.kwh(op["eLo"]), m.kwh(op["eHi"])):
                        return _mis("law-rate", n, op, [m.kwh(op["eLo"]), m.kwh(op["eHi"])], e, phys, unit="kWh drawn in the call",
                                    rate_A=rate, spec_rate_A=[m.kwh(op["eLo"]) / (m.V / 1000.0 * period / 60.0),
                                                              m.kwh(op["eHi"]) / (m.V / 1000.0 * period / 60.0)]), nd
                    if not _within(A._current_charge, m.kwh(op["lo"]), m.kwh(op["hi"])):
                        return _mis("law-charge", n, op, [m.kwh(op["lo"]), m.kwh(op["hi"])], A._current_charge, phys, unit="kWh"), nd
                    if not _within(ev.energy_delivered, m.kwh(op["dLo"]), m.kwh(op["dHi"])):
                        return _mis("ev.energy_delivered", n, op, [m.kwh(op["dLo"]), m.kwh(op["dHi"])], ev.energy_delivered, phys), nd
            if agree and op["op"] != "charge":
                if not _within(A._current_charge, m.kwh(op["lo"]), m.kwh(op["hi"])):
                    return _mis("law-charge", n, op, [m.kwh(op["lo"]), m.kwh(op["hi"])], A._current_charge, phys), nd
            if laws and agree:
                d = probe_state(m, A, n, op, phys)
                if d is not None:
                    return d, nd
    return None, nd


def probe_state(m, A, n, op, phys):
    """C14: every probe call (P, d) of the spec's table from the current state of the real battery."""
    kind = m.bat["kind"]
    c0 = float(A._current_charge)
    got = {}
    for ent in op["tab"]:
        P, d, v = ent["p"], ent["d"], ent["v"]
        pilot, period = m.pilot(P), m.period(d)
        c = copy.copy(A)
        rate = float(c.charge(pilot, m.V, period))
        e = rate * m.V / 1000.0 * (period / 60.0)
        got[(P, d)] = e
        info = {"probe": {"p": P, "d": d, "pilot_A": pilot, "period_min": period}, "charge_before": c0}
        # the documented law: E_down(hi) <= e <= E_up(lo), new charge in [lo + E_down(lo), hi + E_up(hi)]
        if not _within(e, m.kwh(v[2]), m.kwh(v[1])):
            return _mis("law", n, op, [m.kwh(v[2]), m.kwh(v[1])], e, phys, unit="kWh drawn by the probe", **info)
        if not _within(c._current_charge, m.kwh(op["lo"] + v[0]), m.kwh(op["hi"] + v[3])):
            return _mis("law-charge", n, op, [m.kwh(op["lo"] + v[0]), m.kwh(op["hi"] + v[3])], c._current_charge, phys, **info)
        if not abs((c._current_charge - c0) - e) <= tol(c0):
            return _mis("returned-rate-vs-stored-charge", n, op, e, c._current_charge - c0, phys, **info)
        if P == 0 and not (abs(e) <= tol(0) and abs(c._current_charge - c0) <= tol(c0) and abs(c.current_charging_power) <= tol(0)):
            return _mis("zero-pilot", n, op, 0, [rate, c._current_charge - c0, c.current_charging_power], phys, **info)
        # charging for T = charging for T/2 twice (ideal: the law is a min; continuous: the law is a flow)
        if kind != "stepwise":
            c2 = copy.copy(A)
            c2.charge(pilot, m.V, period / 2.0)
            c2.charge(pilot, m.V, period / 2.0)
            if not abs(c2._current_charge - c._current_charge) <= tol(c._current_charge):
                return _mis("split", n, op, c._current_charge, c2._current_charge, phys, unit="kWh after T vs after T/2 + T/2", **info)
    # delivered energy is non-decreasing in the pilot and in the period
    keys = sorted(got)
    for (P1, d1) in keys:
        for (P2, d2) in keys:
            if P1 <= P2 and d1 <= d2 and (P1, d1) != (P2, d2):
                if not got[(P1, d1)] <= got[(P2, d2)] + tol(got[(P2, d2)]):
                    f = "monotone-pilot" if d1 == d2 else ("monotone-period" if P1 == P2 else "monotone")
                    return _mis(f, n, op, "E(p=%d,d=%d) <= E(p=%d,d=%d)" % (P1, d1, P2, d2), [got[(P1, d1)], got[(P2, d2)]], phys,
                                charge_before=c0)
    return None


def sim_eligible(b):
    ch = [o for o in b["ops"] if o["op"] == "charge"]
    return (len(ch) >= 1 and all(o["op"] in ("init", "charge") for o in b["ops"]) and len({o["d"] for o in ch}) == 1
            and all(o["dec"] for o in ch))


def run_sim(b, phys):
    """Route S: the call sequence as one simulation; what is bounded is what the Simulator records."""
    from acnportal.acnsim import ChargingNetwork, Simulator, EventQueue, PluginEvent
    from acnportal.acnsim.models import EV, EVSE
    from acnportal.algorithms import BaseAlgorithm
    m = Map(b, phys)
    ch = [o for o in b["ops"] if o["op"] == "charge"]
    period = m.period(ch[0]["d"])
    pilots = [m.pilot(o["p"]) for o in ch]
    draws = [m.draw(o["z"]) for o in ch]

    class Scripted(BaseAlgorithm):
        def schedule(self, active):
            return {"E-1": list(pilots)}

    with warnings.catch_warnings():
        warnings.simplefilter("ignore")
        net = ChargingNetwork()
        if int(jhash(b)[:2], 16) % 2:
            # a finite-rate station whose levels lie 0.5 mA ABOVE the commanded pilots (inside the 1e-3 A acceptance band):
            # what reaches the EV, and is recorded, is the commanded pilot - the recorded rate never exceeds it
            from acnportal.acnsim.models import FiniteRatesEVSE
            net.register_evse(FiniteRatesEVSE("E-1", sorted({p + 5e-4 for p in pilots if p > 0})), m.V, 0)
        else:
            net.register_evse(EVSE("E-1", max_rate=BIG_RATE), m.V, 0)
        ev = EV(0, len(ch), m.capK, "E-1", "s-1", m.battery())
        sim = Simulator(net, Scripted(), EventQueue([PluginEvent(0, ev)]), datetime(2020, 1, 1), period=period, verbose=False)
        # the draw of period k (a continuous battery does not draw at all when the pilot is 0)
        with patch("numpy.random.normal", side_effect=lambda *a, **kw: draws[min(sim.iteration, len(draws) - 1)]):
            sim.run()
    rates = [float(x) for x in sim.charging_rates[0, :len(ch)]]
    sent = [float(x) for x in sim.pilot_signals[0, :len(ch)]]
    for n, o in enumerate(ch):
        if sent[n] != pilots[n]:
            return _mis("sim.pilot_signals", n + 1, o, pilots[n], sent[n], phys)
        h = m.V / 1000.0 * (period / 60.0)
        e = rates[n] * h
        if not e >= -tol(0):
            return _mis("negative-rate", n + 1, o, ">= 0 A", rates[n], phys, where="Simulator.charging_rates")
        if not e <= sent[n] * h + tol(sent[n] * h):
            return _mis("rate-above-pilot", n + 1, o, "<= recorded pilot %r" % sent[n], rates[n], phys, where="Simulator.charging_rates")
        if not _within(e, m.kwh(o["eLo"]), m.kwh(o["eHi"])):
            return _mis("law-rate", n + 1, o, [m.kwh(o["eLo"]), m.kwh(o["eHi"])], e, phys, where="Simulator.charging_rates")
    return None


def physes(b, seed, k):
    r = random.Random("%s-%s" % (jhash(b), seed))
    return r.sample(PHYS, k)


def replay_case(case):
    """C03: one emitted behaviour (+ the physical triples it was run with) through the real code."""
    b = case["bhv"]
    for phys in case.get("phys") or PHYS:
        d, _ = run_sequence(b, phys, laws=False)
        if d is None and case.get("sim", True) and sim_eligible(b):
            d = run_sim(b, phys)
        if d is not None:
            return d
    return None


def replay_laws(case):
    """C14: one emitted behaviour with probe tables through the real code."""
    b = case["bhv"]
    for phys in case.get("phys") or PHYS:
        d, _ = run_sequence(b, phys, laws=True)
        if d is not None:
            return d
    return None


def nontrivial(b):
    """The model (not the pilot) limited a call, or noise took effect, or the sequence has a reset."""
    for o in b["ops"]:
        if o["op"].startswith("reset") or o["op"] == "roundtrip":
            return True
        if o["op"] == "charge" and o["p"] > 0 and o["eLo"] * 2 < o["p"] * o["d"]:
            return True
    return False


ASSUMPTIONS = [
    "lattice of ratios (max power*T/capacity in {1/64..2}, 1-transition_soc in {1, 1/2, 1/5, 1/20, 7/10}, pilot*V*T/capacity in "
    "{0, 1/64..2}, noise*T/capacity in {0, +-1/32, +-1}), mapped to 6 physical (capacity, voltage, period) triples; "
    "call durations T/2, T (and 2T in probes)",
    "floats are compared with the spec at 1e-9 relative (absolute below 1 kWh / 1 A); the continuous law is decided up to "
    "the width of the rigorous enclosure (<= 0.4 % of min(pilot, max power)*period at K=128, 0.2 % at K=256)",
    "stepwise + noise exactly at transition_soc is not float-decisive (the law jumps there): the spec's prediction is "
    "dropped from that call on (bounds are still checked)",
    "pilots are non-negative (negative pilots are outside the property)",
]


def _replay_one(args):
    """Worker: one behaviour on its physical triples.  Returns (key, nontrivial, non_decisive, sim_run, found)."""
    b, k, seed, nphys, laws, do_sim = args
    ph = physes(b, seed, nphys)
    ndec = 0
    found = None
    for phys in ph:
        try:
            d, nd = run_sequence(b, phys, laws=laws)
        except Exception as e:  # noqa
            from .common import through_impl
            if not through_impl(e):
                raise       # a harness bug: machinery failure
            # the implementation failed on a call the specification answers: a mismatch, not a machinery failure
            d, nd = _mis("exception.%s" % type(e).__name__, -1, {"op": "?"}, "a charging rate", "%s: %s" % (type(e).__name__, e),
                         phys), 0
        ndec += nd
        if d is not None:
            found = (d, [list(phys)])
            break
    sim_run = False
    if found is None and do_sim and sim_eligible(b):
        sim_run = True
        d = run_sim(b, ph[0])
        if d is not None:
            found = (d, [list(ph[0])])
    return k, nontrivial(b), ndec, sim_run, found


def _replay_all(rep, prop, bhvs, seed, nphys, laws, sim_every, procs=1):
    """Replay every distinct behaviour; in several processes when there are many."""
    seen = {}
    for b in bhvs:
        k = jhash(b)
        if k not in seen:
            seen[k] = b
    jobs = [(b, k, seed, nphys, laws, bool(sim_every) and not laws and n % sim_every == 0) for n, (k, b) in enumerate(seen.items())]
    if procs > 1 and len(jobs) > 2000:
        from concurrent.futures import ProcessPoolExecutor
        with ProcessPoolExecutor(max_workers=procs) as ex:
            results = list(ex.map(_replay_one, jobs, chunksize=200))
    else:
        results = [_replay_one(j) for j in jobs]
    fn = "replay_laws" if laws else "replay_case"
    nsim = 0
    for k, nt, ndec, sim_run, found in results:
        rep.replayed += 1
        rep.count(k, nt)
        rep.non_decisive += ndec
        nsim += bool(sim_run)
        if found is not None:
            d, ph1 = found
            b = seen[k]
            # "reset restores the initial state" is C14's clause; C03 states the bounds of charge()
            if prop == "C03" and d["field"].startswith(("reset", "roundtrip")):
                rep.foreign_divergence("C14", {"mismatch": d, "bhv": b})
                continue
            key = "%s:%s:%s" % (prop, tag_of(b["bat"]), d["field"])
            rep.violation(key, json.dumps(d, default=repr)[:700], {"kind": "case", "module": "props_battery", "fn": fn,
                                                                  "case": {"bhv": b, "phys": ph1, "sim": bool(sim_run)}, "mismatch": d})
    return len(seen), nsim


# ----------------------------------------------------------------------------- code -> spec traces
CAP_U = 40960000


def _iv(x, s):
    return [int(math.floor(x * s)), int(math.ceil(x * s))]


def trace_plan(seed, ntraces, ncalls=6):
    """Random, off-lattice batteries and pilot sequences (plans); the noise is numpy's own."""
    rng = random.Random("battery-traces-%s" % seed)
    plans = []
    for tid in range(ntraces):
        kind = rng.choice(["ideal", "stepwise", "stepwise", "continuous", "continuous", "continuous"])
        plans.append({
            "tid": tid, "kind": kind,
            "cap": rng.choice([round(rng.uniform(5, 100), 3), 8.0, 24.0, 60.0, 85.0]),
            "soc0": rng.choice([0.0, round(rng.random(), 6), round(rng.uniform(0.7, 1.0), 6), round(rng.uniform(0.97, 1.0), 6), 1.0]),
            "V": rng.choice([120.0, 208.0, 240.0, 277.0]), "T": rng.choice([1.0, 2.5, 5.0, 15.0, 60.0]),
            "max_power": rng.choice([round(rng.uniform(1, 25), 3), 3.3, 6.6, 7.68]),
            "tau": rng.choice([0.8, 0.0, 0.95, round(rng.uniform(0, 0.99), 4)]),
            "noise_level": 0 if kind == "ideal" else rng.choice([0, 0.05, 0.5, 2.0, 10.0]),
            "pilots": [rng.choice([0.0, 6.0, 16.0, 32.0, round(rng.uniform(0, 80), 3)]) for _ in range(ncalls)],
            "np_seed": rng.randrange(2 ** 31)})
    return plans


def run_trace(plan):
    """Execute one plan through EVSE.set_pilot -> EV.charge -> Battery.charge; one log line per call."""
    import numpy as np
    from acnportal.acnsim.models import EV, EVSE, Battery, Linear2StageBattery
    cap, V, T = plan["cap"], plan["V"], plan["T"]
    init = cap * plan["soc0"]
    if plan["kind"] == "ideal":
        batt = Battery(cap, init, plan["max_power"])
    else:
        batt = Linear2StageBattery(cap, init, plan["max_power"], noise_level=plan["noise_level"], transition_soc=plan["tau"],
                                   charge_calculation=plan["kind"])
    ev = EV(0, 1000, cap, "E-1", "s-%d" % plan["tid"], batt)
    evse = EVSE("E-1", max_rate=BIG_RATE)
    evse.plugin(ev)
    s = CAP_U / cap
    lines = []
    state = np.random.get_state()
    np.random.seed(plan["np_seed"])
    try:
        for pilot in plan["pilots"]:
            c0 = float(batt._current_charge)
            evse.set_pilot(pilot, V, T)
            rate = float(ev.current_charging_rate)
            lines.append({"tid": plan["tid"], "c0": _iv(c0, s), "c1": _iv(float(batt._current_charge), s),
                          "e": _iv(rate * V / 1000.0 * (T / 60.0), s),
                          "pe": int(math.ceil(pilot * V / 1000.0 * (T / 60.0) * s)),
                          "me": int(math.ceil(plan["max_power"] * (T / 60.0) * s))})
    finally:
        np.random.set_state(state)
    return lines


def validate_traces(plans):
    """One TLC run for the whole batch.  Returns (TlcResult, lines, rejected [{line, tid, why}])."""
    lines = []
    with warnings.catch_warnings():
        warnings.simplefilter("ignore")
        for p in plans:
            lines += run_trace(p)
    text = "".join(json.dumps(l) + "\n" for l in lines)
    res = run_tlc("MC_BatteryTrace", "Battery_trace", workers=1, extra_files={"battery_trace.ndjson": text}, tags=("REJ",))
    require_ok(res, "battery trace validation")
    out = res.emitted.get("REJ", [])
    if len(out) != 1 or out[0]["lines"] != len(lines):
        raise RuntimeError("trace validation did not read the whole batch: %r" % (out[:1],))
    return res, lines, out[0]["rejected"]


def replay_trace(case):
    """Re-execute one recorded plan with the current tree and have TLC validate it again."""
    _, lines, rejected = validate_traces([case["plan"]])
    if rejected:
        r = rejected[0]
        return {"field": r["why"], "line": lines[r["line"] - 1], "call": r["line"], "plan": case["plan"]}
    return None


def _trace_binding(rep, prop, seed, ntraces):
    plans = trace_plan(seed, ntraces)
    # self-test of the binding: a corrupted line must be the one (and only one) rejected
    probe = [dict(plans[0], tid=0, kind="ideal", noise_level=0, pilots=[16.0, 16.0])]
    good = run_trace(probe[0])
    bad = [dict(good[0]), dict(good[1])]
    bad[1]["e"] = [bad[1]["e"][0] - 5, bad[1]["e"][1] - 5]
    text = "".join(json.dumps(l) + "\n" for l in good + [dict(l, tid=1) for l in bad])
    st = run_tlc("MC_BatteryTrace", "Battery_trace", workers=1, extra_files={"battery_trace.ndjson": text}, tags=("REJ",))
    require_ok(st, "battery trace self-test")
    got = st.emitted["REJ"][0]["rejected"]
    if 4 not in [g["line"] for g in got]:
        raise RuntimeError("trace validation self-test: the corrupted line 4 was not rejected, got %r" % got)
    for g in got:
        if g["tid"] == 0:
            # the uncorrupted trace of the probe is an execution of the real code like any other: if TLC rejects it,
            # the implementation left the envelope (a finding, not a failure of the machinery)
            d = {"field": g["why"], "call": g["line"], "line": good[g["line"] - 1], "plan": probe[0]}
            rep.violation("%s:ideal:%s" % (prop, g["why"]), json.dumps(d)[:700],
                          {"kind": "case", "module": "props_battery", "fn": "replay_trace", "case": {"plan": probe[0]},
                           "mismatch": d})
    res, lines, rejected = validate_traces(plans)
    rep.add_tlc(res, "code->spec: %d logged calls of %d real-noise executions validated against InEnvelope" % (len(lines), len(plans)),
                "Battery_trace")
    by_tid = {}
    for r in rejected:
        by_tid.setdefault(r["tid"], r)
    rep.traces_accepted += len(plans) - len(by_tid)
    for tid, r in sorted(by_tid.items()):
        p = plans[tid]
        tag = p["kind"] + ("+noise" if p["noise_level"] > 0 else "")
        d = {"field": r["why"], "call": r["line"], "line": lines[r["line"] - 1], "plan": p}
        rep.violation("%s:%s:%s" % (prop, tag, r["why"]), json.dumps(d)[:700],
                      {"kind": "case", "module": "props_battery", "fn": "replay_trace", "case": {"plan": p}, "mismatch": d})
    rep.notes.append("trace binding self-test: a logged energy shifted by 5 fine units was the only line rejected")
    return len(plans), len(by_tid)


# ----------------------------------------------------------------------------- the checks
_BUDGET = int(os.environ.get("VERIF_WORKERS", "0")) or min(16, os.cpu_count() or 1)
ACTS = ["DoCharge", "Reset", "ResetTo", "ResetRefused", "RoundTrip", "Finish"]


def _tlc_jobs(rep, jobs):
    """Run the TLC jobs of one check concurrently (they are independent processes) within the core budget.
    job = dict(what, cfg, overrides, mc=bool, simulate, depth, seed, w=relative weight).  Results in order."""
    par = max(1, min(len(jobs), _BUDGET))
    tot = float(sum(j.get("w", 1) for j in jobs))

    def one(j):
        if j.get("simulate"):
            return run_tlc("MC_Battery", j["cfg"], overrides=j["overrides"], simulate=j["simulate"], depth=j["depth"],
                           seed=j["seed"], workers=1, timeout=3000)
        w = max(1, min(_BUDGET, int(_BUDGET * j.get("w", 1) / tot)))
        return run_tlc("MC_Battery", j["cfg"], overrides=j["overrides"], workers=w, coverage=bool(j.get("mc")), timeout=3000)

    with ThreadPoolExecutor(max_workers=par) as ex:
        results = list(ex.map(one, jobs))
    for j, res in zip(jobs, results):
        rep.add_tlc(res, j["what"], "%s %s" % (j["cfg"], json.dumps(j["overrides"], sort_keys=True)),
                    require_actions=ACTS if j.get("mc") else None)
        require_ok(res, j["what"])
    return results


def _selftest_replay(rep, bhvs, laws):
    """The binding must reject a behaviour whose recorded spec state is corrupted in one field."""
    for b in bhvs:
        ch = [n for n, o in enumerate(b["ops"]) if o["op"] == "charge" and o["eLo"] > 0]
        if not ch or not all(o["dec"] for o in b["ops"]):
            continue
        if run_sequence(b, PHYS[0], laws=laws)[0] is not None:
            continue  # a genuine mismatch: reported by the replay proper
        o = b["ops"][ch[0]]
        c = copy.deepcopy(b)
        c["ops"][ch[0]]["lo"] += o["hi"] - o["lo"] + 4096  # bracket width + 1e-4 of the capacity
        c["ops"][ch[0]]["hi"] += o["hi"] - o["lo"] + 4096
        d, _ = run_sequence(c, PHYS[0], laws=laws)
        if d is None or d["field"] != "law-charge":
            raise RuntimeError("replay self-test: a corrupted spec charge was not rejected (%r)" % (d,))
        c = copy.deepcopy(b)
        c["ops"][ch[0]]["eLo"] += o["eHi"] - o["eLo"] + 4096
        c["ops"][ch[0]]["eHi"] += o["eHi"] - o["eLo"] + 4096
        d, _ = run_sequence(c, PHYS[0], laws=laws)
        if d is None or d["field"] != "law-rate":
            raise RuntimeError("replay self-test: a corrupted spec energy was not rejected (%r)" % (d,))
        rep.notes.append("replay self-test: the same behaviour with one spec field shifted by its bracket width + 1e-4 of the capacity was rejected "
                         "(law-charge, law-rate)")
        return
    rep.notes.append("replay self-test skipped: no behaviour agrees with the implementation")


def check_C03(tier, seed):
    rep = Report("C03", tier, seed)
    quick = tier == "quick"
    rep.rule = ("call sequences (charge(pilot, duration, noise draw) / reset) per battery of the lattice, enumerated or sampled by "
                "TLC, distinct by content; non-trivial = the battery model (not the pilot) limited a call, noise took effect, or "
                "the sequence contains a reset.  Plus real-noise executions validated by TLC (traces).")
    rep.assumptions += ASSUMPTIONS
    K = "= 128" if quick else "= 256"
    nphys = 2 if quick else 3
    rep.bounds = {"K": K, "lattice": "MC_Battery.tla", "physical_triples": PHYS, "sequence_length": "<= 4"}
    inv = "RateNonNegative, RateAtMostPilot, PowerAtMostMax, ChargeWithinCapacity, ChargeNeverDecreases, LawsRefineEnvelope, BracketSound"
    small = {"K": K, "Pilots": "<- PilotsSmall", "Noises": "<- NoisesSmall"}
    # (A) model checking: the bounds are theorems of the three laws (and of the enclosure)
    if quick:
        jobs = [dict(mc=1, what="exhaustive, ideal+stepwise with noise draws, sequences of 2: " + inv, cfg="Battery_mc",
                     overrides=dict(small, Bats="<- BatsExactMid")),
                dict(mc=1, what="exhaustive, continuous enclosure with noise draws, sequences of 2: " + inv, cfg="Battery_mc",
                     overrides=dict(small, Bats="<- BatsContSmall"))]
    else:
        jobs = [dict(mc=1, w=4, what="exhaustive, ideal+stepwise full lattice, sequences of 2: " + inv, cfg="Battery_mc",
                     overrides={"K": K}),
                dict(mc=1, w=3, what="exhaustive, ideal+stepwise, sequences of 4: " + inv, cfg="Battery_mc",
                     overrides=dict(small, Bats="<- BatsExactMid", MaxOps="= 4", Durs="= {2}")),
                dict(mc=1, w=2, what="exhaustive, continuous enclosure, sequences of 2: " + inv, cfg="Battery_mc",
                     overrides=dict(small, Bats="<- BatsContMid", Durs="= {2}")),
                dict(mc=1, w=5, what="exhaustive, continuous enclosure, sequences of 4: " + inv, cfg="Battery_mc",
                     overrides=dict(small, Bats="<- BatsContSmall", MaxOps="= 4", Durs="= {2}"))]
    nmc = len(jobs)
    # (B) spec -> code: generation
    jobs.append(dict(w=2, what="every single call of the %s lattice, emitted for replay" % ("medium" if quick else "full"), cfg="Battery_gen",
                     overrides={"K": K, "Bats": "<- BatsMid", "Noises": "<- NoisesSmall"} if quick else {"K": K}))
    nsample = 2 if quick else 4
    for i in range(nsample):
        jobs.append(dict(what="sampled call sequences of length 4 (-simulate, one random successor per call)", cfg="Battery_sample",
                         overrides={"K": K}, simulate=1000 if quick else 8000, depth=7, seed=seed + 7919 * i))
    res = _tlc_jobs(rep, jobs)
    single = res[nmc].emitted.get("BHV", [])
    seqs = [b for r in res[nmc + 1:] for b in r.emitted.get("BHV", [])]
    procs = 1 if quick else max(1, min(8, _BUDGET))
    _selftest_replay(rep, seqs, False)
    n1, _ = _replay_all(rep, "C03", single, seed, nphys, False, 0, procs)
    n2, nsim = _replay_all(rep, "C03", seqs, seed, nphys, False, 2, procs)
    rep.exhaustive = True
    rep.notes.append("all %d single calls of the lattice replayed (each on %d physical triples, directly and through EVSE->EV), "
                     "plus %d distinct sampled sequences of 4 calls, %d of them also as a whole Simulator run" % (n1, nphys, n2, nsim))
    # (C) code -> spec
    _trace_binding(rep, "C03", seed, 400 if quick else 6000)
    for b in (single[len(single) // 2], seqs[0], seqs[-1]):
        rep.sample(b)
    return rep.finish()


def check_C14(tier, seed):
    rep = Report("C14", tier, seed)
    quick = tier == "quick"
    rep.rule = ("states of charge reached by call sequences per noise-free battery of the lattice; at every state the spec's table "
                "of answers to every probe call (pilot x duration T/2, T, 2T) is compared with the real battery, and the split / "
                "monotone / zero-pilot identities are evaluated on the real battery; non-trivial = some call limited by the model "
                "or a reset")
    rep.assumptions += ASSUMPTIONS
    K = "= 128" if quick else "= 256"
    nphys = 2 if quick else 3
    rep.bounds = {"K": K, "lattice": "MC_Battery.tla", "physical_triples": PHYS, "probe_durations": [1, 2, 4]}
    thm = ("IdealIsMinOfThree, ZeroPilot, Monotone, TwoStageVsIdeal, DecliningStage, Split, EnclosureTight, ExactLawsExact, "
           "ResetRestores, BracketSound")
    if quick:
        jobs = [dict(mc=1, what="law theorems, ideal+stepwise, every state within 2 calls: " + thm, cfg="Battery_laws",
                     overrides={"K": K, "Bats": "<- BatsExactMidQuiet"}),
                dict(mc=1, what="law theorems, continuous enclosure, every state within 2 calls: " + thm, cfg="Battery_laws",
                     overrides={"K": K, "Bats": "<- BatsContSmallQuiet", "Durs": "= {2}"}),
                dict(what="states within 1 call, medium lattice, with probe tables", cfg="Battery_lawsgen",
                     overrides={"K": K, "Bats": "<- BatsMidQuiet"}),
                dict(what="states within 2 calls, small continuous lattice, with probe tables", cfg="Battery_lawsgen",
                     overrides={"K": K, "Bats": "<- BatsContSmallQuiet", "MaxOps": "= 2", "Durs": "= {2}"}),
                dict(what="tiny pilots (a few 1e-7 of the capacity per period), with probe tables", cfg="Battery_lawsgen",
                     overrides={"K": "= 32", "Bats": "<- BatsContSmallQuiet", "Pilots": "<- PilotsTiny", "Durs": "= {1}",
                                "ProbeDurs": "= {1}"})]
        ngen = 3
    else:
        jobs = [dict(mc=1, w=3, what="law theorems, ideal+stepwise full lattice, every state within 2 calls: " + thm, cfg="Battery_laws",
                     overrides={"K": K, "Bats": "<- BatsExactQuiet", "Pilots": "<- PilotsAll"}),
                dict(mc=1, w=3, what="law theorems, continuous enclosure, every state within 2 calls: " + thm, cfg="Battery_laws",
                     overrides={"K": K, "Bats": "<- BatsContMidQuiet"}),
                dict(mc=1, w=2, what="law theorems, continuous enclosure, every state within 3 calls: " + thm, cfg="Battery_laws",
                     overrides={"K": K, "Bats": "<- BatsContSmallQuiet", "MaxOps": "= 3", "Durs": "= {2}"}),
                dict(w=2, what="states within 1 call, full lattice, with probe tables", cfg="Battery_lawsgen", overrides={"K": K}),
                dict(w=3, what="states within 2 calls, medium lattice, with probe tables", cfg="Battery_lawsgen",
                     overrides={"K": K, "Bats": "<- BatsMidQuiet", "MaxOps": "= 2"}),
                dict(w=2, what="states within 3 calls, small continuous lattice, with probe tables", cfg="Battery_lawsgen",
                     overrides={"K": K, "Bats": "<- BatsContSmallQuiet", "MaxOps": "= 3", "Durs": "= {2}"}),
                dict(w=1, what="tiny pilots (a few 1e-7 of the capacity per period), with probe tables", cfg="Battery_lawsgen",
                     overrides={"K": "= 32", "Bats": "<- BatsContSmallQuiet", "Pilots": "<- PilotsTiny", "Durs": "= {1}",
                                "ProbeDurs": "= {1}"})]
        ngen = 4
    res = _tlc_jobs(rep, jobs)
    bh = [b for r in res[-ngen:] for b in r.emitted.get("BHV", [])]
    _selftest_replay(rep, bh, True)
    n, _ = _replay_all(rep, "C14", bh, seed, nphys, True, 0, 1 if quick else max(1, min(8, _BUDGET)))
    rep.exhaustive = True
    nprobes = sum(len(o["tab"]) for b in bh for o in b["ops"]) * nphys
    rep.notes.append("all %d emitted behaviours replayed; %d probe calls (state x pilot x duration x physical triple) compared with "
                     "the spec's table, each also split in two halves on the real battery" % (n, nprobes))
    rep.sample(bh[len(bh) // 3])
    rep.sample(bh[-1])
    return rep.finish()
