"""Network.tla behaviours replayed through the real ChargingNetwork, driven directly (no Simulator).

The specification (spec/Network.tla) models the station-level public API of
acnportal/acnsim/network/charging_network.py::ChargingNetwork as a state machine with one action per
call form: register_evse, plugin(ev), the deprecated plugin(ev, station_id), unplug(station_id,
session_id), the deprecated unplug(station_id), get_ev, update_pilots, post_charging_update and
EV.update_station_id (how an EV object is moved).  TLC checks the invariants / action properties on every
call sequence of the small configuration and emits behaviours (exhaustive small ones + sampled longer ones
on 3 stations); `replay_case` performs every call of a behaviour on real objects and compares the FULL
projection (occupants, station pilots, per-EV energy / battery charge / last rate, every view) with the
spec record after EVERY call.

This module serves clauses of four properties; every compared field has an owner:
  C01  plug / unplug discipline and connectedness (outcomes, warnings, occupants, station set, get_ev)
  C13  refused plug-in (StationOccupiedError), invalid pilots (InvalidRateError), the station pilot
  C02  energy ledger per EV and current_charging_rates
  C05  the observation views (active_evs, active_station_ids, voltages, phase_angles, info caches)
`check_network(rep, tier, seed, owner)` adds its runs to a Report and reports as violations only the
mismatches owned by `owner`; the others are booked as foreign divergences (as props_acnsim.judge does).
"""
import json
import random
import warnings
from concurrent.futures import ProcessPoolExecutor, ThreadPoolExecutor

from .common import Report, jhash, through_impl
from .tlc import run_tlc, require_ok

KWH = 60000.0       # W*min per kWh
U = 1e4             # spec current unit: 1e-4 A
EU = KWH * U        # spec energy unit: 1e-4 W*min, per kWh

_STATION_NAMES = ["CA-303", "CA-148", "AG-1F02", "AG-3F16", "PS-0011", "DOE-07", "zeta", "Alpha", "beta-2", "10", "9",
                  "st 4", "E", "evse/12", "B-", "0x1F", "north.3"]


def close(x, want, tol=1e-9):
    return abs(float(x) - float(want)) <= tol * max(1.0, abs(float(want)))


def close_energy(x_kwh, n):
    """implementation kWh against spec 1e-4 W*min (the absolute slack is 1e-7 W*min)"""
    v = float(x_kwh) * EU
    return close(v, n) or abs(v - n) <= 1e-3


# ------------------------------------------------------------------ spec-irrelevant variation
class Variation:
    """Everything the specification does not care about, chosen deterministically from the case: the strings used as
    station ids and session ids (independent draws: neither is ever derivable from the other; in one scheme they even
    come from the same pool of strings), the session id 'nobody has' (a string, the empty string or the integer 0 - all
    of them are session ids, none of them is None), int / float spellings of voltages, angles, limits and periods."""

    def __init__(self, case):
        h = int(jhash(case), 16)
        self.h = h
        r = random.Random(h)
        self.rng = r
        ns, ne = len(case["pool"]), len(case["evs"])
        names = r.sample(_STATION_NAMES, ns + 1)
        self.station = {s + 1: names[s] for s in range(ns + 1)}          # ns+1: the station nobody registers
        scheme = r.randrange(4)
        if scheme == 0:
            sess = ["2_39_%d_%d_2019-0%d-1%d 0%d:%02d:%02d.%06d" % (r.randrange(10, 99), r.randrange(100, 999), r.randrange(1, 9),
                    r.randrange(0, 9), r.randrange(0, 9), r.randrange(60), r.randrange(60), r.randrange(10 ** 6)) for _ in range(ne + 1)]
        elif scheme == 1:
            sess = ["%012x" % r.getrandbits(48) for _ in range(ne + 1)]
        elif scheme == 2:       # the same pool of strings as the station ids (a session may be called like a station)
            sess = r.sample(_STATION_NAMES, ne + 1)
        else:
            sess = ["session %d" % k for k in r.sample(range(1000), ne + 1)]
        nobody = (sess[ne], "", 0)[r.randrange(3)]
        self.session = {e + 1: sess[e] for e in range(ne)}
        self.session[0] = nobody
        self.ints = r.randrange(2)              # whole-valued numbers written as ints

    def num(self, x):
        return int(x) if self.ints and float(x).is_integer() else float(x)


def build_evse(kind, name, var):
    from acnportal.acnsim.models import EVSE, DeadbandEVSE, FiniteRatesEVSE
    import numpy as np
    if kind["cls"] == "cont":
        return EVSE(name, max_rate=var.num(kind["max"] / U), min_rate=var.num(kind["min"] / U))
    if kind["cls"] == "deadband":
        return DeadbandEVSE(name, deadband_end=var.num(kind["end"] / U), max_rate=var.num(kind["max"] / U))
    lv = [var.num(l / U) for l in kind["levels"]]
    return FiniteRatesEVSE(name, (lv, tuple(lv), np.array(lv))[var.h % 3])


def pilots_matrix(row, r):
    """The pilots argument of update_pilots for one spec row: an ndarray with one row per registered station whose column i
    holds the row; further columns (never addressed) hold other numbers, some of them invalid for every station; whole
    values as an integer or a float dtype, C or Fortran order."""
    import numpy as np
    n = len(row)
    ncols = 1 + r.randrange(4)
    i = r.randrange(ncols)
    vals = [p / U for p in row]
    whole = all(float(v).is_integer() for v in vals)
    as_int = whole and r.randrange(2) == 1
    junk = [0, 7, 99, -3, 16, 1000] if as_int else [0.0, 7.5, 99.0, -3.0, float("nan"), float("inf"), 16.0]
    m = [[(vals[j] if c == i else junk[r.randrange(len(junk))]) for c in range(ncols)] for j in range(n)]
    a = np.array(m, dtype=(np.int64, np.int32)[r.randrange(2)] if as_int else np.float64).reshape((n, ncols))
    if r.randrange(3) == 0:
        a = np.asfortranarray(a)
    idx = (i, np.int64(i))[r.randrange(2)]
    return a, idx


# ------------------------------------------------------------------ owners and keys
def _mm(owner, field, step_no, step, spec, impl):
    return {"owner": owner, "field": field, "step": step_no, "op": step["op"], "res": step["res"],
            "call": {k: step[k] for k in ("s", "ev", "arg", "sess", "row", "T", "form") if k in step},
            "spec": spec, "impl": impl, "key": "network:%s:%s" % (step["op"], field)}


def _outcome_owner(a, b):
    return "C13" if a in ("occupied", "invalid") or b in ("occupied", "invalid") else "C01"


class _World:
    """The real objects of one behaviour."""

    def __init__(self, case):
        from acnportal.acnsim import ChargingNetwork
        from acnportal.acnsim.models import EV, Battery
        self.case = case
        self.var = var = Variation(case)
        self.net = ChargingNetwork()
        self.evse = {}
        for s, st in enumerate(case["pool"], 1):
            self.evse[s] = build_evse(st["kind"], var.station[s], var)
        sta0 = case["ops"][0]["sta"]
        self.ev = {}
        for e, d in enumerate(case["evs"], 1):
            bat = Battery(d["cap"] / KWH, d["init"] / KWH, var.num(d["pw"] / 1000.0))
            self.ev[e] = EV(var.rng.randrange(0, 3), 10 + var.rng.randrange(0, 5), d["req"] / KWH, var.station[sta0[e - 1]],
                            var.session[e], bat)
        self.ev_index = {id(v): k for k, v in self.ev.items()}

    def idx(self, ev):
        return 0 if ev is None else self.ev_index.get(id(ev), -1)

    # -- one call ------------------------------------------------------------------------------
    def perform(self, step):
        """Returns (outcome, warned, returned value)."""
        from acnportal.acnsim.models import InvalidRateError, StationOccupiedError
        net, var, op, f = self.net, self.var, step["op"], step.get("form", 0)
        alt = (f + var.h) % 3
        ret = None
        with warnings.catch_warnings(record=True) as caught:
            warnings.simplefilter("always")
            try:
                if op == "register":
                    st = self.case["pool"][step["s"] - 1]
                    v, a = var.num(st["v"]), var.num(st["ang"])
                    if alt == 0:
                        ret = net.register_evse(self.evse[step["s"]], v, a)
                    elif alt == 1:
                        ret = net.register_evse(evse=self.evse[step["s"]], voltage=v, phase_angle=a)
                    else:
                        ret = net.register_evse(self.evse[step["s"]], v, phase_angle=a)
                elif op == "plugin":
                    ev = self.ev[step["ev"]]
                    ret = (lambda: net.plugin(ev), lambda: net.plugin(ev, None), lambda: net.plugin(ev=ev, station_id=None))[alt]()
                elif op == "plugin2":
                    ev, a = self.ev[step["ev"]], var.station[step["arg"]]
                    ret = (lambda: net.plugin(ev, a), lambda: net.plugin(ev, station_id=a), lambda: net.plugin(ev=ev, station_id=a))[alt]()
                elif op == "unplug":
                    sid, sess = var.station[step["s"]], var.session[step["sess"]]
                    ret = (lambda: net.unplug(sid, sess), lambda: net.unplug(station_id=sid, session_id=sess),
                           lambda: net.unplug(sid, session_id=sess))[alt]()
                elif op == "unplug_dep":
                    sid = var.station[step["s"]]
                    ret = (lambda: net.unplug(sid), lambda: net.unplug(sid, None), lambda: net.unplug(station_id=sid, session_id=None))[alt]()
                elif op == "get_ev":
                    sid = var.station[step["s"]]
                    ret = net.get_ev(sid) if alt else net.get_ev(station_id=sid)
                elif op == "update":
                    m, i = pilots_matrix(step["row"], var.rng)
                    T = step["T"] if (alt == 0) else float(step["T"])
                    ret = net.update_pilots(m, i, T) if alt < 2 else net.update_pilots(pilots=m, i=i, period=T)
                elif op == "post":
                    ret = net.post_charging_update()
                elif op == "retarget":
                    ret = self.ev[step["ev"]].update_station_id(var.station[step["s"]])
                elif op == "setup":
                    pass
                else:  # pragma: no cover
                    raise RuntimeError("unknown op %r" % op)
                res = "ok"
            except KeyError:
                res = "keyerror"
            except StationOccupiedError:
                res = "occupied"
            except InvalidRateError:
                res = "invalid"
        return res, len(caught) > 0, ret

    # -- the projection, compared field by field -----------------------------------------------
    def compare(self, n, step):
        import numpy as np
        net, var, case = self.net, self.var, self.case
        reg = step["reg"]
        names = [var.station[s] for s in reg]
        # station set and order (every other view is indexed by it)
        ids = net.station_ids
        if list(ids) != [var.station[s] for s in step["ids"]]:
            return _mm("C01", "station_ids", n, step, names, list(ids))
        if list(net._EVSEs.keys()) != names or any(net._EVSEs[var.station[s]] is not self.evse[s] for s in reg):
            return _mm("C01", "_EVSEs", n, step, names, list(net._EVSEs.keys()))
        # occupants
        for s in range(1, len(case["pool"]) + 2):
            sid = var.station[s]
            if s in reg:
                got = self.idx(net.get_ev(sid))
                if got != step["occ"][s - 1] or self.idx(self.evse[s].ev) != step["occ"][s - 1]:
                    return _mm("C01", "occupant", n, step, {"station": s, "ev": step["occ"][s - 1]}, {"station": s, "ev": got})
            else:
                try:
                    net.get_ev(sid)
                    return _mm("C01", "get_ev_unknown_station", n, step, "KeyError", "returned")
                except KeyError:
                    pass
                if s <= len(case["pool"]) and (self.evse[s].ev is not None or self.evse[s].current_pilot != 0):
                    return _mm("C01", "unregistered_evse_touched", n, step, {"station": s, "ev": 0, "pilot": 0},
                               {"station": s, "ev": self.idx(self.evse[s].ev), "pilot": float(self.evse[s].current_pilot)})
        for e, ev in self.ev.items():
            if ev.station_id != var.station[step["sta"][e - 1]] or ev.session_id != var.session[e]:
                return _mm("C01", "ev.station_id", n, step, [var.station[step["sta"][e - 1]], var.session[e]], [ev.station_id, ev.session_id])
        # station pilots
        for s in reg:
            p = self.evse[s].current_pilot
            if not close(p, step["pilot"][s - 1] / U):
                return _mm("C13", "current_pilot", n, step, {"station": s, "pilot": step["pilot"][s - 1] / U}, {"station": s, "pilot": float(p)})
        # ledger per EV.  After an update_pilots call that raised, the EVs of the refusing station and of the stations
        # behind it must be untouched: that is C13's clause ("a rejected pilot ... leaves the connected EV's energy and
        # battery untouched"); everything else about energies and rates is the ledger (C02).
        unreached = set()
        if step["op"] == "update" and step["res"] == "invalid":
            unreached = {step["occ"][s - 1] for i, s in enumerate(reg) if i >= step["applied"]} - {0}
        for e, ev in self.ev.items():
            led = "C13" if e in unreached else "C02"
            if not close_energy(ev.energy_delivered, step["evE"][e - 1]):
                return _mm(led, "energy_delivered", n, step, {"ev": e, "kWh": step["evE"][e - 1] / EU}, {"ev": e, "kWh": float(ev.energy_delivered)})
            if not close_energy(ev._battery._current_charge, step["chg"][e - 1]):
                return _mm(led, "battery_charge", n, step, {"ev": e, "kWh": step["chg"][e - 1] / EU}, {"ev": e, "kWh": float(ev._battery._current_charge)})
            num, den = step["rate"][e - 1]
            if not close(ev.current_charging_rate * U, num / den):
                return _mm(led, "ev.current_charging_rate", n, step, {"ev": e, "A": num / den / U}, {"ev": e, "A": float(ev.current_charging_rate)})
        rates = net.current_charging_rates
        want = [a / b / U for a, b in step["rates"]]
        if not isinstance(rates, np.ndarray) or rates.shape != (len(reg),) or not all(close(x * U, w * U) for x, w in zip(rates, want)):
            return _mm("C02", "current_charging_rates", n, step, want, [float(x) for x in np.asarray(rates).ravel()])
        # the active views (decisive cases only)
        if not any(e in step["nd"] for e in step["occ"]):
            a_ids = net.active_station_ids
            if list(a_ids) != [var.station[s] for s in step["act"]]:
                return _mm("C05", "active_station_ids", n, step, [var.station[s] for s in step["act"]], list(a_ids))
            a_evs = net.active_evs
            if [self.idx(x) for x in a_evs] != list(step["actev"]):
                return _mm("C05", "active_evs", n, step, list(step["actev"]), [self.idx(x) for x in a_evs])
        # infrastructure views, indexed by registration order
        volt = net.voltages
        if list(volt.keys()) != names or [float(volt[k]) for k in names] != [float(x) for x in step["volt"]] \
                or [float(x) for x in net._voltages] != [float(x) for x in step["volt"]]:
            return _mm("C05", "voltages", n, step, dict(zip(names, step["volt"])), {k: float(v) for k, v in volt.items()})
        ang = net.phase_angles
        if list(ang.keys()) != names or [float(ang[k]) for k in names] != [float(x) for x in step["ang"]] \
                or [float(x) for x in net._phase_angles] != [float(x) for x in step["ang"]]:
            return _mm("C05", "phase_angles", n, step, dict(zip(names, step["ang"])), {k: float(v) for k, v in ang.items()})
        if net._station_ids_dict != {k: i for i, k in enumerate(names)}:
            return _mm("C05", "info._station_ids_dict", n, step, {k: i for i, k in enumerate(names)}, dict(net._station_ids_dict))
        if not (len(net.max_pilot_signals) == len(net.min_pilot_signals) == len(net.is_continuous) == len(net.allowable_rates) == len(reg)):
            return _mm("C05", "info.length", n, step, len(reg), [len(net.max_pilot_signals), len(net.min_pilot_signals),
                                                                   len(net.is_continuous), len(net.allowable_rates)])
        for i, s in enumerate(reg):
            d = case["desc"][s - 1]
            got = {"max": float(net.max_pilot_signals[i]), "min": float(net.min_pilot_signals[i]), "cont": bool(net.is_continuous[i]),
                   "allow": sorted(float(x) for x in net.allowable_rates[i])}
            spec = {"max": d["max"] / U, "min": d["min"] / U, "cont": bool(d["cont"]), "allow": sorted(x / U for x in d["allow"])}
            if got != spec:
                return _mm("C05", "info.station", n, step, dict(spec, station=s), dict(got, station=s))
        return None


def replay_case(case):
    """Executes ONE behaviour of Network.tla through the real classes.  Returns None or the first mismatch (a dict with
    the owning property, the field, the step and both values)."""
    step, n, phase = None, -1, "build"
    try:
        w = _World(case)
        for n, step in enumerate(case["ops"]):
            phase = "call"
            if step["op"] == "setup":
                for s in step["reg"]:
                    w.perform({"op": "register", "s": s, "form": s})
                res, warned, ret = "ok", False, None
            else:
                res, warned, ret = w.perform(step)
            phase = "views"
            # "vacant" / "mismatch" (an unplug that finds nobody / somebody else) are not exceptions: a warning and no change
            want = step["res"] if step["res"] in ("keyerror", "occupied", "invalid") else "ok"
            if res != want:
                return _mm(_outcome_owner(res, want), "outcome", n, step, step["res"], res)
            if bool(warned) != bool(step["warn"]):
                return _mm("C01", "warning", n, step, bool(step["warn"]), bool(warned))
            if step["op"] == "get_ev" and res == "ok":
                if w.idx(ret) != step["val"]:
                    return _mm("C01", "get_ev", n, step, step["val"], w.idx(ret))
            elif res == "ok" and ret is not None:
                return _mm("C01", "return_value", n, step, None, repr(ret)[:80])
            d = w.compare(n, step)
            if d is not None:
                return d
    except Exception as e:  # noqa
        if not through_impl(e):
            raise
        op = (step or {"op": "setup"})["op"]
        owner = "C01"
        if phase == "call" and op == "update":
            owner = "C13"
        elif phase == "views":
            owner = "C05"
        st = step or {"op": "setup", "res": "ok"}
        d = _mm(owner, "exception.%s" % type(e).__name__, n, st, "no exception", "%s: %s" % (type(e).__name__, str(e)[:200]))
        d["phase"] = phase
        return d
    return None


# ------------------------------------------------------------------ the check
def nontrivial(b):
    """contains a refused / raising call or a charge of a connected EV"""
    ops = b["ops"]
    return any(s["res"] != "ok" for s in ops) or any(s["op"] == "update" and any(s["occ"]) for s in ops)


def _work(case):
    with warnings.catch_warnings():
        warnings.simplefilter("ignore")
        return replay_case(case)


def _run_pool(cases, nproc):
    if nproc <= 1 or len(cases) < 2000:
        return [_work(c) for c in cases]
    with ProcessPoolExecutor(max_workers=nproc) as ex:
        return list(ex.map(_work, cases, chunksize=max(1, len(cases) // (nproc * 8))))


MC_PROPS = ("TypeOK, OneStationPerEV, OccupantAtOwnStation, OnlyRegisteredUsed, PilotIsValid, Ledger, RatesView, "
            "ViewsWellFormed; RefusedChangesNothing, LeavesOnlyByUnplug, RegistrationAppendOnly, DisconnectedFrozen, "
            "RefusingStationUntouched, InvalidOnlyWithRef, LedgerStep, EnergyMonotone")
SIM3 = {"EVs": "<- EVsThree", "Menu": "<- MenuFive", "Periods": "<- PeriodsTwo", "Wt": "<- WtSim", "Pick": "<- PickOne",
        "InitRegs": "<- RegsFull"}


def check_network(rep, tier, seed, owner):
    """Adds the Network runs (TLC model checking + replay of generated behaviours) to `rep`.  Mismatches owned by `owner`
    are violations; the others are booked as foreign divergences of their owners."""
    quick = tier == "quick"
    rep.assumptions += [
        "Network: station ids registered with one network are distinct and no constraint is added (register_evse of an id "
        "already present replaces the EVSE but appends to the voltage / angle vectors: outside the properties)",
        "Network: an EV object is given a new station_id (update_station_id) only while it is not connected",
        "Network: ideal Battery; energies and rates compared with 1e-9 relative tolerance; active / fully charged compared "
        "only when the remaining demand is >= 1 W*min away from the 1e-3 kWh threshold (others counted as non-decisive)",
        "Network: update_pilots is given an ndarray with a row per registered station and a valid column index",
    ]
    acts = ["Register", "Plugin", "Plugin2", "Unplug", "UnplugDep", "GetEv", "DoUpdate", "PostUpdate", "Retarget", "Finish"]
    mc = run_tlc("MC_Network", "Network_mc", workers=4, coverage=True, timeout=1500,
                 overrides={"MaxOps": "= 3", "InitSta": "<- StaFew"} if quick else {"MaxOps": "= 6"})
    rep.add_tlc(mc, "Network: exhaustive model checking of every call sequence (2 stations of different kinds, 2 EVs): " + MC_PROPS,
                "Network_mc" + (" MaxOps=3 InitSta=StaFew" if quick else " MaxOps=6"), require_actions=acts)
    require_ok(mc, "Network model checking")
    rep.bounds["Network_mc"] = {"stations": 2, "evs": 2, "calls": 3 if quick else 6, "menu": 4}
    if not quick:
        # (no -coverage here: the same actions as above, whose coverage has just been required; it would double the cost)
        mc3 = run_tlc("MC_Network", "Network_mc", workers=4, timeout=1500, overrides={"MaxOps": "= 4", "EVs": "<- EVsThree"})
        rep.add_tlc(mc3, "Network: exhaustive model checking, 2 stations, 3 EVs (same invariants and action properties)",
                    "Network_mc MaxOps=4 EVs=EVsThree")
        require_ok(mc3, "Network model checking (3 EVs)")
        rep.bounds["Network_mc3"] = {"stations": 2, "evs": 3, "calls": 4, "menu": 4}

    n_sim = 1000 if quick else 20000
    jobs = [("exhaustive", dict(cfg="Network_gen", overrides={"InitRegs": "<- RegsFew", "InitSta": "<- StaFew"} if quick else {}))]
    if not quick:
        jobs.append(("exhaustive3", dict(cfg="Network_gen", overrides={"InitRegs": "<- RegsOne", "InitSta": "<- StaOne", "MaxOps": "= 3"})))
    jobs += [("simA", dict(cfg="Network_gen", simulate=n_sim, depth=12, seed=seed, overrides=dict(SIM3, Pool="<- PoolThreeA", MaxOps="= 8"))),
             ("simB", dict(cfg="Network_gen", simulate=n_sim, depth=12, seed=seed + 1000003, overrides=dict(SIM3, Pool="<- PoolThreeB", MaxOps="= 8"))),
             ("simC", dict(cfg="Network_gen", simulate=n_sim // 2, depth=17, seed=seed + 2000003,
                           overrides=dict(SIM3, Pool="<- PoolThreeA", MaxOps="= 13", InitRegs="<- RegsAll")))]

    def gen(job):
        name, kw = job
        kw = dict(kw)
        return name, run_tlc("MC_Network", kw.pop("cfg"), workers=1, timeout=1500, **kw)

    with ThreadPoolExecutor(max_workers=4) as ex:
        results = list(ex.map(gen, jobs))
    cases, seen, n_ex = [], set(), 0
    for (name, res), (_, kw) in zip(results, jobs):
        require_ok(res, "Network generation %s" % name)
        rep.add_tlc(res, "Network: behaviour generation (%s)" % ("exhaustive" if name.startswith("exh") else "-simulate, 3 stations / 3 EVs"),
                    "Network_gen %s" % json.dumps(kw.get("overrides", {}), sort_keys=True))
        for b in res.emitted.get("BHV", []):
            k = jhash(b)
            if k in seen:
                continue
            seen.add(k)
            cases.append((k, b))
            if name.startswith("exh"):
                n_ex += 1
    if not cases:
        raise RuntimeError("Network generation emitted no behaviour")
    results = _run_pool([b for _, b in cases], 1 if quick else 4)
    calls = 0
    for (k, b), d in zip(cases, results):
        rep.replayed += 1
        rep.count(k, nontrivial(b))
        calls += len(b["ops"]) - 1
        if any(any(e in s["nd"] for e in s["occ"]) for s in b["ops"]):
            rep.non_decisive += 1
        if d is None:
            continue
        if d["owner"] == owner:
            rep.violation("%s:%s" % (owner, d["key"]), "%s after %s (step %d): spec %s, implementation %s" % (
                d["field"], d["op"], d["step"], json.dumps(d["spec"], default=repr)[:160], json.dumps(d["impl"], default=repr)[:160]),
                {"kind": "case", "module": "props_network", "case": b, "mismatch": d})
        else:
            rep.foreign_divergence(d["owner"], {"module": "props_network", "mismatch": d})
    rep.notes.append("Network: every behaviour of the exhaustive generation (%d) replayed, plus %d sampled longer ones; %d calls "
                     "performed on real objects, the full projection compared after each" % (n_ex, len(cases) - n_ex, calls))
    rep.sample(cases[len(cases) // 2][1])
    return rep


RULE = ("call sequences of Network.tla (register / plugin / deprecated plugin / unplug / deprecated unplug / get_ev / update_pilots / "
        "post_charging_update / update_station_id) enumerated (small) and sampled (-simulate, 3 stations) by TLC; distinct by "
        "content; non-trivial = contains a refused or raising call, or an update_pilots with a connected EV")


def check_owner(owner, tier, seed):
    rep = Report(owner, tier, seed)
    rep.rule = RULE
    check_network(rep, tier, seed, owner)
    return rep.finish()


def check_C01N(tier, seed):
    """Standalone: the Network module judged for C01 (plug / unplug discipline, connectedness)."""
    return check_owner("C01", tier, seed)
