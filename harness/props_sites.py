"""C16: Sites.tla bound to the real site factories (caltech_acn, jpl_acn, office001_acn, simple_acn).

TLC decides `FeasibleWithinRatings` and the structural invariants on Sites.tla and emits
  * "table" cases - the configuration the design prescribes (station -> angle, voltage, EVSE type;
    constraint -> coefficient per station, limit) for a capacity tuple and a `voltage` argument;
  * "sched" cases - an assignment of group totals with the spec's exact answer (64|I|^2 per constraint row,
    verdict, winding power, plant within ratings).
Every case is executed through the real factories and ChargingNetwork:
  table:  constraints_as_df(), magnitudes, phase_angles/_phase_angles, voltages of the network the factory
          returns, for BASIC and real EVSE types, are compared entry by entry (the EVSE model of a station
          is not part of C16: a difference is noted in the evidence, not reported);
          the structural half of C16 is also evaluated on the real network itself;
  sched:  the totals are spread over the real EVSEs (several spreadings, within the EVSE limits),
          |constraint_current| is compared with the spec's sqrt(N)/8, is_feasible with the spec's verdict
          (decisive margins only), and every schedule the REAL network reports feasible is checked directly
          against the plant: sum(208 V * I) per transformer, pod sums, sub-panel line currents;
  push:   (direct, no spec answer involved) lattice directions are scaled up to the real network's
          feasibility boundary by bisection and the same plant check is made there.
"""
import json
import contextlib
import io
import math
import os
import subprocess
import tempfile
import shutil
import time
import warnings
from fractions import Fraction

import numpy as np

from .common import Report, jhash
from .tlc import run_tlc, require_ok, SPEC_DIR

RTOL = 1e-9
NOMINAL_V = 208.0
# "208 V" is the rounded 120*sqrt(3) = 207.846 V.  The ratings are stated at 120 V line-to-neutral (factory
# docstrings; Sites.tla NominalRoundingWitness), so power computed literally with 208 V may exceed 1000*cap by
# this factor and no more.  VERIF_C16_STRICT208=1 demands the literal reading (fails on the unchanged tree).
NOMINAL_ROUNDING = NOMINAL_V / (120.0 * math.sqrt(3.0))
STRICT_208 = os.environ.get("VERIF_C16_STRICT208") == "1"
LL_ANGLES = (30, -90, 150)
CONN = {30: ("a", "b"), -90: ("b", "c"), 150: ("c", "a"), 0: ("a", "n")}     # angle -> (from line, to line)


def close(x, y, tol=RTOL):
    return abs(float(x) - float(y)) <= tol * max(1.0, abs(float(y)))


# ------------------------------------------------------------------------------------------------
# the real networks

def build(site, caps, volt, basic):
    from acnportal.acnsim.network import sites
    with warnings.catch_warnings():
        warnings.simplefilter("ignore")
        if site == "caltech":
            if not basic:
                # the same site through the deprecated constructor, arguments by keyword (it prints a notice)
                with contextlib.redirect_stdout(io.StringIO()):
                    return sites.CaltechACN(basic_evse=basic, voltage=volt, transformer_cap=caps[0])
            return sites.caltech_acn(basic_evse=basic, voltage=volt, transformer_cap=caps[0])
        if site == "office001":
            return sites.office001_acn(basic_evse=basic, voltage=volt, transformer_cap=caps[0])
        if site == "jpl":
            return sites.jpl_acn(basic_evse=basic, voltage=volt, first_transformer_cap=caps[0],
                                 third_fourth_transformer_cap=caps[1])
        if site == "simple":
            ids = ["S-1", "S-2", "S-3", "S-4", "S-5"]
            return sites.simple_acn(ids, evse_type="BASIC" if basic else "AeroVironment", voltage=volt,
                                    aggregate_cap=caps[0])
    raise ValueError(site)


_NETS = {}


def network(site, caps, volt, basic):
    k = (site, tuple(caps), volt, basic)
    if k not in _NETS:
        if len(_NETS) > 400:
            _NETS.clear()
        _NETS[k] = build(site, caps, volt, basic)
    return _NETS[k]


def limit_float(lim):
    m, n, d = lim
    return math.sqrt(m) * n / d


# ------------------------------------------------------------------------------------------------
# the design's structure (cells, stations, plant) as the spec emits it; cached per site

_STRUCT = {}


def _remember(table):
    site = table["site"]
    if site in _STRUCT:
        return
    cells = table["cells"]
    st = {"cells": cells, "ids": {c: [] for c in cells}, "angle": {}, "rows": [r["name"] for r in table["rows"]],
          "plant": table["plant"], "kind": {}}
    for s, r in zip(table["basic"], table["real"]):
        st["ids"][s["cell"]].append(s["id"])
        st["angle"][s["cell"]] = s["angle"]
        st["kind"][s["cell"]] = r["type"]
    _STRUCT[site] = st


def structure(site):
    if site not in _STRUCT:
        res = run_tlc("MC_Sites", "Sites_table", workers=1)
        require_ok(res, "Sites tables")
        for c in res.emitted.get("BHV", []):
            if c["kind"] == "table":
                _remember(c)
    return _STRUCT[site]


# ------------------------------------------------------------------------------------------------
# table cases: configuration conformance

def replay_table(t, notes=None):
    site, caps, volt = t["site"], t["caps"], t["volt"]
    from acnportal.acnsim.models import EVSE, FiniteRatesEVSE
    for basic in (True, False):
        net = build(site, caps, volt, basic)
        who = "basic" if basic else "real"
        spec_st = t["basic" if basic else "real"]
        ids = [s["id"] for s in spec_st]
        if sorted(net.station_ids) != sorted(ids) or len(set(net.station_ids)) != len(net.station_ids):
            return {"field": "station_ids", "evse": who, "spec_only": sorted(set(ids) - set(net.station_ids)),
                    "impl_only": sorted(set(net.station_ids) - set(ids))}
        angles, volts = net.phase_angles, net.voltages
        if len(net._phase_angles) != len(ids) or len(net._voltages) != len(ids):
            return {"field": "array lengths", "evse": who}
        for i, sid in enumerate(net.station_ids):       # the public dicts are the private arrays, aligned
            if angles[sid] != net._phase_angles[i] or volts[sid] != net._voltages[i]:
                return {"field": "alignment of phase_angles/voltages with station_ids", "evse": who, "station": sid}
        for s in spec_st:
            sid = s["id"]
            if not close(angles[sid], s["angle"]):
                return {"field": "phase_angle", "evse": who, "station": sid, "spec": s["angle"], "impl": float(angles[sid])}
            if not close(volts[sid], s["volt"]):
                return {"field": "voltage", "evse": who, "station": sid, "spec": s["volt"], "impl": float(volts[sid])}
            # which EVSE model a station carries is not part of C16: differences are only noted
            ev = net._EVSEs[sid]
            if s["type"] == "BASIC":
                ok = type(ev) is EVSE and close(ev.max_rate, s["rates"][-1]) and close(ev.min_rate, s["rates"][0])
            else:
                ok = isinstance(ev, FiniteRatesEVSE) and [float(r) for r in ev.allowable_rates] == [float(r) for r in s["rates"]]
            if not ok and notes is not None:
                notes.add("%s %s: EVSE model differs from the documented %s" % (site, sid, s["type"]))
        # constraints
        df = net.constraints_as_df()
        names = [r["name"] for r in t["rows"]]
        if sorted(df.index) != sorted(names) or list(df.index) != list(net.constraint_index):
            return {"field": "constraint names", "evse": who, "spec_only": sorted(set(names) - set(df.index)),
                    "impl_only": sorted(set(df.index) - set(names))}
        if df.shape != (len(names), len(ids)) or len(net.magnitudes) != len(names):
            return {"field": "constraint matrix shape", "evse": who, "impl": list(df.shape)}
        cell_idx = {c: j for j, c in enumerate(t["cells"])}
        for r in t["rows"]:
            k = net.constraint_index.index(r["name"])
            want = limit_float(r["lim"])
            if not close(net.magnitudes[k], want):
                return {"field": "limit", "evse": who, "row": r["name"], "spec": want, "impl": float(net.magnitudes[k])}
            for s in spec_st:
                q = r["coef"][cell_idx[s["cell"]]] / 4.0
                got = df.loc[r["name"], s["id"]]
                if not close(got, q):
                    return {"field": "coefficient", "evse": who, "row": r["name"], "station": s["id"],
                            "cell": s["cell"], "spec": q, "impl": float(got)}
        # the structural half of C16, on the real network alone
        if site != "simple":
            xrows = [n for x in t["plant"]["xfmrs"] for n in x["sec"] + x["prim"]]
            for sid in net.station_ids:
                if not any(close(angles[sid], a) for a in LL_ANGLES):
                    return {"field": "structure: angle not line-to-line", "evse": who, "station": sid, "impl": float(angles[sid])}
                if not any(abs(df.loc[n, sid]) > 1e-12 for n in xrows if n in df.index):
                    return {"field": "structure: not covered by a transformer constraint", "evse": who, "station": sid}
    return None


# ------------------------------------------------------------------------------------------------
# sched cases

def spreadings(total, n, rates, continuous):
    """Ways of putting `total` A on n EVSEs within their limits; [] if the EVSE type cannot represent it."""
    mx = rates[-1]
    if total > mx * n:
        return []
    out = []
    if continuous:
        out.append([total / float(n)] * n)                              # even
        k, r = divmod(total, mx)
        out.append([float(mx)] * k + ([float(r)] if k < n else []) + [0.0] * (n - k - 1))   # fill up one by one
        return out
    allowed = set(rates)
    k, r = divmod(total, mx)
    v = [mx] * k + ([r] if k < n else []) + [0] * (n - k - 1)
    if k < n and r not in allowed:
        lo = min(a for a in allowed if a > 0)
        fixed = False
        if k >= 1:                                                      # borrow from a full EVSE
            for a in sorted(allowed):
                if a >= lo and (mx + r - a) in allowed and mx + r - a > 0:
                    v[k - 1], v[k] = mx + r - a, a
                    fixed = True
                    break
        if not fixed:
            return []
    if any(a not in allowed for a in v):
        return []
    out.append([float(a) for a in v])
    out.append([float(a) for a in reversed(v)])
    return out


def plant_check(site, st, caps, sched_by_id, tol_rel):
    """The ratings of the plant as designed (not as registered in the code), in floating point.
    Returns None or a mismatch dict.  sched_by_id: station id -> pilot [A]."""
    cells = st["cells"]
    tot = {c: sum(sched_by_id[s] for s in st["ids"][c]) for c in cells}
    allow = 1.0 if STRICT_208 else NOMINAL_ROUNDING
    for x in st["plant"]["xfmrs"]:
        inside = [c for c, b in zip(cells, x["cells"]) if b]
        p = NOMINAL_V * sum(tot[c] for c in inside)
        cap_w = 1000.0 * caps[x["cap"] - 1]
        if p > cap_w * allow * (1 + tol_rel):
            return {"field": "power through transformer", "transformer": x["name"], "watts": p, "capacity_w": cap_w,
                    "ratio": p / cap_w, "allowed_ratio": allow}
    for pod in st["plant"]["pods"]:
        s = sum(tot[c] for c, b in zip(cells, pod["cells"]) if b)
        if s > pod["rating"] * (1 + tol_rel):
            return {"field": "pod current", "pod": pod["row"], "amps": s, "rating": pod["rating"]}
    for pan in st["plant"]["panels"]:
        inside = [c for c, b in zip(cells, pan["cells"]) if b]
        for line in "abc":
            z = 0j
            for c in inside:
                ang = st["angle"][c]
                fr, to = CONN[ang]
                sgn = 1 if fr == line else -1 if to == line else 0
                z += sgn * tot[c] * complex(math.cos(math.radians(ang)), math.sin(math.radians(ang)))
            if abs(z) > pan["rating"] * (1 + tol_rel):
                return {"field": "sub-panel line current", "panel": pan["rows"][0][:-4], "line": line, "amps": abs(z),
                        "rating": pan["rating"]}
    return None


def row_margins(case):
    """Per row: 'in' (|I| <= L exactly: specification and network accept), 'out' (beyond L plus the network's
    tolerance, decisively: both refuse) or 'edge' (inside the tolerance band: not compared)."""
    out = []
    for N, lim in zip(case["N"], case["lims"]):
        exact = Fraction(N, 64) - Fraction(lim[0] * lim[1] * lim[1], lim[2] * lim[2])       # |I|^2 - L^2
        if exact <= 0:
            out.append("in")
            continue
        i_mag = math.sqrt(N) / 8.0
        L = limit_float(lim)
        tol = max(1e-5, 1e-7 * L)
        out.append("out" if i_mag > L + 1.001 * tol + 1e-9 * L else "edge")
    return out


def tol_rel_for(case):
    # the network accepts |I| <= L + max(1e-5, 1e-7 L): relative slack of the power bound
    ls = [limit_float(l) for l in case["lims"] if limit_float(l) > 0]
    return 1.5 * max(1e-7, 1e-5 / min(ls)) + 1e-9 if ls else 1.5e-7


def replay_sched_all(case, stats=None):
    """All mismatches of one sched case, at most one per class (magnitude / verdict / plant)."""
    site, caps, volt = case["site"], case["caps"], case["volt"]
    st = structure(site)
    cells = st["cells"]
    marg = row_margins(case)
    if case["feas"] != all(case["ok"]) or [m == "in" for m in marg] != [bool(ok) for ok in case["ok"]]:
        return [{"field": "spec self-consistency: ok[] against exact margins"}]
    decisive = ("out" in marg) or all(m == "in" for m in marg)
    # the emitted lattice must be within the EVSE limits
    for c, tot in zip(cells, case["x"]):
        if tot < 0 or tot > 32 * len(st["ids"][c]):
            return [{"field": "lattice point outside EVSE limits", "cell": c, "total": tot}]
    found = {}
    ran = 0
    for basic in (True, False):
        net = network(site, caps, volt, basic)
        who = "basic" if basic else "real"
        per_cell = []
        for c, tot in zip(cells, case["x"]):
            ev = net._EVSEs.get(st["ids"][c][0])
            if ev is None:
                return [{"field": "station missing", "station": st["ids"][c][0]}]
            cont = bool(ev.is_continuous)
            rates = [0, int(ev.max_rate)] if cont else sorted(int(r) for r in ev.allowable_rates)
            per_cell.append(spreadings(int(tot), len(st["ids"][c]), rates, cont))
        if any(len(p) == 0 for p in per_cell):
            if stats is not None:
                stats["unrepresentable_" + who] = stats.get("unrepresentable_" + who, 0) + 1
            continue
        for variant in range(2):
            by_id = {}
            for c, ways in zip(cells, per_cell):
                for sid, a in zip(st["ids"][c], ways[variant % len(ways)]):
                    by_id[sid] = a
            if sorted(by_id) != sorted(net.station_ids):
                return [{"field": "station_ids"}]
            sched = np.array([[by_id[sid]] for sid in net.station_ids])
            mags = np.abs(net.constraint_current(sched))[:, 0]
            for k, name in enumerate(st["rows"]):
                if name not in net.constraint_index:
                    found.setdefault("constraint missing", {"field": "constraint missing", "row": name})
                    continue
                got = mags[net.constraint_index.index(name)]
                want = math.sqrt(case["N"][k]) / 8.0
                if abs(got - want) > RTOL * max(1.0, want) + 1e-9:
                    found.setdefault("magnitude", {"field": "constraint_current magnitude", "evse": who, "row": name,
                                                   "spec": want, "impl": float(got), "spreading": variant})
            feas = bool(net.is_feasible(sched))
            ran += 1
            if variant == 0:
                # the same load followed by idle periods, as many periods as the site has stations (a square schedule):
                # feasibility is decided period by period, idle periods are feasible
                n_st = len(net.station_ids)
                square = np.zeros((n_st, n_st))
                square[:, 0] = sched[:, 0]
                feas_sq = bool(net.is_feasible(square))
                if feas_sq != feas:
                    found.setdefault("verdict", {"field": "is_feasible verdict (one loaded period + idle periods)", "evse": who,
                                                 "spec": feas, "impl": feas_sq, "periods": n_st})
            if decisive and feas != case["feas"]:
                found.setdefault("verdict", {"field": "is_feasible verdict", "evse": who, "spec": case["feas"], "impl": feas,
                                             "spreading": variant,
                                             "rows_spec": [n for n, ok in zip(st["rows"], case["ok"]) if not ok]})
            if feas:        # direct: what the real network admits stays within the plant's ratings
                d = plant_check(site, st, caps, by_id, tol_rel_for(case))
                if d is None and site == "simple" and volt * sum(by_id.values()) > 1000.0 * caps[0] * (1 + tol_rel_for(case)):
                    d = {"field": "aggregate power", "watts": volt * sum(by_id.values())}
                if d is not None:
                    d.update({"evse": who, "spreading": variant, "note": "schedule reported feasible by the real network"})
                    found.setdefault("plant", d)
                elif stats is not None and site != "simple":
                    for x in st["plant"]["xfmrs"]:
                        p = NOMINAL_V * sum(t for t, b in zip(case["x"], x["cells"]) if b)
                        r = p / (1000.0 * caps[x["cap"] - 1])
                        stats["max_P208_over_cap"] = max(stats.get("max_P208_over_cap", 0.0), r)
    if stats is not None:
        stats["runs"] = stats.get("runs", 0) + ran
        if not decisive:
            stats["non_decisive"] = stats.get("non_decisive", 0) + 1
    return [found[k] for k in ("constraint missing", "magnitude", "verdict", "plant") if k in found]


def replay_sched(case, stats=None):
    ds = replay_sched_all(case, stats)
    return ds[0] if ds else None


def push_to_boundary(case, stats):
    """Direct check without the spec's answer: scale the direction of a lattice point up to the real network's
    feasibility boundary (bisection, within the 32 A limits) and check the plant there."""
    site, caps, volt = case["site"], case["caps"], case["volt"]
    if site == "simple" or sum(case["x"]) == 0:
        return None
    st = structure(site)
    cells = st["cells"]
    net = network(site, caps, volt, True)
    base = {}
    for c, tot in zip(cells, case["x"]):
        for sid in st["ids"][c]:
            base[sid] = tot / float(len(st["ids"][c]))
    v = np.array([[base[sid]] for sid in net.station_ids])
    hi = 32.0 / v.max()                     # largest scale within the EVSE limits
    if net.is_feasible(v * hi):
        lam = hi
    else:
        lo = 0.0
        for _ in range(50):
            mid = 0.5 * (lo + hi)
            if net.is_feasible(v * mid):
                lo = mid
            else:
                hi = mid
        lam = lo
    by_id = {sid: base[sid] * lam for sid in base}
    d = plant_check(site, st, caps, by_id, tol_rel_for(case))
    stats["pushed"] = stats.get("pushed", 0) + 1
    for x in st["plant"]["xfmrs"]:
        p = NOMINAL_V * sum(by_id[s] for c, b in zip(cells, x["cells"]) if b for s in st["ids"][c])
        stats["max_P208_over_cap_boundary"] = max(stats.get("max_P208_over_cap_boundary", 0.0), p / (1000.0 * caps[x["cap"] - 1]))
    if d is not None:
        d.update({"note": "boundary schedule reported feasible by the real network", "scale": lam})
    return d


def replay_case(case):
    """Execute one emitted case through the real code; None or the first mismatch."""
    if case["kind"] == "table":
        return replay_table(case)
    if case.get("push"):
        return push_to_boundary(case, {})
    return replay_sched(case)


# ------------------------------------------------------------------------------------------------
# Apalache: the integer implication behind FeasibleWithinRatings over unbounded integers (recorded, not relied on)

def _apalache_once(exe, d, inv, timeout_s):
    cmd = ["timeout", str(timeout_s), exe, "check", "--length=0", "--inv=" + inv,
           "--out-dir=" + os.path.join(d, "out-" + inv), "SitesApalache.tla"]
    env = dict(os.environ)
    env.pop("JAVA_TOOL_OPTIONS", None)
    t0 = time.time()
    p = subprocess.run(cmd, cwd=d, env=env, stdout=subprocess.PIPE, stderr=subprocess.STDOUT, text=True,
                       timeout=timeout_s + 30)
    out = p.stdout
    if p.returncode == 124:
        verdict = "timeout after %d s (no verdict)" % timeout_s
    elif "The outcome is: NoError" in out:
        verdict = "NoError"
    elif "The outcome is: Error" in out:
        verdict = "Error (counterexample)"
    else:
        verdict = "no verdict (exit %s): %s" % (p.returncode, out.strip().splitlines()[-1][:200] if out.strip() else "")
    return "%s in %.0f s" % (verdict, time.time() - t0)


def try_apalache(timeout_s=300):
    """`SecondaryBoundsPower` should come out NoError (the implication holds for ALL non-negative integers),
    `Literal208` Error (the rounded-208-V reading is refutable): the second run shows the first is not vacuous."""
    exe = shutil.which("apalache-mc")
    src = os.path.join(SPEC_DIR, "SitesApalache.tla")
    if exe is None or not os.path.exists(src):
        return "apalache-mc or SitesApalache.tla not available"
    d = tempfile.mkdtemp(prefix="verif-apa-", dir=os.environ.get("VERIF_SCRATCH") or "/var/tmp")
    try:
        shutil.copy(src, d)
        a = _apalache_once(exe, d, "SecondaryBoundsPower", timeout_s)
        b = _apalache_once(exe, d, "Literal208", 120)
        return "SecondaryBoundsPower: %s; Literal208 (expected to be refuted): %s" % (a, b)
    except Exception as e:  # recorded only
        return "not run: %r" % (e,)
    finally:
        shutil.rmtree(d, ignore_errors=True)


# ------------------------------------------------------------------------------------------------

def _selftest(tables, scheds):
    """The binding must reject a corrupted specification answer (otherwise the comparison is vacuous)."""
    t = json.loads(json.dumps(next(c for c in tables if c["site"] == "caltech")))
    t["rows"][2]["coef"][4] = -t["rows"][2]["coef"][4]                  # Secondary A: sign of the CA group
    if replay_table(t) is None:
        raise RuntimeError("self-test: a flipped coefficient in the expected table was not noticed")
    t = json.loads(json.dumps(next(c for c in tables if c["site"] == "jpl")))
    t["real"][3]["angle"] = 30 if t["real"][3]["angle"] != 30 else 150
    if replay_table(t) is None:
        raise RuntimeError("self-test: a wrong expected angle was not noticed")
    s = json.loads(json.dumps(next(c for c in scheds if c["site"] == "office001" and c["feas"] and sum(c["x"]) > 0)))
    s["N"][0] += max(1, s["N"][0] // 1000)
    if replay_sched(s) is None:
        raise RuntimeError("self-test: a wrong expected magnitude was not noticed")


def check_C16(tier, seed):
    rep = Report("C16", tier, seed)
    rep.rule = ("cases emitted by TLC from Sites.tla: configuration tables per (site, capacities, voltage) and lattice "
                "assignments of group totals per (site, capacities); distinct by content; non-trivial = a table, or an "
                "assignment that the specification accepts, or a refused one whose worst constraint is at most 15 % "
                "over its limit")
    rep.assumptions += [
        "ratings are stated in the nominal system of the factory docstrings (120 V line-to-neutral): power through a "
        "transformer is 120*sqrt(3)*sum(I); computed literally with the rounded 208 V it may exceed 1000*cap by the "
        "factor 208/(120*sqrt(3)) = 1.00074 at balanced feasible points (Sites.tla NominalRoundingWitness); "
        "VERIF_C16_STRICT208=1 demands the literal reading",
        "integer capacities 20..300 kW; group totals are integers [A] within 32 A per EVSE",
        "the network's own tolerances (1e-5 A, 1e-7 relative) are granted: verdicts are compared where the exact "
        "margin exceeds them, the direct power check allows the same relative slack",
        "the physical plant (which EVSE hangs between which lines, behind which transformer/pod/panel) is the one in "
        "the factories' id lists and comments, transcribed in Sites.tla",
    ]
    thorough = tier == "thorough"
    # (the machine is shared: cap the JVM heap; -coverage is only affordable on the quick lattice)
    jvm = {"JAVA_TOOL_OPTIONS": "-Xmx3g"}
    invs = ("exhaustive over the lattice: Structure, FeasibleWithinRatings, EvalIsFeasible, PowerIsLoadPower, "
            "SecondaryAloneSuffices, JplPrimaryNeverBinds, TypeOK")
    mc = run_tlc("MC_Sites", "Sites_mc_quick", workers=4, coverage=True, timeout=1500, env_extra=jvm)
    rep.add_tlc(mc, invs + " (with action coverage)", "Sites_mc_quick", require_actions=["Eval", "Finish"])
    require_ok(mc, "Sites model checking")
    mc_cfg = "Sites_mc_quick"
    if thorough:
        mc_cfg = "Sites_mc_thorough"
        mc2 = run_tlc("MC_Sites", mc_cfg, workers=4, timeout=2400, env_extra=jvm)
        rep.add_tlc(mc2, invs, mc_cfg)
        require_ok(mc2, "Sites model checking (thorough lattice)")
        if mc2.distinct < 3 * 100000:
            raise RuntimeError("thorough lattice unexpectedly small: %d states" % mc2.distinct)
    rep.bounds["model_checking"] = open(os.path.join(SPEC_DIR, "cfg", mc_cfg + ".cfg")).read().split("SPECIFICATION")[0]

    cases = []
    gen = run_tlc("MC_Sites", "Sites_gen", workers=1, timeout=1500, env_extra=jvm,
                  overrides={"Lattice": "<- LatticeQuick", "CapChoices": "<- CapChoicesQuick"} if thorough else None)
    require_ok(gen, "Sites generation")
    rep.add_tlc(gen, "exhaustive case generation (tables and lattice assignments)", "Sites_gen" + (" on LatticeQuick" if thorough else ""))
    cases += gen.emitted.get("BHV", [])
    n_ex = len(cases)
    if thorough:
        sim = run_tlc("MC_Sites", "Sites_sim", workers=1, simulate=40000, depth=3, seed=seed, timeout=1500, env_extra=jvm)
        require_ok(sim, "Sites sampling")
        rep.add_tlc(sim, "sampled cases of the thorough lattice (-simulate)", "Sites_sim")
        cases += sim.emitted.get("BHV", [])
        tab = run_tlc("MC_Sites", "Sites_table", workers=1, overrides={"CapChoices": "<- CapChoicesAll"}, env_extra=jvm)
        require_ok(tab, "Sites tables, all capacities")
        rep.add_tlc(tab, "configuration tables for the whole capacity lattice", "Sites_table CapChoicesAll")
        cases += tab.emitted.get("BHV", [])

    tables = [c for c in cases if c["kind"] == "table"]
    for t in tables:
        _remember(t)
    scheds = [c for c in cases if c["kind"] == "sched"]
    _selftest(tables, scheds)

    stats = {}
    seen = set()
    type_notes = set()
    n_tab = n_sched = n_feas = 0
    for c in cases:
        k = jhash(c)
        if k in seen:
            continue
        seen.add(k)
        if c["kind"] == "table":
            d = replay_table(c, type_notes)
            n_tab += 1
            rep.replayed += 1
            rep.count(k, True)
            if d is not None:
                rep.violation("C16:%s:table:%s" % (c["site"], d["field"].split(":")[0]), json.dumps(d)[:400],
                              {"kind": "case", "module": "props_sites", "case": c, "mismatch": d})
            continue
        if not c["within"] and c["feas"]:
            raise RuntimeError("TLC emitted a feasible case outside the ratings without reporting the invariant")
        ds = replay_sched_all(c, stats)
        n_sched += 1
        n_feas += bool(c["feas"])
        rep.replayed += 1
        worst = max(math.sqrt(N) / 8.0 / limit_float(l) for N, l in zip(c["N"], c["lims"]))
        rep.count(k, bool(c["feas"]) or worst <= 1.15)
        for d in ds:
            rep.violation("C16:%s:%s" % (c["site"], d["field"]), json.dumps(d)[:400],
                          {"kind": "case", "module": "props_sites", "case": c, "mismatch": d})
    # boundary push on the directions of feasible / near-feasible lattice points
    pushed = 0
    budget = 6000 if thorough else 1500
    for c in scheds:
        if pushed >= budget:
            break
        if c["site"] == "simple" or not c["feas"]:
            continue
        d = push_to_boundary(c, stats)
        pushed += 1
        if d is not None:
            pc = dict(c)
            pc["push"] = True
            rep.violation("C16:%s:boundary:%s" % (c["site"], d["field"]), json.dumps(d)[:400],
                          {"kind": "case", "module": "props_sites", "case": pc, "mismatch": d})
    rep.non_decisive = stats.get("non_decisive", 0)
    rep.exhaustive = True
    rep.bounds["generation"] = "%d exhaustively generated cases%s" % (n_ex, ", plus -simulate samples and all-capacity tables" if thorough else "")
    rep.notes.append("%d configuration tables (x BASIC and real EVSE types) and %d lattice assignments (%d accepted by the "
                     "specification) executed through the real factories; %d is_feasible/constraint_current evaluations; "
                     "%d boundary pushes" % (n_tab, n_sched, n_feas, stats.get("runs", 0), pushed))
    rep.notes.append("largest 208 V * sum(I) / (1000*cap) over schedules the real networks accepted: %.5f on the lattice, "
                     "%.7f at the bisected boundary (allowed: %.7f)"
                     % (stats.get("max_P208_over_cap", 0.0), stats.get("max_P208_over_cap_boundary", 0.0),
                        1.0 if STRICT_208 else NOMINAL_ROUNDING))
    rep.notes.append("assignments not representable with the finite rates of the real EVSE types (checked with BASIC "
                     "only): %d" % stats.get("unrepresentable_real", 0))
    if type_notes:
        rep.notes.append("not part of C16, noted only: " + "; ".join(sorted(type_notes))[:600])
    if stats.get("unrepresentable_basic"):
        raise RuntimeError("a lattice point could not be spread over BASIC EVSEs")
    if thorough:
        rep.notes.append("Apalache (SitesApalache.tla, unbounded integers, timeout 300 s): " + try_apalache(300))
    if tables:
        small = dict(tables[-1])
        small["basic"] = small["basic"][:2] + ["..."]
        small["real"] = small["real"][:2] + ["..."]
        rep.sample(small)
    feas = [c for c in scheds if c["feas"] and sum(c["x"]) > 0]
    if feas:
        rep.sample(feas[len(feas) // 2])
    if scheds:
        rep.sample(scheds[-1])
    return rep.finish()
